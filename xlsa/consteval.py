"""Static evaluator for constant expressions and literal tables.

Folds module-/class-level literals without executing the package: numbers,
strings, tuples/lists/sets/dicts, arithmetic, set("01"), frozenset([...]),
names bound to constants (through imports and class bodies), constructor calls
of package classes (bound to the __init__ parameter names) and references to
package functions/classes (kept symbolic as Ref).
"""
import ast
import operator as _op

from . import Unmodelled


class Ref:
    """Symbolic reference to a function/class/module or an external object."""
    __slots__ = ('ref',)

    def __init__(self, ref):
        self.ref = ref

    def __eq__(self, other):
        return isinstance(other, Ref) and other.ref == self.ref

    def __hash__(self):
        return hash(('Ref', self.ref))

    def __repr__(self):
        return f'Ref({self.ref})'


class MsgRef(Ref):
    """An exception instance known by its class and the text of its message (unknown parts of the text read '?')."""
    __slots__ = ('message',)

    def __init__(self, ref, message):
        Ref.__init__(self, ref)
        self.message = message

    def __repr__(self):
        return f'Ref({self.ref}: {self.message[:60]!r})'


class Obj:
    """Instance of a package class built by a constructor call with folded arguments."""

    def __init__(self, cref, fields):
        self.cref = cref
        self.fields = fields

    def __repr__(self):
        return f'Obj({self.cref}, {self.fields})'


class Unfoldable(Unmodelled):
    pass


_BIN = {
    ast.Add: _op.add, ast.Sub: _op.sub, ast.Mult: _op.mul, ast.Div: _op.truediv,
    ast.FloorDiv: _op.floordiv, ast.Mod: _op.mod, ast.Pow: _op.pow,
    ast.LShift: _op.lshift, ast.RShift: _op.rshift, ast.BitAnd: _op.and_,
    ast.BitOr: _op.or_, ast.BitXor: _op.xor,
}
_UN = {ast.USub: _op.neg, ast.UAdd: _op.pos, ast.Not: _op.not_, ast.Invert: _op.invert}
_CMP = {
    ast.Eq: _op.eq, ast.NotEq: _op.ne, ast.Lt: _op.lt, ast.LtE: _op.le,
    ast.Gt: _op.gt, ast.GtE: _op.ge, ast.In: lambda a, b: a in b,
    ast.NotIn: lambda a, b: a not in b, ast.Is: _op.is_, ast.IsNot: _op.is_not,
}
_PURE_CALLS = {
    'builtin:set': set, 'builtin:frozenset': frozenset, 'builtin:tuple': tuple,
    'builtin:list': list, 'builtin:str': str, 'builtin:int': int, 'builtin:float': float,
    'builtin:len': len, 'builtin:sorted': sorted, 'builtin:dict': dict, 'builtin:bool': bool,
    'builtin:abs': abs, 'builtin:min': min, 'builtin:max': max, 'builtin:range': range,
}
_PURE_STR_METHODS = {'upper', 'lower', 'strip', 'startswith', 'endswith', 'find', 'split',
                     'replace', 'join', 'title', 'format', 'index', 'count'}


class Folder:
    def __init__(self, repo, resolver):
        self.repo = repo
        self.res = resolver
        self._active = set()

    def fold(self, node, m=None, env=None, self_class=None):
        """env: {local name: value}; self_class: class ref that `self.X` refers to."""
        m = m or node._module
        env = env or {}
        f = lambda n: self.fold(n, m, env, self_class)  # noqa: E731
        if isinstance(node, ast.Constant):
            return node.value
        if isinstance(node, ast.Tuple):
            return tuple(f(e) for e in node.elts)
        if isinstance(node, ast.List):
            return [f(e) for e in node.elts]
        if isinstance(node, ast.Set):
            return set(f(e) for e in node.elts)
        if isinstance(node, ast.Dict):
            out = {}
            for k, v in zip(node.keys, node.values):
                if k is None:
                    out.update(f(v))
                else:
                    out[f(k)] = f(v)
            return out
        if isinstance(node, ast.JoinedStr):
            parts = []
            for v in node.values:
                if isinstance(v, ast.Constant):
                    parts.append(str(v.value))
                elif isinstance(v, ast.FormattedValue) and v.format_spec is None and v.conversion == -1:
                    parts.append(str(f(v.value)))
                else:
                    raise Unfoldable(f'f-string part {ast.dump(v)[:60]}')
            return ''.join(parts)
        if isinstance(node, ast.Name):
            if node.id in env:
                return env[node.id]
            return self._name(node, m)
        if isinstance(node, ast.Attribute):
            if isinstance(node.value, ast.Name) and node.value.id in ('self', 'cls') and self_class \
                    and node.value.id not in env:
                cm, val = self.res.class_attr(self_class, node.attr)
                if val is None:
                    raise Unfoldable(f'{self_class}.{node.attr} not a class constant')
                if isinstance(val, (ast.FunctionDef, ast.ClassDef)):
                    return Ref(f'{self_class}.{node.attr}')
                return self.fold(val, cm, None, self_class)
            # value-level attribute of a folded object
            try:
                base = f(node.value)
            except Unfoldable:
                base = None
            if isinstance(base, Obj) and node.attr in base.fields:
                return base.fields[node.attr]
            return self._name(node, m)
        if isinstance(node, ast.BinOp) and type(node.op) in _BIN:
            return self._apply(_BIN[type(node.op)], f(node.left), f(node.right))
        if isinstance(node, ast.UnaryOp) and type(node.op) in _UN:
            return self._apply(_UN[type(node.op)], f(node.operand))
        if isinstance(node, ast.BoolOp):
            vals = [f(v) for v in node.values]
            res = vals[0]
            for v in vals[1:]:
                res = (res and v) if isinstance(node.op, ast.And) else (res or v)
            return res
        if isinstance(node, ast.Compare):
            left = f(node.left)
            for op, comp in zip(node.ops, node.comparators):
                right = f(comp)
                if not self._apply(_CMP[type(op)], left, right):
                    return False
                left = right
            return True
        if isinstance(node, ast.IfExp):
            return f(node.body) if f(node.test) else f(node.orelse)
        if isinstance(node, ast.Subscript):
            base = f(node.value)
            if isinstance(node.slice, ast.Slice):
                lo = f(node.slice.lower) if node.slice.lower else None
                hi = f(node.slice.upper) if node.slice.upper else None
                st = f(node.slice.step) if node.slice.step else None
                return self._apply(lambda b: b[lo:hi:st], base)
            idx = f(node.slice)
            if isinstance(base, dict) and isinstance(idx, Ref):
                if idx in base:
                    return base[idx]
                raise Unfoldable(f'key {idx!r} not in table')
            return self._apply(lambda b, i: b[i], base, idx)
        if isinstance(node, ast.Call):
            return self._call(node, m, env, self_class)
        raise Unfoldable(f'{type(node).__name__}: {ast.unparse(node)[:60]}')

    @staticmethod
    def _apply(fn, *args):
        for a in args:
            if isinstance(a, (Ref, Obj)):
                raise Unfoldable(f'operation on symbolic value {a!r}')
        try:
            return fn(*args)
        except Unfoldable:
            raise
        except Exception as exc:  # the *analysed* expression would raise
            raise Unfoldable(f'constant expression raises {type(exc).__name__}: {exc}')

    def _name(self, node, m):
        ref = self.res.resolve(node, m)
        if ref is None:
            raise Unfoldable(f'unbound name {ast.unparse(node)}')
        if ref.startswith('pkg:') and ref.count(':') == 2:
            om, onode = self.res.lookup(ref)
            if onode is None:
                raise Unfoldable(f'{ref} not found')
            if isinstance(onode, (ast.FunctionDef, ast.ClassDef)):
                return Ref(ref)
            key = (ref,)
            if key in self._active:
                raise Unfoldable(f'cyclic constant {ref}')
            self._active.add(key)
            try:
                # class constant: fold in the context of its class
                _, mod, name = ref.split(':', 2)
                self_class = None
                if '.' in name:
                    self_class = f'pkg:{mod}:{name.rpartition(".")[0]}'
                return self.fold(onode, om, None, self_class)
            finally:
                self._active.discard(key)
        if ref.startswith('ext:'):
            # constants of pure standard-library modules (decimal.ROUND_UP, math.pi) are values, not symbols
            import decimal as _decimal
            import math as _math
            parts = ref[4:].split('.')
            lib = {'decimal': _decimal, 'math': _math}.get(parts[0])
            if lib is not None and len(parts) == 2:
                val = getattr(lib, parts[1], None)
                if isinstance(val, (str, int, float)) and not isinstance(val, bool):
                    return val
        return Ref(ref)

    def _call(self, node, m, env, self_class):
        f = lambda n: self.fold(n, m, env, self_class)  # noqa: E731
        # method call on a folded string / container
        if isinstance(node.func, ast.Attribute):
            try:
                recv = f(node.func.value)
            except Unfoldable:
                recv = None
            if isinstance(recv, str) and node.func.attr in _PURE_STR_METHODS:
                args = [f(a) for a in node.args]
                return self._apply(lambda r, *a: getattr(r, node.func.attr)(*a), recv, *args)
            if isinstance(recv, dict) and node.func.attr in ('get', 'keys', 'values', 'items'):
                args = [f(a) for a in node.args]
                res = self._apply(lambda r, *a: getattr(r, node.func.attr)(*a), recv, *args)
                return list(res) if node.func.attr != 'get' else res
        ref = self.res.resolve(node.func, m)
        if ref == 'builtin:type' and len(node.args) == 1 and not node.keywords:
            v = f(node.args[0])
            if v is None or isinstance(v, (bool, int, float, str, tuple, list, dict, set)):
                return Ref('builtin:NoneType' if v is None else f'builtin:{type(v).__name__}')
            raise Unfoldable('type() of a symbolic value')
        if ref in _PURE_CALLS and not node.keywords:
            args = [f(a) for a in node.args]
            fn = _PURE_CALLS[ref]
            if fn in (set, frozenset, tuple, list, sorted, len):
                # containers may hold symbolic refs
                try:
                    return fn(*args)
                except Exception as exc:
                    raise Unfoldable(str(exc))
            return self._apply(fn, *args)
        om, onode = self.res.lookup(ref) if ref else (None, None)
        if isinstance(onode, ast.ClassDef):
            return self._construct(ref, node, f)
        if ref and ref.startswith('ext:'):
            args = []
            for a in node.args:
                try:
                    args.append(f(a))
                except Unfoldable:
                    args.append('?')
            return Ref(f'{ref}({", ".join(map(repr, args))})')
        raise Unfoldable(f'call {ast.unparse(node)[:60]}')

    def _construct(self, cref, call, f):
        cm, init = self.res.class_attr(cref, '__init__')
        fields = {}
        if isinstance(init, ast.FunctionDef):
            params = [a.arg for a in init.args.args][1:]
            defaults = init.args.defaults
            dmap = {}
            for p, d in zip(params[len(params) - len(defaults):], defaults):
                dmap[p] = d
            bound = {}
            for p, a in zip(params, call.args):
                bound[p] = f(a)
            for kw in call.keywords:
                bound[kw.arg] = f(kw.value)
            for p in params:
                if p not in bound and p in dmap:
                    bound[p] = self.fold(dmap[p], cm)
            # self.x = <param> assignments
            for stmt in init.body:
                if isinstance(stmt, ast.Assign) and len(stmt.targets) == 1:
                    t = stmt.targets[0]
                    if isinstance(t, ast.Attribute) and isinstance(t.value, ast.Name) \
                            and t.value.id == 'self':
                        try:
                            fields[t.attr] = self.fold(stmt.value, cm, dict(bound))
                        except Unfoldable:
                            pass
        else:
            # dataclass-style: positional args bound to annotated fields in order
            names = []
            for m_, cnode in reversed(self.res.mro(cref)):
                for stmt in cnode.body:
                    if isinstance(stmt, ast.AnnAssign) and isinstance(stmt.target, ast.Name):
                        names.append(stmt.target.id)
            for p, a in zip(names, call.args):
                fields[p] = f(a)
            for kw in call.keywords:
                fields[kw.arg] = f(kw.value)
        return Obj(cref, fields)
