"""Load every module of the package under analysis into ASTs with parent links."""
import ast
import hashlib
import os

from . import AnchorMissing

PACKAGE = 'xlcalculator'


def repo_root():
    return os.environ.get('VERIF_REPO', '/repo')


class Module:
    def __init__(self, name, path, source):
        self.name = name            # dotted, relative to the package ('' = __init__)
        self.path = path            # path relative to the repo root
        self.source = source
        self.tree = ast.parse(source, filename=path)
        self.digest = hashlib.sha256(source.encode()).hexdigest()[:16]
        self._index()

    def _index(self):
        self.funcs = {}    # qualname -> FunctionDef
        self.classes = {}  # qualname -> ClassDef
        self.assigns = {}  # module-level name -> list of value nodes (in order)
        self.tree._parent = None
        self.tree._module = self
        self.tree._qual = ''

        def walk(node, qual, func_qual):
            for child in ast.iter_child_nodes(node):
                child._parent = node
                child._module = self
                cq = qual
                fq = func_qual
                if isinstance(child, (ast.FunctionDef, ast.AsyncFunctionDef)):
                    cq = f'{qual}.{child.name}' if qual else child.name
                    if cq in self.funcs:          # same name defined again in the same scope
                        k = 2
                        while f'{cq}#{k}' in self.funcs:
                            k += 1
                        cq = f'{cq}#{k}'
                    self.funcs[cq] = child
                    fq = cq
                elif isinstance(child, ast.ClassDef):
                    cq = f'{qual}.{child.name}' if qual else child.name
                    self.classes[cq] = child
                child._qual = cq       # qualname of innermost def/class containing (or being) it
                child._func = fq       # qualname of innermost enclosing function
                walk(child, cq, fq)

        walk(self.tree, '', '')
        for stmt in self.tree.body:
            if isinstance(stmt, ast.Assign):
                for tgt in stmt.targets:
                    if isinstance(tgt, ast.Name):
                        self.assigns.setdefault(tgt.id, []).append(stmt.value)
                    elif isinstance(tgt, (ast.Tuple, ast.List)) and all(isinstance(e, ast.Name) for e in tgt.elts):
                        # `A, B, C = range(3)`: each name is the i-th item of the unpacked value
                        for i, e in enumerate(tgt.elts):
                            item = ast.Subscript(value=ast.Call(func=ast.Name(id='tuple', ctx=ast.Load()), args=[stmt.value], keywords=[]),
                                                 slice=ast.Constant(value=i), ctx=ast.Load())
                            ast.copy_location(item, stmt)
                            ast.fix_missing_locations(item)
                            for sub in ast.walk(item):
                                if not hasattr(sub, '_module'):
                                    sub._module = getattr(stmt, '_module', None)
                                    sub._parent = getattr(sub, '_parent', stmt)
                                    sub._qual = getattr(stmt, '_qual', '')
                                    sub._func = getattr(stmt, '_func', '')
                            self.assigns.setdefault(e.id, []).append(item)
            elif isinstance(stmt, ast.AnnAssign) and stmt.value is not None:
                if isinstance(stmt.target, ast.Name):
                    self.assigns.setdefault(stmt.target.id, []).append(stmt.value)

    # -- anchors ---------------------------------------------------------
    def func(self, qual):
        if qual not in self.funcs:
            raise AnchorMissing(f'function {self.name}:{qual} not found in {self.path}')
        return self.funcs[qual]

    def cls(self, qual):
        if qual not in self.classes:
            raise AnchorMissing(f'class {self.name}:{qual} not found in {self.path}')
        return self.classes[qual]

    def assign(self, name):
        if name not in self.assigns:
            raise AnchorMissing(f'module-level name {self.name}:{name} not found in {self.path}')
        return self.assigns[name][-1]

    def has_func(self, qual):
        return qual in self.funcs

    def text(self, node):
        try:
            return ast.unparse(node)
        except Exception:
            return '<?>'


class Repo:
    def __init__(self, root=None, overlay=None):
        """overlay: {relative path: source} replacing/adding files (in-memory variants)."""
        self.root = root or repo_root()
        self.modules = {}
        overlay = overlay or {}
        pkg = os.path.join(self.root, PACKAGE)
        paths = {}
        if os.path.isdir(pkg):
            for dirpath, dirnames, filenames in os.walk(pkg):
                dirnames[:] = sorted(d for d in dirnames if d != '__pycache__')
                for fn in sorted(filenames):
                    if fn.endswith('.py'):
                        full = os.path.join(dirpath, fn)
                        rel = os.path.relpath(full, self.root)
                        paths[rel] = None
        for rel in overlay:
            paths[rel] = overlay[rel]
        if not paths:
            raise AnchorMissing(f'no python sources under {pkg}')
        for rel in sorted(paths):
            src = paths[rel]
            if src is None:
                with open(os.path.join(self.root, rel), encoding='utf-8') as fh:
                    src = fh.read()
            name = rel[len(PACKAGE) + 1:-3].replace(os.sep, '.')
            if name == '__init__':
                name = ''
            elif name.endswith('.__init__'):
                name = name[:-9]
            self.modules[name] = Module(name, rel, src)

    def mod(self, name):
        if name not in self.modules:
            raise AnchorMissing(f'module {PACKAGE}.{name} not found')
        return self.modules[name]

    def sources(self):
        return {m.path: m.source for m in self.modules.values()}

    def digest(self):
        h = hashlib.sha256()
        for name in sorted(self.modules):
            h.update(name.encode())
            h.update(self.modules[name].digest.encode())
        return h.hexdigest()[:16]


# -- small AST helpers used everywhere ------------------------------------

def parents(node):
    node = getattr(node, '_parent', None)
    while node is not None:
        yield node
        node = getattr(node, '_parent', None)


def enclosing_function(node):
    for p in parents(node):
        if isinstance(p, (ast.FunctionDef, ast.AsyncFunctionDef, ast.Lambda)):
            return p
    return None


def walk_local(func):
    """Walk a function body in document order without descending into nested defs/lambdas/classes."""
    for child in ast.iter_child_nodes(func):
        yield child
        if isinstance(child, (ast.FunctionDef, ast.AsyncFunctionDef, ast.Lambda, ast.ClassDef)):
            continue
        yield from walk_local(child)


def walk_stmts(stmts):
    for s in stmts:
        yield from ast.walk(s)


def names_in(node):
    return {n.id for n in ast.walk(node) if isinstance(n, ast.Name)}


def dotted(node):
    """'a.b.c' for Name/Attribute chains, else None."""
    parts = []
    while isinstance(node, ast.Attribute):
        parts.append(node.attr)
        node = node.value
    if isinstance(node, ast.Name):
        parts.append(node.id)
        return '.'.join(reversed(parts))
    return None


def loc(node):
    m = getattr(node, '_module', None)
    return (m.path if m else '?', getattr(node, 'lineno', 0))
