"""Rule context, findings, known-finding matching, evidence and replay files."""
import ast
import hashlib
import json
import os
import time

from . import AnalysisError
from .load import Repo
from .resolve import Resolver
from .consteval import Folder
from . import registry as _registry

VERIF = os.path.dirname(os.path.dirname(os.path.abspath(__file__)))
KNOWN_FILE = os.path.join(VERIF, 'known_findings.json')


class Analysis:
    """Everything the rules share for one source tree."""

    def __init__(self, root=None, overlay=None):
        self.repo = Repo(root, overlay)
        self.res = Resolver(self.repo)
        self.folder = Folder(self.repo, self.res)
        self._registry = None
        self.cache = {}

    @property
    def registry(self):
        if self._registry is None:
            self._registry = _registry.build(self.repo, self.res)
        return self._registry

    def mod(self, name):
        return self.repo.mod(name)

    def fold(self, node, m=None, env=None, self_class=None):
        return self.folder.fold(node, m, env, self_class)

    def resolve(self, node, m=None):
        return self.res.resolve(node, m)


class Instance:
    __slots__ = ('rule', 'file', 'line', 'module', 'qualname', 'construct', 'verdict', 'why')

    def __init__(self, rule, file, line, module, qualname, construct, verdict, why):
        self.rule = rule
        self.file = file
        self.line = line
        self.module = module
        self.qualname = qualname
        self.construct = construct
        self.verdict = verdict    # 'holds' | 'violated'
        self.why = why

    def key(self, prop):
        return f'{prop}|{self.rule}|{self.module}|{self.qualname}|{self.construct}'

    def as_dict(self):
        return {'rule': self.rule, 'file': self.file, 'line': self.line,
                'function': self.qualname, 'construct': self.construct,
                'verdict': self.verdict, 'why': self.why}


class Ctx:
    """What a rule function receives."""

    def __init__(self, analysis, prop):
        self.a = analysis
        self.prop = prop
        self.instances = []
        self.floors = []        # (rule, required, got, what)
        self.errors = []        # analysis errors (strings)
        self.notes = []
        self.rule = None

    # shortcuts
    @property
    def repo(self):
        return self.a.repo

    @property
    def res(self):
        return self.a.res

    def mod(self, name):
        return self.a.repo.mod(name)

    def fold(self, node, m=None, env=None, self_class=None):
        return self.a.folder.fold(node, m, env, self_class)

    def func(self, modname, qual, inline=True):
        """Anchor function; by default the view with calls to private helpers of the same module expanded."""
        from . import inline as _inl
        m = self.a.repo.mod(modname)
        fn = m.func(qual)
        return _inl.inlined(self.a, m, fn) if inline else fn

    def inl(self, fn, keep=()):
        from . import inline as _inl
        return _inl.inlined(self.a, fn._module, fn, keep=keep)

    def _where(self, node):
        if isinstance(node, tuple):
            m, qual, line = node
            return m.path, line, m.name, qual
        m = getattr(node, '_module', None)
        qual = getattr(node, '_func', None) or getattr(node, '_qual', '') or ''
        if isinstance(node, (ast.FunctionDef, ast.ClassDef, ast.AsyncFunctionDef)):
            qual = node._qual
        line = getattr(node, '_orig_lineno', None) or getattr(node, 'lineno', 0)
        return (m.path if m else '?', line, m.name if m else '?', qual)

    def ok(self, node, construct, why=''):
        f, ln, mod, qual = self._where(node)
        self.instances.append(Instance(self.rule, f, ln, mod, qual, construct, 'holds', why))

    def bad(self, node, construct, why):
        f, ln, mod, qual = self._where(node)
        self.instances.append(Instance(self.rule, f, ln, mod, qual, construct, 'violated', why))

    def expect(self, cond, node, construct, why_bad, why_ok=''):
        if cond:
            self.ok(node, construct, why_ok)
        else:
            self.bad(node, construct, why_bad)
        return bool(cond)

    def floor(self, required, what):
        got = sum(1 for i in self.instances if i.rule == self.rule)
        self.floors.append((self.rule, required, got, what))
        if got < required:
            self.errors.append(
                f'{self.rule}: only {got} instance(s) visited, hand-confirmed floor is '
                f'{required} ({what}) - the rule would pass vacuously')

    def note(self, text):
        self.notes.append(f'{self.rule}: {text}')

    def unmodelled(self, node, what):
        f, ln, mod, qual = self._where(node)
        self.errors.append(f'{self.rule}: unmodelled shape at {f}:{ln} ({qual}): {what}')


def load_known():
    if not os.path.exists(KNOWN_FILE):
        return {'open': [], 'fixed': []}
    with open(KNOWN_FILE) as fh:
        return json.load(fh)


def known_key(entry):
    return '|'.join([entry['property'], entry['rule'], entry['module'], entry['qualname'],
                     entry['construct']])


def run_property(propmod, analysis=None, tier='quick', write=True, quiet=False, extra=None):
    """Run all rules of one property. Returns (exit_code, ctx, new_findings, known_hits)."""
    t0 = time.time()
    prop = propmod.PROPERTY
    out = [] if quiet else None

    def say(line):
        if out is None:
            print(line)
        else:
            out.append(line)

    try:
        analysis = analysis or Analysis()
    except AnalysisError as exc:
        say(f'ANALYSIS-ERROR property={prop} {exc}')
        return 2, None, [], []
    ctx = Ctx(analysis, prop)
    ctx.tier = tier
    for rule_id, title, fn in propmod.RULES:
        ctx.rule = rule_id
        try:
            fn(ctx)
        except AnalysisError as exc:
            ctx.errors.append(f'{rule_id}: {type(exc).__name__}: {exc}')
        except RecursionError as exc:
            ctx.errors.append(f'{rule_id}: internal RecursionError: {exc}')
        except Exception as exc:  # never let a traceback look like a violation
            if getattr(exc, 'as_violation', False):
                try:
                    ctx.bad(ctx.mod(exc.module).func(exc.function), 'a well-formed witness workbook compiles', exc.why)
                except AnalysisError as exc2:
                    ctx.errors.append(f'{rule_id}: {type(exc2).__name__}: {exc2}')
                continue
            import traceback
            tb = traceback.format_exc().strip().splitlines()
            ctx.errors.append(f'{rule_id}: internal {type(exc).__name__}: {exc} @ {tb[-3].strip() if len(tb) > 2 else ""}')
    known = {known_key(e): e for e in load_known().get('open', []) if e['property'] == prop}
    violated = [i for i in ctx.instances if i.verdict == 'violated']
    new, hits = [], []
    seen_keys = set()
    for inst in violated:
        k = inst.key(prop)
        if k in seen_keys:
            continue
        seen_keys.add(k)
        if k in known:
            hits.append((inst, known[k]))
        else:
            new.append(inst)
    for inst, entry in hits:
        say(f'KNOWN-FINDING: property={prop} {entry.get("finding", "")} {inst.rule} '
            f'{inst.file}:{inst.line} {inst.qualname} [{inst.construct}]: {entry["what_fails"]}')
    replay_paths = []
    for inst in new:
        say(f'{inst.file}:{inst.line}: {inst.rule} in {inst.qualname or "<module>"} '
            f'[{inst.construct}]: {inst.why}')
        h = hashlib.sha256(inst.key(prop).encode()).hexdigest()[:10]
        path = os.path.join(VERIF, 'replay', f'{prop}-{h}.json')
        replay_paths.append(path)
        if write:
            os.makedirs(os.path.dirname(path), exist_ok=True)
            with open(path, 'w') as fh:
                json.dump({'property': prop, 'key': inst.key(prop), **inst.as_dict(),
                           'repo_digest': analysis.repo.digest()}, fh, indent=1)
        say(f'VIOLATION property={prop} replay={path}')
    for err in ctx.errors:
        say(f'ANALYSIS-ERROR property={prop} {err}')
    code = 1 if new else (2 if ctx.errors else 0)
    wall = time.time() - t0
    if write:
        write_evidence(propmod, ctx, tier, wall, new, hits, extra)
    if not quiet:
        n = len(ctx.instances)
        print(f'{prop} [{tier}] rules={len(propmod.RULES)} instances={n} '
              f'holding={n - len(violated)} known={len(hits)} new={len(new)} '
              f'errors={len(ctx.errors)} wall={wall:.2f}s -> exit {code}')
    return code, ctx, new, hits


def write_evidence(propmod, ctx, tier, wall, new, hits, extra=None):
    prop = propmod.PROPERTY
    insts = ctx.instances
    per_rule = {}
    for i in insts:
        d = per_rule.setdefault(i.rule, {'instances': 0, 'holding': 0, 'violated': 0})
        d['instances'] += 1
        d['holding' if i.verdict == 'holds' else 'violated'] += 1
    for rule, req, got, what in ctx.floors:
        per_rule.setdefault(rule, {'instances': 0, 'holding': 0, 'violated': 0})['floor'] = req
    distinct = len({(i.rule, i.module, i.qualname, i.construct) for i in insts})
    # samples: a few per rule, violated ones first
    samples = []
    by_rule = {}
    for i in sorted(insts, key=lambda x: (x.verdict == 'holds',)):
        lst = by_rule.setdefault(i.rule, [])
        if len(lst) < 3:
            lst.append(i.as_dict())
    for rule in sorted(by_rule):
        samples.extend(by_rule[rule])
    known_hit_keys = [h[0].key(prop) for h in hits]
    cov = {
        'explanation': propmod.EXPLANATION,
        'not_decided': propmod.NOT_DECIDED,
        'obligations': len(insts),
        'discharged': sum(1 for i in insts if i.verdict == 'holds'),
        'evaluations': len(insts),
        'distinct_nontrivial': distinct,
        'rule': 'one obligation per (rule, construct) enumerated from the source on this run; '
                'distinct = distinct (rule, module, function, construct) tuples; every rule '
                'visits all of its sites, nothing is sampled',
        'samples': samples,
        'per_rule': per_rule,
        'rules': [{'id': r, 'title': t} for r, t, _ in propmod.RULES],
        'known_findings_matched': known_hit_keys,
        'new_violations': [i.key(prop) for i in new],
        'analysis_errors': ctx.errors,
        'notes': ctx.notes,
        'modules_analysed': len(ctx.a.repo.modules),
        'repo_digest': ctx.a.repo.digest(),
        'registered_functions': len(ctx.a.registry),
        'checker_cmd': f'./vcheck {prop} --tier {tier}',
        'trusted_base': list(getattr(propmod, 'TRUSTED', [])) + [
            'python ast module; xlsa resolver/const-folder/flow helpers (hand-written, '
            'package-specific)'],
        'exhaustive': True,
    }
    if extra:
        cov.update(extra)
    ev = {
        'property_id': prop,
        'tier': tier,
        'seed': int(os.environ.get('VERIF_SEED', '0') or 0),
        'level': 'other',
        'coverage': cov,
        'assumptions': list(getattr(propmod, 'ASSUMPTIONS', [])) + [
            'static analysis of source only: decides the structural necessary conditions '
            'listed in coverage.explanation, not the runtime behaviour listed in not_decided'],
        'wall_s': round(wall, 3),
        'violations': len(new),
    }
    path = os.path.join(VERIF, 'evidence', f'{prop}.json')
    os.makedirs(os.path.dirname(path), exist_ok=True)
    tmp = path + '.tmp'
    with open(tmp, 'w') as fh:
        json.dump(ev, fh, indent=1, default=str)
    os.replace(tmp, path)
