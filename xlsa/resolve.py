"""Name resolution over the package: imports, aliases, classes and their MRO.

A resolved reference is a string:
  'pkg:<module>'            a module of the package ('pkg:' alone = the package __init__)
  'pkg:<module>:<qualname>' an object defined in a package module
  'ext:<dotted>'            something from outside the package (numpy.arctan2, math.log …)
  'builtin:<name>'
or None when the name is a local / unknown.
"""
import ast
import builtins

from .load import PACKAGE, dotted

_BUILTINS = set(dir(builtins))


class Resolver:
    def __init__(self, repo):
        self.repo = repo
        self.imports = {}   # module name -> {alias: ref}
        for m in repo.modules.values():
            self.imports[m.name] = self._imports(m)
        self._mro_cache = {}

    # -- imports ---------------------------------------------------------
    def _pkg_of(self, m):
        # package (dotted, relative) containing module m
        if m.path.endswith('__init__.py'):
            return m.name
        return m.name.rpartition('.')[0]

    def _imports(self, m):
        table = {}
        for node in ast.walk(m.tree):
            if isinstance(node, ast.Import):
                for a in node.names:
                    target = a.name
                    alias = a.asname or a.name.split('.')[0]
                    ref = self._abs_module_ref(target if a.asname else a.name.split('.')[0])
                    table[alias] = ref
            elif isinstance(node, ast.ImportFrom):
                if node.level:
                    base = self._pkg_of(m)
                    for _ in range(node.level - 1):
                        base = base.rpartition('.')[0]
                    modname = '.'.join(x for x in (base, node.module or '') if x)
                    absolute = False
                else:
                    modname = node.module or ''
                    absolute = True
                for a in node.names:
                    alias = a.asname or a.name
                    if a.name == '*':
                        src = self._pkg_module(modname, absolute)
                        if src is not None:
                            table.setdefault('*', []).append(src)
                        continue
                    table[alias] = self._from_ref(modname, a.name, absolute)
        return table

    def _pkg_module(self, modname, absolute):
        """Relative module name inside the package, or None when external."""
        if absolute:
            if modname == PACKAGE:
                return ''
            if modname.startswith(PACKAGE + '.'):
                return modname[len(PACKAGE) + 1:]
            return None
        return modname

    def _abs_module_ref(self, name):
        rel = self._pkg_module(name, True)
        if rel is not None:
            return f'pkg:{rel}'
        return f'ext:{name}'

    def _from_ref(self, modname, name, absolute):
        rel = self._pkg_module(modname, absolute)
        if rel is None:
            return f'ext:{modname}.{name}'
        sub = f'{rel}.{name}' if rel else name
        if sub in self.repo.modules:
            return f'pkg:{sub}'
        if rel in self.repo.modules:
            return f'pkg:{rel}:{name}'
        # namespace package (directory without __init__)
        return f'pkg:{sub}'

    # -- expressions -----------------------------------------------------
    def resolve_name(self, m, name):
        """Resolve a bare name used at module level of m (or in a function with no local binding)."""
        if name in m.funcs or name in m.classes or name in m.assigns:
            # an assignment aliasing something else (rand = np.random.rand)
            return f'pkg:{m.name}:{name}'
        table = self.imports[m.name]
        if name in table:
            ref = table[name]
            return self._chase(ref)
        for star in table.get('*', []):
            sm = self.repo.modules.get(star)
            if sm and (name in sm.funcs or name in sm.classes or name in sm.assigns):
                return f'pkg:{star}:{name}'
        if name in _BUILTINS:
            return f'builtin:{name}'
        return None

    def _chase(self, ref, depth=0):
        """Follow re-exports: pkg:mod:name where name is itself imported in mod."""
        if depth > 5 or not ref or not ref.startswith('pkg:') or ref.count(':') < 2:
            return ref
        _, mod, name = ref.split(':', 2)
        m = self.repo.modules.get(mod)
        if m is None:
            return ref
        head = name.split('.')[0]
        if head in m.funcs or head in m.classes or head in m.assigns:
            return ref
        table = self.imports[mod]
        if head in table:
            r = table[head]
            rest = name[len(head):]
            if rest:
                r = self._attr(r, rest[1:])
            return self._chase(r, depth + 1)
        return ref

    def _attr(self, ref, attrs):
        if ref is None:
            return None
        for attr in attrs.split('.'):
            if ref.startswith('ext:') or ref.startswith('builtin:'):
                ref = f'{ref}.{attr}'
            elif ref.count(':') == 1:      # module
                mod = ref[4:]
                sub = f'{mod}.{attr}' if mod else attr
                if sub in self.repo.modules:
                    ref = f'pkg:{sub}'
                else:
                    ref = self._chase(f'pkg:{mod}:{attr}')
            else:
                ref = f'{ref}.{attr}'
        return ref

    def resolve(self, node, m=None, local_names=()):
        """Resolve a Name/Attribute expression node."""
        m = m or node._module
        if not local_names:
            cache = self.__dict__.setdefault('_resolve_cache', {})
            key = (id(node), id(m))
            hit = cache.get(key)
            if hit is not None and hit[0] is node:
                return hit[1]
            res = self._resolve_uncached(node, m, ())
            cache[key] = (node, res)        # the node is kept alive, so its id cannot be reused
            return res
        return self._resolve_uncached(node, m, local_names)

    def _resolve_uncached(self, node, m, local_names):
        d = dotted(node)
        if d is None:
            return None
        head, _, rest = d.partition('.')
        if head in local_names:
            return None
        ref = self.resolve_name(m, head)
        if ref is None:
            return None
        if rest:
            ref = self._attr(ref, rest)
        return self.deref_alias(ref)

    def deref_alias(self, ref, depth=0):
        """pkg:mod:name where name = <Name/Attribute> alias of another object."""
        if depth > 5 or not ref or ref.count(':') < 2:
            return ref
        _, mod, name = ref.split(':', 2)
        m = self.repo.modules.get(mod)
        if m is None or '.' in name:
            return ref
        if name in m.assigns and name not in m.funcs and name not in m.classes:
            val = m.assigns[name][-1]
            if isinstance(val, (ast.Name, ast.Attribute)) and len(m.assigns[name]) == 1:
                r = self.resolve(val, m)
                if r:
                    return self.deref_alias(r, depth + 1)
        return ref

    # -- objects ---------------------------------------------------------
    def lookup(self, ref):
        """Return (module, node) for pkg refs naming a function/class/assignment; else (None, None)."""
        if not ref or not ref.startswith('pkg:') or ref.count(':') < 2:
            return None, None
        _, mod, name = ref.split(':', 2)
        m = self.repo.modules.get(mod)
        if m is None:
            return None, None
        if name in m.funcs:
            return m, m.funcs[name]
        if name in m.classes:
            return m, m.classes[name]
        if name in m.assigns:
            return m, m.assigns[name][-1]
        # class attribute / method through the MRO: Class.attr
        if '.' in name:
            cname, _, attr = name.rpartition('.')
            if cname in m.classes:
                for cm, cnode in self.mro(f'pkg:{mod}:{cname}'):
                    for stmt in cnode.body:
                        if isinstance(stmt, (ast.FunctionDef, ast.ClassDef)) and stmt.name == attr:
                            return cm, stmt
                        if isinstance(stmt, ast.Assign):
                            for t in stmt.targets:
                                if isinstance(t, ast.Name) and t.id == attr:
                                    return cm, stmt.value
                        if isinstance(stmt, ast.AnnAssign) and isinstance(stmt.target, ast.Name) \
                                and stmt.target.id == attr and stmt.value is not None:
                            return cm, stmt.value
        return None, None

    def mro(self, cref):
        """[(module, ClassDef)] linearised depth-first (single inheritance in this package)."""
        if cref in self._mro_cache:
            return self._mro_cache[cref]
        out = []
        seen = set()

        def rec(ref):
            m, node = self.lookup(ref)
            if node is None or not isinstance(node, ast.ClassDef) or id(node) in seen:
                return
            seen.add(id(node))
            out.append((m, node))
            for b in node.bases:
                rec(self.resolve(b, m))

        rec(cref)
        self._mro_cache[cref] = out
        return out

    def class_ref(self, m, cnode):
        return f'pkg:{m.name}:{cnode._qual}'

    def base_refs(self, cref):
        """All resolved base refs (including external ones) through the MRO."""
        refs = []
        for m, node in self.mro(cref):
            refs.append(self.class_ref(m, node))
            for b in node.bases:
                r = self.resolve(b, m)
                if r and not r.startswith('pkg:'):
                    refs.append(r)
        return refs

    def is_subclass(self, cref, base_ref):
        return base_ref in self.base_refs(cref)

    def class_attr(self, cref, attr):
        """(module, value-node or FunctionDef) of attr looked up through the MRO."""
        cache = self.__dict__.setdefault('_class_attr_cache', {})
        key = (cref, attr)
        if key not in cache:
            cache[key] = self._class_attr_uncached(cref, attr)
        return cache[key]

    def _class_attr_uncached(self, cref, attr):
        for m, node in self.mro(cref):
            for stmt in node.body:
                if isinstance(stmt, (ast.FunctionDef, ast.ClassDef)) and stmt.name == attr:
                    return m, stmt
                if isinstance(stmt, ast.Assign):
                    for t in stmt.targets:
                        if isinstance(t, ast.Name) and t.id == attr:
                            return m, stmt.value
                if isinstance(stmt, ast.AnnAssign) and isinstance(stmt.target, ast.Name) \
                        and stmt.target.id == attr and stmt.value is not None:
                    return m, stmt.value
        return None, None

    def decorators(self, fnode):
        """Resolved decorator refs, outermost first. Calls are resolved by their callee."""
        out = []
        for d in fnode.decorator_list:
            target = d.func if isinstance(d, ast.Call) else d
            out.append((self.resolve(target, fnode._module), d))
        return out
