"""xlsa - static analysis library for bradbase/xlcalculator (stdlib only).

Nothing in this package imports or executes xlcalculator: every fact is
computed from the source text of <repo>/xlcalculator/**/*.py.
"""


class AnalysisError(Exception):
    """The analysis cannot give a verdict (anchor vanished, shape not modelled).

    Never a silent pass and never a violation: the launcher turns it into
    exit status 2 with an ANALYSIS-ERROR line.
    """


class AnchorMissing(AnalysisError):
    pass


class Unmodelled(AnalysisError):
    pass
