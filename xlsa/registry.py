"""Reconstruction of xl.FUNCTIONS from the decorators, without importing anything."""
import ast

REGISTER = 'pkg:xlfunctions.xl:register'
VALIDATE = 'pkg:xlfunctions.xl:validate_args'


class Param:
    def __init__(self, node, kind, default):
        self.node = node
        self.name = node.arg
        self.kind = kind            # 'pos' | 'varpos' | 'kwonly' | 'varkw'
        self.annotation = node.annotation
        self.default = default      # ast node or None


class RegFunc:
    def __init__(self, name, module, node, validated, decorators):
        self.name = name
        self.module = module
        self.node = node
        self.validated = validated
        self.decorators = decorators      # resolved refs, outermost first
        self.params = params_of(node)

    def param(self, name):
        for p in self.params:
            if p.name == name:
                return p
        return None

    def __repr__(self):
        return f'<RegFunc {self.name} {self.module.name}>'


def params_of(fnode):
    a = fnode.args
    out = []
    pos = list(a.posonlyargs) + list(a.args)
    defaults = [None] * (len(pos) - len(a.defaults)) + list(a.defaults)
    for p, d in zip(pos, defaults):
        out.append(Param(p, 'pos', d))
    if a.vararg:
        out.append(Param(a.vararg, 'varpos', None))
    for p, d in zip(a.kwonlyargs, a.kw_defaults):
        out.append(Param(p, 'kwonly', d))
    if a.kwarg:
        out.append(Param(a.kwarg, 'varkw', None))
    return out


def _mentions(repo, res, dref, target, depth=0):
    """Does the package function dref (a decorator) refer to `target` in its body, directly or through package helpers it calls?"""
    if not dref or not dref.startswith('pkg:') or depth > 3:
        return False
    m, node = res.lookup(dref)
    if not isinstance(node, ast.FunctionDef):
        return False
    for n in ast.walk(node):
        if isinstance(n, (ast.Name, ast.Attribute)):
            r = res.resolve(n, m)
            if r == target:
                return True
            if r and r != dref and r.startswith('pkg:') and isinstance(n, ast.Name) and _mentions(repo, res, r, target, depth + 1):
                return True
    return False


def _registers(repo, res, dref):
    return _mentions(repo, res, dref, REGISTER)


def build(repo, res):
    """All functions registered through @xl.register(...) anywhere in the package."""
    out = []
    for m in repo.modules.values():
        for qual, fnode in m.funcs.items():
            if not isinstance(fnode._parent, ast.Module):
                continue
            decs = res.decorators(fnode)
            refs = [r for r, _ in decs]
            if REGISTER not in refs:
                # a private decorator of the package that registers what it is given: its body calls xl.register(...)
                via = [i for i, r in enumerate(refs) if r and _registers(repo, res, r)]
                if not via:
                    continue
                validated = any(_mentions(repo, res, refs[i], VALIDATE) for i in via) or VALIDATE in refs[via[0] + 1:]
                rf = RegFunc(fnode.name, m, fnode, validated, refs)
                rf.reg_first = via[0] == 0          # the registering decorator is the outermost one
                out.append(rf)
                continue
            reg_idx = refs.index(REGISTER)
            dnode = decs[reg_idx][1]
            name = fnode.name
            if isinstance(dnode, ast.Call):
                if dnode.args and isinstance(dnode.args[0], ast.Constant) \
                        and isinstance(dnode.args[0].value, str):
                    name = dnode.args[0].value
                for kw in dnode.keywords:
                    if kw.arg == 'name' and isinstance(kw.value, ast.Constant) \
                            and isinstance(kw.value.value, str):
                        name = kw.value.value
            # validated only when validate_args sits *inside* register (the wrapped
            # function is what gets stored)
            validated = VALIDATE in refs[reg_idx + 1:]
            out.append(RegFunc(name, m, fnode, validated, refs))
    out.sort(key=lambda f: (f.module.name, f.node.lineno))
    return out
