"""Syntax-directed control- and data-flow facts for one function.

* terminates(block)           the block never falls through
* path_conditions(node)       tests known true/false whenever `node` is evaluated
                              (enclosing if/while/ifexp/boolop/comprehension filters and
                              preceding guards whose body always leaves), with kill checks
* Deps(func)                  flow-insensitive def-use closure (data dependence), plus the
                              control dependence of each statement on enclosing tests
* returns_of(func), raises_of(func), calls_in(node)
"""
import ast

from .load import walk_local, names_in

LOOPS = (ast.For, ast.While, ast.AsyncFor)
FUNCS = (ast.FunctionDef, ast.AsyncFunctionDef, ast.Lambda)


def pos(node):
    return (getattr(node, 'lineno', 0), getattr(node, 'col_offset', 0))


def end_pos(node):
    return (getattr(node, 'end_lineno', 0), getattr(node, 'end_col_offset', 0))


def contains(outer, inner):
    return pos(outer) <= pos(inner) and end_pos(inner) <= end_pos(outer)


def terminates(stmts):
    """True when control never falls out of the end of the statement list."""
    for s in stmts:
        if isinstance(s, (ast.Return, ast.Raise, ast.Continue, ast.Break)):
            return True
        if isinstance(s, ast.If):
            if s.orelse and terminates(s.body) and terminates(s.orelse):
                return True
        if isinstance(s, (ast.With, ast.AsyncWith)):
            if terminates(s.body):
                return True
        if isinstance(s, ast.Try):
            body_t = terminates(s.body) or (s.orelse and terminates(s.orelse))
            if s.finalbody and terminates(s.finalbody):
                return True
            if body_t and all(terminates(h.body) for h in s.handlers):
                return True
    return False


def leaves_function(stmts):
    """Like terminates() but only through return/raise (not break/continue)."""
    for s in stmts:
        if isinstance(s, (ast.Return, ast.Raise)):
            return True
        if isinstance(s, ast.If):
            if s.orelse and leaves_function(s.body) and leaves_function(s.orelse):
                return True
        if isinstance(s, (ast.With, ast.AsyncWith)) and leaves_function(s.body):
            return True
    return False


def only_raises(stmts):
    """Every way out of the block is a raise (used to tell guards from selectors)."""
    if not stmts:
        return False
    last = stmts[-1]
    if isinstance(last, ast.Raise):
        return True
    if isinstance(last, ast.If) and last.orelse:
        return only_raises(last.body) and only_raises(last.orelse)
    return False


def _block_of(node):
    """(parent, field name, list, index) of the statement list holding stmt `node`."""
    p = getattr(node, '_parent', None)
    if p is None:
        return None
    for field in ('body', 'orelse', 'finalbody', 'handlers'):
        lst = getattr(p, field, None)
        if isinstance(lst, list):
            for i, s in enumerate(lst):
                if s is node:
                    return p, field, lst, i
    return None


def stmt_of(node):
    """Innermost statement containing the expression node."""
    while node is not None and not isinstance(node, ast.stmt):
        node = getattr(node, '_parent', None)
    return node


class Cond:
    __slots__ = ('test', 'polarity', 'origin', 'kind')

    def __init__(self, test, polarity, origin, kind):
        self.test = test          # ast expr
        self.polarity = polarity  # the test is known to be `polarity` at the node
        self.origin = origin      # the guarding statement / expression
        self.kind = kind          # 'if' 'while' 'ifexp' 'boolop' 'guard' 'assert' 'comp'

    def __repr__(self):
        return f'<{self.kind} {ast.unparse(self.test)[:50]} is {self.polarity}>'


def assigned_names(node):
    """Names (re)bound anywhere inside node."""
    out = set()
    for n in ast.walk(node):
        if isinstance(n, ast.Name) and isinstance(n.ctx, (ast.Store, ast.Del)):
            out.add(n.id)
        elif isinstance(n, ast.AugAssign) and isinstance(n.target, ast.Name):
            out.add(n.target.id)
    return out


_STORE_CACHE = {}


def _stores(func):
    """{name: [binding nodes]} of a function (cached per function object)."""
    hit = _STORE_CACHE.get(id(func))
    if hit is not None and hit[0] is func:
        return hit[1]
    table = {}
    for n in ast.walk(func):
        if isinstance(n, ast.Name) and isinstance(n.ctx, ast.Store):
            table.setdefault(n.id, []).append(n)
        elif isinstance(n, ast.AugAssign) and isinstance(n.target, ast.Name):
            table.setdefault(n.target.id, []).append(n)
    if len(_STORE_CACHE) > 4000:
        _STORE_CACHE.clear()
    _STORE_CACHE[id(func)] = (func, table)
    return table


def _killers(func, names):
    """Statements in func that rebind any of names (including nonlocal rebinding in closures)."""
    table = _stores(func)
    out = []
    for nm in names:
        out.extend(table.get(nm, ()))
    return out


def _enclosing_loops(node, stop):
    out = []
    p = getattr(node, '_parent', None)
    while p is not None and p is not stop:
        if isinstance(p, LOOPS):
            out.append(p)
        p = getattr(p, '_parent', None)
    return out


def path_conditions(node, kill_names=None, extra_kill_calls=(), check_kills=True):
    """Conditions that hold whenever `node` is evaluated, innermost first.

    A condition is dropped when a name it reads may be rebound between the test and
    the node (textually in between, or anywhere in a loop that encloses the node but
    not the test). kill_names: extra names whose rebinding kills every condition whose
    test *calls* one of extra_kill_calls (e.g. EOF() depends on `offset`).
    """
    func = None
    p = node
    while p is not None:
        if isinstance(p, (ast.FunctionDef, ast.AsyncFunctionDef)):
            func = p
            break
        p = getattr(p, '_parent', None)
    conds = []
    child = node
    p = getattr(node, '_parent', None)
    while p is not None:
        if isinstance(p, ast.If):
            if any(child is s for s in p.body):
                conds.append(Cond(p.test, True, p, 'if'))
            elif any(child is s for s in p.orelse):
                conds.append(Cond(p.test, False, p, 'if'))
        elif isinstance(p, ast.While):
            if any(child is s for s in p.body):
                conds.append(Cond(p.test, True, p, 'while'))
        elif isinstance(p, ast.IfExp):
            if child is p.body:
                conds.append(Cond(p.test, True, p, 'ifexp'))
            elif child is p.orelse:
                conds.append(Cond(p.test, False, p, 'ifexp'))
        elif isinstance(p, ast.BoolOp):
            idx = next((i for i, v in enumerate(p.values) if v is child), None)
            if idx:
                for prev in p.values[:idx]:
                    conds.append(Cond(prev, isinstance(p.op, ast.And), p, 'boolop'))
        elif isinstance(p, (ast.ListComp, ast.SetComp, ast.GeneratorExp, ast.DictComp)):
            if not any(child is g for g in p.generators):
                for g in p.generators:
                    for c in g.ifs:
                        conds.append(Cond(c, True, p, 'comp'))
        elif isinstance(p, ast.comprehension):
            # a later `if` of the same generator sees the earlier ones
            idx = next((i for i, v in enumerate(p.ifs) if v is child), None)
            if idx:
                for prev in p.ifs[:idx]:
                    conds.append(Cond(prev, True, p, 'comp'))
        # preceding guards in the statement list that holds `child`
        if isinstance(child, ast.stmt):
            blk = _block_of(child)
            if blk:
                _, _, lst, i = blk
                for prev in reversed(lst[:i]):
                    if isinstance(prev, ast.If):
                        if terminates(prev.body) and not (prev.orelse and terminates(prev.orelse)):
                            conds.append(Cond(prev.test, False, prev, 'guard'))
                        elif prev.orelse and terminates(prev.orelse) and not terminates(prev.body):
                            conds.append(Cond(prev.test, True, prev, 'guard'))
                    elif isinstance(prev, ast.Assert):
                        conds.append(Cond(prev.test, True, prev, 'assert'))
        if isinstance(p, FUNCS):
            break
        child = p
        p = getattr(p, '_parent', None)
    if func is not None:
        for c in conds:
            c.test = _expand_test(c.test, func, c.origin)
    if func is None or not check_kills:
        return conds
    # kill analysis
    kept = []
    for c in conds:
        names = names_in(c.test)
        if kill_names and any(
                isinstance(n, ast.Call) and isinstance(n.func, ast.Name) and n.func.id in extra_kill_calls
                for n in ast.walk(c.test)):
            names = names | set(kill_names)
        killed = False
        for k in _killers(func, names):
            if _kills(c, k, node, func):
                killed = True
                break
        if not killed:
            kept.append(c)
    return kept


def _expand_test(test, func, origin):
    """A test that is a local name bound exactly once (a hoisted condition) stands for the bound expression."""
    neg = False
    inner = test
    if isinstance(inner, ast.UnaryOp) and isinstance(inner.op, ast.Not) and isinstance(inner.operand, ast.Name):
        neg, inner = True, inner.operand
    if not isinstance(inner, ast.Name):
        return test
    binds = [n for n in _stores(func).get(inner.id, ()) if isinstance(n, ast.Name)]
    if len(binds) != 1 or len(_stores(func).get(inner.id, ())) != 1:
        return test
    st = stmt_of(binds[0])
    if not (isinstance(st, ast.Assign) and len(st.targets) == 1 and st.targets[0] is binds[0]):
        return test
    if not isinstance(st.value, (ast.Compare, ast.BoolOp, ast.UnaryOp, ast.Call)):
        return test
    if pos(st) > pos(origin):
        return test
    # the operands of the bound expression must not be rebound between the binding and the test
    names = names_in(st.value)
    for k in _killers(func, names):
        if end_pos(st) <= pos(k) < pos(origin):
            return test
    value = st.value
    if neg:
        value = ast.UnaryOp(op=ast.Not(), operand=value)
        ast.copy_location(value, test)
    return value


def exits(stmts):
    """How control can leave a statement list: subset of {fall, return, raise, continue, break}."""
    out = set()
    for s in stmts:
        kinds = _exits_stmt(s)
        out |= kinds - {'fall'}
        if 'fall' not in kinds:
            return out
    out.add('fall')
    return out


def _exits_stmt(s):
    if isinstance(s, ast.Return):
        return {'return'}
    if isinstance(s, ast.Raise):
        return {'raise'}
    if isinstance(s, ast.Continue):
        return {'continue'}
    if isinstance(s, ast.Break):
        return {'break'}
    if isinstance(s, ast.If):
        return exits(s.body) | exits(s.orelse)
    if isinstance(s, LOOPS):
        inner = exits(s.body)
        return {'fall'} | (inner & {'return', 'raise'}) | (exits(s.orelse) - {'fall'})
    if isinstance(s, (ast.With, ast.AsyncWith)):
        return exits(s.body)
    if isinstance(s, ast.Try):
        kinds = exits(s.body)
        for h in s.handlers:
            kinds |= exits(h.body)
        if s.orelse:
            kinds |= exits(s.orelse)
        if s.finalbody:
            fin = exits(s.finalbody)
            if 'fall' not in fin:
                return fin
            kinds |= fin - {'fall'}
        return kinds
    return {'fall'}


def _innermost_loop(node, stop=None):
    p = getattr(node, '_parent', None)
    while p is not None and p is not stop:
        if isinstance(p, LOOPS):
            return p
        if isinstance(p, FUNCS):
            return None
        p = getattr(p, '_parent', None)
    return None


def _kills(c, k, node, func):
    """May the rebinding k invalidate condition c before `node` is evaluated?"""
    if contains(c.test, k):
        return False
    origin = c.origin
    textual = end_pos(c.test) <= pos(k) < pos(node)
    if not textual:
        # loop-carried: k runs in a loop that holds the node but not the test
        for L in _enclosing_loops(node, func):
            if contains(L, k) and not contains(L, c.test):
                return True
        return False
    if c.kind in ('boolop', 'ifexp', 'comp'):
        # expression-level condition: only a walrus in between could rebind
        return True
    # statement-level: follow control after k
    kstmt = stmt_of(k)
    cur = kstmt
    while cur is not None:
        blk = _block_of(cur)
        if blk is None:
            cur = getattr(cur, '_parent', None)
            while cur is not None and not isinstance(cur, ast.stmt):
                cur = getattr(cur, '_parent', None)
            continue
        parent, _, lst, i = blk
        # does this block also hold (an ancestor of) the node after cur?
        for j in range(i + 1, len(lst)):
            if contains(lst[j], node):
                kinds = exits(lst[i + 1:j])
                if 'fall' in kinds:
                    return True
                return not _all_safe(kinds, cur, c, node)
        kinds = exits(lst[i + 1:])
        non_fall = kinds - {'fall'}
        if non_fall and not _all_safe(non_fall, cur, c, node):
            return True
        if 'fall' not in kinds:
            return False
        # falls out of this block
        if isinstance(parent, LOOPS) and any(cur is s_ for s_ in parent.body):
            # end of a loop body -> back to the loop head
            if contains(parent, node):
                if parent is origin or contains(parent, origin):
                    return False
                return True
        if isinstance(parent, FUNCS) or parent is func:
            return False
        cur = parent if isinstance(parent, ast.stmt) else stmt_of(parent)
    return False


def _all_safe(kinds, cur, c, node):
    origin = c.origin
    for kind in kinds:
        if kind in ('return', 'raise'):
            continue
        L = _innermost_loop(cur)
        if L is None:
            continue
        if kind == 'continue':
            if L is origin or contains(L, origin):
                continue
            return False
        if kind == 'break':
            if contains(L, node) and (L is origin or contains(L, origin)):
                continue
            return False
    return True


def returns_of(func):
    return [n for n in walk_local(func) if isinstance(n, ast.Return)]


def raises_of(func):
    return [n for n in walk_local(func) if isinstance(n, ast.Raise)]


def calls_in(node, local=True):
    it = walk_local(node) if local and isinstance(node, FUNCS) else ast.walk(node)
    return [n for n in it if isinstance(n, ast.Call)]


def call_name(call):
    """Dotted text of the callee, or None."""
    from .load import dotted
    return dotted(call.func)


class Deps:
    """Flow-insensitive dependence closure inside one function.

    data[name]    names whose value may flow into `name` (through any assignment,
                  augmented assignment, loop target, with-as, comprehension variable)
    ctrl[stmt id] names read by tests that decide whether the statement runs (enclosing
                  if/while/for-iter and preceding *selecting* guards: guards whose body
                  returns a value; guards that only raise are not selectors)
    """

    def __init__(self, func, through_stores=True):
        self.func = func
        self.through_stores = through_stores
        self.data = {}
        params = [a.arg for a in func.args.posonlyargs + func.args.args + func.args.kwonlyargs]
        if func.args.vararg:
            params.append(func.args.vararg.arg)
        if func.args.kwarg:
            params.append(func.args.kwarg.arg)
        self.params = params
        # Several bindings of the same name are merged (flow-insensitive), except that a
        # parameter that is rebound keeps itself as a source.
        for p in params:
            self.data.setdefault(p, set()).add('@' + p)
        for n in walk_local(func):
            if isinstance(n, ast.Assign):
                src = names_in(n.value)
                for t in n.targets:
                    self._bind(t, src)
            elif isinstance(n, ast.AugAssign):
                self._bind(n.target, names_in(n.value) | names_in(n.target))
            elif isinstance(n, ast.AnnAssign) and n.value is not None:
                self._bind(n.target, names_in(n.value))
            elif isinstance(n, (ast.For, ast.AsyncFor)):
                self._bind(n.target, names_in(n.iter))
            elif isinstance(n, ast.comprehension):
                self._bind(n.target, names_in(n.iter))
            elif isinstance(n, (ast.With, ast.AsyncWith)):
                for item in n.items:
                    if item.optional_vars is not None:
                        self._bind(item.optional_vars, names_in(item.context_expr))
            elif isinstance(n, ast.NamedExpr):
                self._bind(n.target, names_in(n.value))
            elif isinstance(n, ast.ExceptHandler) and n.name:
                self.data.setdefault(n.name, set())
            elif isinstance(n, ast.Call) and isinstance(n.func, ast.Attribute) \
                    and n.func.attr in ('append', 'extend', 'add', 'update', 'insert') \
                    and isinstance(n.func.value, ast.Name):
                src = set()
                for a in n.args:
                    src |= names_in(a)
                self.data.setdefault(n.func.value.id, set()).update(src)
        self._closure = {}

    def _bind(self, target, src):
        for t in ast.walk(target):
            if isinstance(t, ast.Name) and isinstance(t.ctx, (ast.Store, ast.Del)):
                self.data.setdefault(t.id, set()).update(src)
            elif isinstance(t, (ast.Attribute, ast.Subscript)) and self.through_stores:
                # store into an object: the base object now depends on src
                base = t
                while isinstance(base, (ast.Attribute, ast.Subscript)):
                    base = base.value
                if isinstance(base, ast.Name):
                    self.data.setdefault(base.id, set()).update(src)
                if isinstance(t, ast.Subscript):
                    pass

    def closure(self, names):
        """All names (and '@param' sources) the given names transitively depend on."""
        seen = set()
        work = list(names)
        while work:
            n = work.pop()
            if n in seen:
                continue
            seen.add(n)
            for d in self.data.get(n, ()):
                if d not in seen:
                    work.append(d)
        return seen

    def params_reaching(self, expr_or_names):
        names = expr_or_names if isinstance(expr_or_names, (set, list, tuple)) \
            else names_in(expr_or_names)
        clo = self.closure(names)
        return {p for p in self.params if '@' + p in clo}

    def control_names(self, node, selectors_only=True):
        """Names read by the tests that select whether `node` runs."""
        out = set()
        for c in path_conditions(node):
            if c.kind == 'guard' and selectors_only:
                g = c.origin
                body = g.body if c.polarity is False else g.orelse
                if only_raises(body):
                    continue
            out |= names_in(c.test)
        # enclosing for-loops: iteration domain
        p = getattr(node, '_parent', None)
        while p is not None and p is not self.func:
            if isinstance(p, (ast.For, ast.AsyncFor)):
                out |= names_in(p.iter)
            p = getattr(p, '_parent', None)
        return out
