"""Helper inlining: an analysis-time view of a function with calls to private helpers of the same module expanded.

"Extract a private helper" / "merge sibling code into a helper" are the commonest behaviour-preserving refactorings; rules
that reason about the shape of one function (dominance, def-use, pairing, slices) would otherwise lose their anchor. The
inlined view is computed on a deep copy; the module's own AST is never modified.

Inlined are calls to
  * private module-level functions (name starts with "_"), nested closures of the analysed function,
  * private methods of the same class (self._m(...), cls._m(...), ClassName._m(...)), incl. staticmethods,
when the callee is non-recursive and
  * is an *expression helper* (body = optional docstring + `return <expr>`): the call is replaced by the expression, or
  * is a *statement helper* called in statement position (`helper(...)`, `x = helper(...)`, `return helper(...)`):
    its body is spliced in (locals renamed, parameters bound by assignment or substitution). With several return statements
    the helper is only spliced in `return helper(...)` position.
"""
import ast
import itertools


class copy:      # noqa: N801 - drop-in for the two functions used below, without following _parent/_module links
    @staticmethod
    def deepcopy(node):
        return clone(node)


def clone(node):
    """Structural copy of an AST (sub)tree: fields and positions only, never the analysis links."""
    if isinstance(node, list):
        return [clone(x) for x in node]
    if not isinstance(node, ast.AST):
        return node
    new = node.__class__()
    for name in node._fields:
        if hasattr(node, name):
            setattr(new, name, clone(getattr(node, name)))
    for name in ('lineno', 'col_offset', 'end_lineno', 'end_col_offset'):
        if hasattr(node, name):
            setattr(new, name, getattr(node, name))
    return new

_counter = itertools.count(1)


def _is_docstring(s):
    return isinstance(s, ast.Expr) and isinstance(s.value, ast.Constant) and isinstance(s.value.value, str)


def _body(fn):
    return [s for s in fn.body if not _is_docstring(s)]


def _params(fn, drop_self):
    a = fn.args
    names = [x.arg for x in a.posonlyargs + a.args]
    defaults = [None] * (len(names) - len(a.defaults)) + list(a.defaults)
    if drop_self and names:
        names, defaults = names[1:], defaults[1:]
    kwonly = [(x.arg, d) for x, d in zip(a.kwonlyargs, a.kw_defaults)]
    return names, defaults, kwonly, a.vararg, a.kwarg


def _bind(call, fn, drop_self):
    """{param: arg expr} or None when the call cannot be bound statically."""
    names, defaults, kwonly, vararg, kwarg = _params(fn, drop_self)
    if vararg or kwarg or any(isinstance(a, ast.Starred) for a in call.args) or any(k.arg is None for k in call.keywords):
        return None
    if len(call.args) > len(names):
        return None
    bound = {}
    for n, a in zip(names, call.args):
        bound[n] = a
    for k in call.keywords:
        if k.arg in bound:
            return None
        bound[k.arg] = k.value
    for n, d in list(zip(names, defaults)) + kwonly:
        if n not in bound:
            if d is None:
                return None
            bound[n] = d
    return bound


class _Subst(ast.NodeTransformer):
    def __init__(self, mapping):
        self.mapping = mapping

    def visit_Name(self, n):
        if n.id in self.mapping and isinstance(n.ctx, ast.Load):
            return copy.deepcopy(self.mapping[n.id])
        if n.id in self.mapping and isinstance(self.mapping[n.id], ast.Name):
            return ast.copy_location(ast.Name(id=self.mapping[n.id].id, ctx=n.ctx), n)
        return n

    def visit_FunctionDef(self, n):
        return n     # do not descend into nested defs of the helper

    visit_Lambda = visit_FunctionDef

    def visit_ExceptHandler(self, n):
        if n.name in self.mapping and isinstance(self.mapping[n.name], ast.Name):
            n.name = self.mapping[n.name].id
        self.generic_visit(n)
        return n


class _GiveUp(Exception):
    pass


def _has_return(node):
    return any(isinstance(x, ast.Return) for x in ast.walk(node))


def _single_exit(stmts, make_assign):
    """Rewrite a guard-return style block into single-exit form: every `return e` becomes make_assign(e) and the statements
    after a returning `if` move into the branches that fall through. Returns (statements, terminated)."""
    out = []
    for i, s in enumerate(stmts):
        if isinstance(s, ast.Return):
            out.append(make_assign(s.value))
            return out, True
        if isinstance(s, ast.If) and _has_return(s):
            body, tb = _single_exit(s.body, make_assign)
            orelse, te = _single_exit(s.orelse, make_assign)
            if tb and te:
                out.append(ast.If(test=s.test, body=body, orelse=orelse))
                return out, True
            rest, tr = _single_exit(stmts[i + 1:], make_assign)
            new_body = body if tb else body + copy.deepcopy(rest)
            new_else = orelse if te else orelse + rest
            out.append(ast.If(test=s.test, body=new_body or [ast.Pass()], orelse=new_else))
            return out, tr
        if isinstance(s, (ast.For, ast.While, ast.Try, ast.With, ast.AsyncWith, ast.AsyncFor)) and _has_return(s):
            raise _GiveUp()
        out.append(s)
    return out, False


def _simple(e):
    while isinstance(e, ast.Attribute):
        e = e.value
    return isinstance(e, (ast.Name, ast.Constant))


def _assigned(fn):
    out = set()
    for n in ast.walk(fn):
        if isinstance(n, ast.Name) and isinstance(n.ctx, ast.Store):
            out.add(n.id)
        elif isinstance(n, ast.ExceptHandler) and n.name:
            out.add(n.name)
    return out


class Inliner:
    def __init__(self, analysis, module, fnode, keep=()):
        self.a = analysis
        self.m = module
        self.orig = fnode
        self.keep = set(keep)
        self.cls = None
        p = getattr(fnode, '_parent', None)
        if isinstance(p, ast.ClassDef):
            self.cls = p

    # -- callee resolution -------------------------------------------------
    def _callee(self, call, root):
        f = call.func
        if (isinstance(f, ast.Name) and f.id in self.keep) or (isinstance(f, ast.Attribute) and f.attr in self.keep):
            return None, False
        if isinstance(f, ast.Name):
            # nested closure of the analysed function
            for n in ast.walk(root):
                if isinstance(n, ast.FunctionDef) and n is not root and n.name == f.id:
                    return n, False
            fn = self.m.funcs.get(f.id)
            if fn is not None and f.id.startswith('_') and isinstance(fn._parent, ast.Module):
                return fn, False
            return None, False
        if isinstance(f, ast.Attribute) and isinstance(f.value, ast.Name) and f.attr.startswith('_') and not f.attr.startswith('__'):
            recv = f.value.id
            cls = self.cls
            if cls is not None and recv in ('self', 'cls', cls.name):
                cref = f'pkg:{self.m.name}:{cls._qual}'
                cm, fn = self.a.res.class_attr(cref, f.attr)
                if isinstance(fn, ast.FunctionDef) and cm is self.m:
                    static = any(isinstance(d, ast.Name) and d.id == 'staticmethod' for d in fn.decorator_list)
                    return fn, not static
        return None, False

    def _recursive(self, fn):
        return any(isinstance(c, ast.Call) and ((isinstance(c.func, ast.Name) and c.func.id == fn.name) or
                                                (isinstance(c.func, ast.Attribute) and c.func.attr == fn.name))
                   for c in ast.walk(fn))

    # -- expression helpers --------------------------------------------------
    def _expr_helper(self, fn):
        b = _body(fn)
        if len(b) == 1 and isinstance(b[0], ast.Return) and b[0].value is not None:
            return b[0].value
        return None

    def _inline_expressions(self, root):
        inliner = self
        changed = [False]

        class T(ast.NodeTransformer):
            def visit_FunctionDef(self, n):
                if n is root:
                    self.generic_visit(n)
                return n

            def visit_Call(self, c):
                self.generic_visit(c)
                fn, drop_self = inliner._callee(c, root)
                if fn is None or fn is inliner.orig or inliner._recursive(fn):
                    return c
                e = inliner._expr_helper(fn)
                if e is None:
                    return c
                bound = _bind(c, fn, drop_self)
                if bound is None:
                    return c
                if drop_self and isinstance(c.func, ast.Attribute):
                    selfname = fn.args.args[0].arg
                    bound[selfname] = c.func.value
                new = _Subst(bound).visit(copy.deepcopy(e))
                ast.copy_location(new, c)
                for x in ast.walk(new):
                    if not hasattr(x, 'lineno') or True:
                        x.lineno = getattr(c, 'lineno', 0)
                        x.col_offset = getattr(c, 'col_offset', 0)
                        x.end_lineno = getattr(c, 'end_lineno', x.lineno)
                        x.end_col_offset = getattr(c, 'end_col_offset', 0)
                changed[0] = True
                return new
        T().visit(root)
        return changed[0]

    # -- statement helpers ---------------------------------------------------
    def _splice(self, call, position, targets, root):
        fn, drop_self = self._callee(call, root)
        if fn is None or fn is self.orig or self._recursive(fn) or self._expr_helper(fn) is not None:
            return None
        bound = _bind(call, fn, drop_self)
        if bound is None:
            return None
        if drop_self and isinstance(call.func, ast.Attribute):
            bound[fn.args.args[0].arg] = call.func.value
        body = copy.deepcopy(_body(fn))
        rets = [r for s in body for r in ast.walk(s) if isinstance(r, ast.Return)]
        # nested defs inside the helper keep their returns: exclude them
        nested = {id(r) for s in body for d in ast.walk(s) if isinstance(d, (ast.FunctionDef, ast.Lambda))
                  for r in ast.walk(d) if isinstance(r, ast.Return)}
        rets = [r for r in rets if id(r) not in nested]
        last_is_ret = bool(body) and isinstance(body[-1], ast.Return)
        single_tail = len(rets) == 1 and last_is_ret
        tails = _tail_returns(body)
        all_tail = bool(rets) and {id(r) for r in rets} == {id(r) for r in tails}
        guard_style = False
        if position != 'return' and not (single_tail or not rets or all_tail):
            try:
                probe, _t = _single_exit(copy.deepcopy(body), lambda v: ast.Pass())
                guard_style = True
            except _GiveUp:
                return None
        k = next(_counter)
        pre = []
        mapping = {}
        reassigned = _assigned(fn)
        for p, a in bound.items():
            if _simple(a) and p not in reassigned:
                mapping[p] = a
            else:
                tmp = f'{p}__inl{k}'
                pre.append(ast.Assign(targets=[ast.Name(id=tmp, ctx=ast.Store())], value=copy.deepcopy(a)))
                mapping[p] = ast.Name(id=tmp, ctx=ast.Load())
        for loc in _assigned(fn) - set(bound):
            mapping[loc] = ast.Name(id=f'{loc}__inl{k}', ctx=ast.Load())
        new_body = []
        for s in body:
            s = _Subst(mapping).visit(s)
            new_body.append(s)
        if guard_style:
            def mk(v):
                if position == 'assign':
                    return ast.Assign(targets=copy.deepcopy(targets), value=v or ast.Constant(None))
                return ast.Expr(value=v) if v is not None else ast.Pass()
            new_body, term = _single_exit(new_body, mk)
            if not term and position == 'assign':
                new_body.append(ast.Assign(targets=copy.deepcopy(targets), value=ast.Constant(None)))
        elif position in ('assign', 'expr') and all_tail and not single_tail:
            tail_ids = {id(r) for r in _tail_returns(new_body)}

            class R(ast.NodeTransformer):
                def visit_FunctionDef(self, n):
                    return n

                def visit_Return(self, r):
                    if id(r) not in tail_ids:
                        return r
                    if position == 'assign':
                        return ast.Assign(targets=copy.deepcopy(targets), value=r.value or ast.Constant(None))
                    return ast.Expr(value=r.value) if r.value is not None else ast.Pass()
            new_body = [R().visit(s) for s in new_body]
        elif position == 'assign' and single_tail:
            r = new_body[-1]
            new_body[-1] = ast.Assign(targets=copy.deepcopy(targets), value=r.value)
        elif position == 'expr' and single_tail:
            r = new_body[-1]
            new_body[-1] = ast.Expr(value=r.value) if r.value is not None else ast.Pass()
        elif position == 'expr' and not rets:
            pass
        elif position == 'assign' and not rets:
            new_body.append(ast.Assign(targets=copy.deepcopy(targets), value=ast.Constant(None)))
        out = pre + new_body
        for s in out:
            for x in ast.walk(s):
                x.lineno = getattr(call, 'lineno', 0)
                x.col_offset = getattr(call, 'col_offset', 0)
                x.end_lineno = getattr(call, 'end_lineno', x.lineno)
                x.end_col_offset = getattr(call, 'end_col_offset', 0)
        return out

    def _inline_statements(self, root):
        changed = [False]
        inliner = self

        def do_block(stmts):
            out = []
            for s in stmts:
                # recurse into compound statements first
                for field in ('body', 'orelse', 'finalbody'):
                    blk = getattr(s, field, None)
                    if isinstance(blk, list) and blk and isinstance(blk[0], ast.stmt) and not isinstance(s, (ast.FunctionDef, ast.ClassDef)):
                        setattr(s, field, do_block(blk))
                if isinstance(s, ast.Try):
                    for h in s.handlers:
                        h.body = do_block(h.body)
                rep = None
                if isinstance(s, ast.Expr) and isinstance(s.value, ast.Call):
                    rep = inliner._splice(s.value, 'expr', None, root)
                elif isinstance(s, ast.Assign) and isinstance(s.value, ast.Call):
                    rep = inliner._splice(s.value, 'assign', s.targets, root)
                elif isinstance(s, ast.Return) and isinstance(s.value, ast.Call):
                    rep = inliner._splice(s.value, 'return', None, root)
                if rep is not None:
                    changed[0] = True
                    out.extend(rep)
                else:
                    out.append(s)
            return out
        root.body = do_block(root.body)
        return changed[0]

    def run(self, depth=3):
        root = copy.deepcopy(self.orig)
        any_change = False
        for _ in range(depth):
            c1 = self._inline_statements(root)
            c2 = self._inline_expressions(root)
            any_change = any_change or c1 or c2
            if not (c1 or c2):
                break
        if not any_change:
            return self.orig
        # sequential positions so that textual-order reasoning (pos/contains) stays meaningful
        _renumber(root, getattr(self.orig, 'lineno', 1))
        _link(root, self.m, getattr(self.orig, '_parent', None), self.orig._qual)
        root._inlined = True
        return root


def _tail_returns(stmts):
    """Return statements in tail position of a statement list (after them control reaches the end of the list anyway)."""
    if not stmts:
        return []
    last = stmts[-1]
    if isinstance(last, ast.Return):
        return [last]
    if isinstance(last, ast.If):
        return _tail_returns(last.body) + _tail_returns(last.orelse)
    if isinstance(last, (ast.With, ast.AsyncWith)):
        return _tail_returns(last.body)
    if isinstance(last, ast.Try):
        out = _tail_returns(last.orelse) if last.orelse else _tail_returns(last.body)
        for h in last.handlers:
            out += _tail_returns(h.body)
        return out
    return []


def _renumber(root, base):
    """Give every node a position in document order: line = base + running index (columns 0..)."""
    counter = [0]

    def rec(node):
        counter[0] += 1
        start = counter[0]
        if hasattr(node, 'lineno') or isinstance(node, (ast.expr, ast.stmt, ast.arg, ast.keyword, ast.ExceptHandler)):
            node._orig_lineno = getattr(node, 'lineno', base)
        for ch in ast.iter_child_nodes(node):
            rec(ch)
        counter[0] += 1
        end = counter[0]
        if isinstance(node, (ast.expr, ast.stmt, ast.arg, ast.keyword, ast.ExceptHandler, ast.comprehension, ast.withitem)):
            node.lineno = base + start
            node.col_offset = 0
            node.end_lineno = base + end
            node.end_col_offset = 0
    rec(root)


def _link(root, module, parent, qual):
    root._parent = parent
    root._module = module
    root._qual = qual
    root._func = qual

    def walk(node, q, fq):
        for child in ast.iter_child_nodes(node):
            child._parent = node
            child._module = module
            cq, cf = q, fq
            if isinstance(child, (ast.FunctionDef, ast.AsyncFunctionDef)):
                cq = f'{q}.{child.name}'
                cf = cq
            elif isinstance(child, ast.ClassDef):
                cq = f'{q}.{child.name}'
            child._qual = cq
            child._func = cf
            walk(child, cq, cf)
    walk(root, qual, qual)


def inlined(analysis, module, fnode, depth=3, keep=()):
    key = ('inlined', module.name, fnode._qual, tuple(sorted(keep)))
    if key not in analysis.cache:
        analysis.cache[key] = Inliner(analysis, module, fnode, keep).run(depth)
    return analysis.cache[key]
