"""Decision-table extraction: partial evaluation of loop-free code fragments.

The fragment is interpreted over *abstract inputs chosen by the rule* (token kinds,
operator kinds, critical points around the constants a value is compared with).
The interpreter refuses what it cannot model exactly (-> Unmodelled, exit 2):
general loops (a `while` is run for ONE iteration: test, body once), unknown calls,
attribute writes to unknown objects. Calls to effectful receivers named by the rule
are recorded as events instead of being executed.

This is predicate abstraction over a finite domain that partitions the inputs by the
predicates the fragment itself uses; it is not a run of the library.
"""
import ast
import builtins as _builtins
import operator as _op

from . import Unmodelled
from .consteval import Ref, Obj, Unfoldable, MsgRef


class Opaque:
    """Result of a recorded (not executed) call."""

    def __init__(self, label):
        self.label = label

    def __repr__(self):
        return f'Opaque({self.label})'


class Rec:
    """Mutable abstract record (token, context ...)."""

    def __init__(self, **fields):
        self.__dict__['f'] = dict(fields)

    def get(self, name):
        if name not in self.f:
            raise Unmodelled(f'abstract record has no field {name!r}')
        return self.f[name]

    def set(self, name, value):
        self.f[name] = value

    def __repr__(self):
        return f'Rec({self.f})'


class _GenList(list):
    """The items of a generator (evaluated eagerly). A list for every consumer; next() takes items from the front; `pending` is
    what the generator raises once it is exhausted (exception, raised by a raise statement?)."""
    pending = None


def _exhausted(gen):
    """Called by a consumer that has taken every item of `gen`."""
    if isinstance(gen, _GenList) and gen.pending is not None:
        r_ = ExcRaised(gen.pending[0])
        r_.explicit = gen.pending[1]
        raise r_


class LambdaVal:
    """A lambda expression closed over the environment it was created in."""

    def __init__(self, node, env):
        self.node = node
        self.env = env


class PyModel:
    """Base class for rule-provided models whose methods the interpreter may call."""


class BoundMethod:
    """`obj.method` taken as a value: a method of a package class bound to an abstract instance (or class)."""

    def __init__(self, recv, module, fnode, cref):
        self.recv = recv
        self.module = module
        self.fnode = fnode
        self.cref = cref

    def __repr__(self):
        return f'BoundMethod({self.cref}.{self.fnode.name})'


class Closure:
    """A nested function taken as a value: the definition and the environment it was defined in (by reference)."""

    def __init__(self, fnode, env, module, scopes, self_class, def_class, first_param):
        self.fnode = fnode
        self.env = env
        self.module = module
        self.scopes = scopes
        self.self_class = self_class
        self.def_class = def_class
        self.first_param = first_param

    def __repr__(self):
        return f'Closure({self.fnode.name})'


_TYPING_ORIGINS = {'Tuple': 'builtin:tuple', 'List': 'builtin:list', 'Sequence': 'builtin:list', 'Union': 'ext:typing.Union',
                   'Optional': 'ext:typing.Union'}


class TypingAlias(PyModel):
    """typing.Tuple[X] / List[X] / Union[X, Y] / Optional[X]: origin and arguments, compared by value."""

    def __init__(self, origin, args):
        self.__origin__ = origin
        flat = []
        for a in args:
            if isinstance(a, TypingAlias) and a.__origin__ == origin and origin == Ref('ext:typing.Union'):
                flat.extend(a.__args__)       # Union[Union[a, b], c] is Union[a, b, c]
            else:
                flat.append(a)
        if origin == Ref('ext:typing.Union'):
            dedup = []
            for a in flat:
                if a not in dedup:
                    dedup.append(a)           # Union[a, b, a] is Union[a, b]
            flat = dedup
        self.__args__ = tuple(flat)

    def _is_union(self):
        return self.__origin__ == Ref('ext:typing.Union')

    def __eq__(self, other):
        if not isinstance(other, TypingAlias) or other.__origin__ != self.__origin__:
            return False
        if self._is_union():
            return set(other.__args__) == set(self.__args__)       # unions compare as sets of their members
        return other.__args__ == self.__args__

    def __ne__(self, other):
        return not self.__eq__(other)

    def __hash__(self):
        if self._is_union():
            return hash(('TypingAlias', self.__origin__, frozenset(self.__args__)))
        return hash(('TypingAlias', self.__origin__, self.__args__))

    def __repr__(self):
        return f'TypingAlias({self.__origin__}, {self.__args__})'


class RawFunc:
    """A package function as written, without its decorators (what a decorator receives as its argument)."""

    def __init__(self, ref, module, fnode):
        self.ref, self.module, self.fnode = ref, module, fnode

    def __repr__(self):
        return f'RawFunc({self.ref})'


class SigParam(PyModel):
    VAR_POSITIONAL = 'VAR_POSITIONAL'
    POSITIONAL_OR_KEYWORD = 'POSITIONAL_OR_KEYWORD'
    KEYWORD_ONLY = 'KEYWORD_ONLY'
    VAR_KEYWORD = 'VAR_KEYWORD'
    POSITIONAL_ONLY = 'POSITIONAL_ONLY'
    empty = Ref('ext:inspect.Parameter.empty')

    def __init__(self, name, kind, annotation, default):
        self.name, self.kind, self.annotation, self.default = name, kind, annotation, default


class SigBound(PyModel):
    def __init__(self, sig, arguments):
        self.signature = sig
        self.arguments = arguments

    @property
    def args(self):
        # inspect.BoundArguments.args: the leading run of positional parameters that have a value - it ends at the first one left out
        out = []
        for p in self.signature.parameters.values():
            if p.kind in (SigParam.VAR_KEYWORD, SigParam.KEYWORD_ONLY) or p.name not in self.arguments:
                break
            if p.kind == SigParam.VAR_POSITIONAL:
                out.extend(self.arguments[p.name])
            else:
                out.append(self.arguments[p.name])
        return tuple(out)

    @property
    def kwargs(self):
        # ... and everything after that run goes by keyword
        out = {}
        started = False
        for p in self.signature.parameters.values():
            if not started:
                if p.kind in (SigParam.VAR_KEYWORD, SigParam.KEYWORD_ONLY):
                    started = True
                elif p.name not in self.arguments:
                    started = True
                    continue
            if not started or p.name not in self.arguments:
                continue
            if p.kind == SigParam.VAR_KEYWORD:
                out.update(self.arguments[p.name])
            else:
                out[p.name] = self.arguments[p.name]
        return out


class Sig(PyModel):
    """inspect.signature of a function of the package, built from its FunctionDef (introspection of the analysed source)."""
    empty = Ref('ext:inspect.Signature.empty')

    def __init__(self, analysis, module, fnode, world=None, skip_first=False):
        self.parameters = {}
        a = fnode.args
        pos = list(a.posonlyargs) + list(a.args)
        defaults = [None] * (len(pos) - len(a.defaults)) + list(a.defaults)
        it = Interp(analysis, module, {}, world=world, inline_pkg=True)

        def ann(node):
            if node is None:
                return SigParam.empty
            v = it.ev(node)
            return Ref('builtin:NoneType') if v is None and not (isinstance(node, ast.Constant) and node.value is None) else v
        items = list(zip(pos, defaults))
        if skip_first:
            items = items[1:]
        for p, d in items:
            self.parameters[p.arg] = SigParam(p.arg, SigParam.POSITIONAL_OR_KEYWORD, ann(p.annotation), it.ev(d) if d is not None else SigParam.empty)
        if a.vararg:
            self.parameters[a.vararg.arg] = SigParam(a.vararg.arg, SigParam.VAR_POSITIONAL, ann(a.vararg.annotation), SigParam.empty)
        for p, d in zip(a.kwonlyargs, a.kw_defaults):
            self.parameters[p.arg] = SigParam(p.arg, SigParam.KEYWORD_ONLY, ann(p.annotation), it.ev(d) if d is not None else SigParam.empty)
        if a.kwarg:
            self.parameters[a.kwarg.arg] = SigParam(a.kwarg.arg, SigParam.VAR_KEYWORD, ann(a.kwarg.annotation), SigParam.empty)
        self.return_annotation = ann(fnode.returns) if fnode.returns is not None else Sig.empty

    def bind(self, *args, **kw):
        arguments = {}
        args = list(args)
        for p in self.parameters.values():
            if p.kind in (SigParam.POSITIONAL_OR_KEYWORD, SigParam.POSITIONAL_ONLY):
                if args:
                    arguments[p.name] = args.pop(0)
                elif p.name in kw:
                    arguments[p.name] = kw.pop(p.name)
                elif p.default is SigParam.empty:
                    raise ExcRaised(Ref('builtin:TypeError'))
            elif p.kind == SigParam.VAR_POSITIONAL:
                arguments[p.name] = tuple(args)
                args = []
            elif p.kind == SigParam.KEYWORD_ONLY:
                if p.name in kw:
                    arguments[p.name] = kw.pop(p.name)
                elif p.default is SigParam.empty:
                    raise ExcRaised(Ref('builtin:TypeError'))
            elif p.kind == SigParam.VAR_KEYWORD:
                arguments[p.name] = dict(kw)
                kw = {}
        if args or kw:
            raise ExcRaised(Ref('builtin:TypeError'))
        return SigBound(self, arguments)


class World:
    """State that outlives one interpreted call: module-level mutable objects, names rebound through `global`,
    class attributes assigned at run time. Rules that interpret two calls in a row hand the same World to both."""

    def __init__(self):
        self.globals = {}
        self.classattrs = {}
        self.steps = 0
        self.initialised = set()
        self.funcobjs = {}
        # the thread's current decimal context is process state too: every world has its own (installed whenever code of this
        # world is interpreted), so that a rounding mode left behind by one call is seen by the next call of the same world only
        self.decimal_context = _decimal.Context()


class ExcRaised(Exception):
    def __init__(self, exc):
        self.exc = exc


class _Break(Exception):
    pass


class _Continue(Exception):
    pass


class _Return(Exception):
    def __init__(self, value):
        self.value = value


_BIN = {
    ast.Add: _op.add, ast.Sub: _op.sub, ast.Mult: _op.mul, ast.Div: _op.truediv,
    ast.FloorDiv: _op.floordiv, ast.Mod: _op.mod, ast.Pow: _op.pow,
    ast.LShift: _op.lshift, ast.RShift: _op.rshift, ast.BitAnd: _op.and_,
    ast.BitOr: _op.or_, ast.BitXor: _op.xor,
}
_CMP = {
    ast.Eq: _op.eq, ast.NotEq: _op.ne, ast.Lt: _op.lt, ast.LtE: _op.le,
    ast.Gt: _op.gt, ast.GtE: _op.ge, ast.In: lambda a, b: a in b,
    ast.NotIn: lambda a, b: a not in b, ast.Is: _op.is_, ast.IsNot: _op.is_not,
}
_PURE = {'len': len, 'int': int, 'float': float, 'str': str, 'bool': bool, 'abs': abs, 'round': round,
         'sorted': sorted, 'sum': sum, 'any': any, 'all': all, 'range': range, 'enumerate': enumerate, 'zip': zip,
         'reversed': lambda x: list(reversed(x)),
         'isinstance': None, 'type': None, 'set': set, 'frozenset': frozenset, 'tuple': tuple,
         'list': list, 'min': min, 'max': max, 'bin': bin, 'oct': oct, 'hex': hex, 'chr': chr, 'ord': ord, 'divmod': divmod,
         'pow': pow, 'dict': dict, 'repr': repr, 'hash': hash, 'format': format, 'callable': callable, 'slice': slice}
import operator as _op
_INPLACE = {ast.Add: _op.iadd, ast.Sub: _op.isub, ast.Mult: _op.imul, ast.Div: _op.itruediv, ast.FloorDiv: _op.ifloordiv, ast.Mod: _op.imod,
            ast.Pow: _op.ipow, ast.LShift: _op.ilshift, ast.RShift: _op.irshift, ast.BitAnd: _op.iand, ast.BitOr: _op.ior, ast.BitXor: _op.ixor}
_STR_METHODS = {'startswith', 'endswith', 'find', 'upper', 'lower', 'strip', 'title',
                'index', 'count', 'zfill', 'is_integer', 'replace', 'partition', 'rpartition',
                'split', 'rsplit', 'removeprefix', 'removesuffix', 'lstrip', 'rstrip', 'join',
                'isdigit', 'isalpha'}


_DUNDER_OF = {'str': '__str__', 'int': '__int__', 'float': '__float__', 'len': '__len__', 'abs': '__abs__',
              'round': '__round__', 'repr': '__repr__', 'hash': '__hash__', 'bool': '__bool__', 'iter': '__iter__',
              'list': '__iter__', 'tuple': '__iter__'}
_BINOP_DUNDER = {ast.Add: 'add', ast.Sub: 'sub', ast.Mult: 'mul', ast.Div: 'truediv', ast.FloorDiv: 'floordiv', ast.Mod: 'mod',
                 ast.Pow: 'pow', ast.BitAnd: 'and', ast.BitOr: 'or', ast.BitXor: 'xor', ast.LShift: 'lshift', ast.RShift: 'rshift'}
_CMP_DUNDER = {ast.Eq: ('__eq__', '__eq__'), ast.NotEq: ('__ne__', '__ne__'), ast.Lt: ('__lt__', '__gt__'),
               ast.LtE: ('__le__', '__ge__'), ast.Gt: ('__gt__', '__lt__'), ast.GtE: ('__ge__', '__le__')}
# Pure library calls on constants are folded like arithmetic on constants (constant propagation through the standard library):
# regular expressions, calendar arithmetic, math. Their results are ordinary Python objects of these types.
import re as _re
import datetime as _dt
import math as _math
import decimal as _decimal
# documented constants of third-party libraries that are values, not calls (openpyxl's two date systems)
_EXT_VALUES = {
    'ext:openpyxl.utils.datetime.CALENDAR_WINDOWS_1900': _dt.datetime(1899, 12, 30), 'ext:openpyxl.utils.datetime.WINDOWS_EPOCH': _dt.datetime(1899, 12, 30),
    'ext:openpyxl.utils.datetime.CALENDAR_MAC_1904': _dt.datetime(1904, 1, 1), 'ext:openpyxl.utils.datetime.MAC_EPOCH': _dt.datetime(1904, 1, 1),
}
COVERAGE = None     # {'lines': {module: {lineno}}, 'branches': {(module, lineno, col): {True, False}}} when a coverage run asks for it
import unicodedata as _unicodedata  # noqa: E402
_PURE_LIBS = {'re': _re, 'datetime': _dt, 'math': _math, 'decimal': _decimal, 'unicodedata': _unicodedata}
import os as _os_mod      # noqa: E402
import stat as _stat_mod  # noqa: E402
import errno as _errno_mod  # noqa: E402
_FLAG_LIBS = {'os': _os_mod, 'stat': _stat_mod, 'errno': _errno_mod}      # only their integer / string constants are looked at
import time as _time
_PURE_TYPES = (_re.Match, _re.Pattern, _dt.datetime, _dt.date, _dt.timedelta, _dt.time, _decimal.Decimal, _decimal.Context, _time.struct_time)
_PURE_DENY = {'datetime.datetime.now', 'datetime.datetime.today', 'datetime.date.today', 'datetime.datetime.utcnow'}


def _exc_ref(exc):
    """Reference of the nearest builtin exception class of a Python exception raised while folding."""
    for k in type(exc).__mro__:
        if getattr(_builtins, k.__name__, None) is k:
            return Ref(f'builtin:{k.__name__}')
    return Ref('builtin:Exception')


def _concrete(v, depth=0):
    if v is None or isinstance(v, (bool, int, float, str, bytes, complex) + _PURE_TYPES):
        return True
    if depth < 4 and isinstance(v, (tuple, list, set, frozenset)):
        return all(_concrete(x, depth + 1) for x in v)
    if depth < 4 and isinstance(v, dict):
        return all(_concrete(k, depth + 1) and _concrete(x, depth + 1) for k, x in v.items())
    return False


_NUM_DUNDERS = {'__trunc__', '__neg__', '__pos__', '__abs__', '__round__', '__floor__', '__ceil__', 'is_integer'}


def _walk_no_defs(fn):
    stack = list(ast.iter_child_nodes(fn))
    while stack:
        n = stack.pop()
        yield n
        if isinstance(n, (ast.FunctionDef, ast.AsyncFunctionDef, ast.Lambda, ast.ClassDef)):
            continue
        stack.extend(ast.iter_child_nodes(n))


class Outcome:
    def __init__(self):
        self.events = []       # (label, args)
        self.end = 'fallthrough'   # 'fallthrough' | 'break' | 'continue' | 'return' | 'raise'
        self.value = None
        self.explicit = False      # end == 'raise': raised by a raise statement of the package
        self.loop_entered = None

    def called(self, label):
        return any(e[0] == label for e in self.events)

    def __repr__(self):
        return f'<Outcome {self.end} {self.value!r} {self.events}>'


class Interp:
    @property
    def max_depth(self):
        """Bound on nested inlining (a runaway guard); a world may raise it (whole-workbook scenarios nest cell evaluations)."""
        return getattr(self.world, 'max_depth', 14)

    def __init__(self, analysis, module, env, effect_receivers=(), self_class=None,
                 isinstance_fn=None, call_models=None, raise_classifier=None, inline_pkg=False, depth=0,
                 record_unknown=False, scope_fn=None, world=None):
        """
        env                initial locals
        effect_receivers   names whose method calls are recorded as events ('stack', 'output')
        isinstance_fn      fn(value, class_ref_or_tuple) -> bool, for abstract class lattices
        call_models        {resolved ref or dotted text: python callable}
        """
        self.a = analysis
        self.m = module
        self.env = dict(env)
        self.effects = set(effect_receivers)
        self.self_class = self_class
        self.isinstance_fn = isinstance_fn
        self.call_models = call_models or {}
        self.inline_pkg = inline_pkg
        self.record_unknown = record_unknown
        self.scope_fn = scope_fn
        self.scopes = [scope_fn] if scope_fn is not None else []
        self.depth = depth
        self.out = Outcome()
        self.world = world if world is not None else World()
        self.def_class = None       # class in whose body the interpreted function is defined (for super())
        self.first_param = None     # name of the first parameter (self / cls) of the interpreted method
        self.global_names = set()
        self._on_yield = None

    # -- statements ------------------------------------------------------
    def run(self, stmts):
        if self.depth == 0 and not getattr(self.world, '_running', 0) and _decimal.getcontext() is not self.world.decimal_context:
            _decimal.setcontext(self.world.decimal_context)         # entering code of this world from the outside
        self.world._running = getattr(self.world, '_running', 0) + 1
        try:
            return self._run(stmts)
        finally:
            self.world._running -= 1

    def _run(self, stmts):
        try:
            self.block(stmts)
        except _Break:
            self.out.end = 'break'
        except _Continue:
            self.out.end = 'continue'
        except _Return as r:
            self.out.end = 'return'
            self.out.value = r.value
        except ExcRaised as r:
            self.out.end = 'raise'
            self.out.value = r.exc
            self.out.explicit = getattr(r, 'explicit', False)
        return self.out

    def _cov(self, node, outcome):
        """Coverage of the package's decisions by the witness tables (tools/branch_coverage.py): which outcome of which test was seen."""
        if COVERAGE is not None:
            m_ = getattr(node, '_module', None)
            if m_ is not None:
                COVERAGE['branches'].setdefault((m_.name, node.lineno, node.col_offset), set()).add(bool(outcome))
        return outcome

    def block(self, stmts):
        for s in stmts:
            try:
                self.stmt(s)
            except Unmodelled as exc:
                if not getattr(exc, 'located', False) and exc.args and getattr(s, 'lineno', None):
                    exc.located = True
                    exc.args = (f'{exc.args[0]} [while interpreting {getattr(self.m, "name", "?")}:{s.lineno}]',) + tuple(exc.args[1:])
                raise

    def stmt(self, s):
        self.world.steps += 1
        if COVERAGE is not None:
            m_ = getattr(s, '_module', None)
            if m_ is not None:
                COVERAGE['lines'].setdefault(m_.name, set()).add(s.lineno)
        if self.world.steps > getattr(self.world, 'budget', 400000):
            raise Unmodelled(f"interpretation budget exceeded ({getattr(self.world, 'budget', 400000)} statements)")
        if isinstance(s, ast.Assign):
            val = self.ev(s.value)
            for t in s.targets:
                self.store(t, val)
        elif isinstance(s, ast.AugAssign):
            cur = self.ev(s.target)
            val = self.ev(s.value)
            if isinstance(cur, (Opaque, Ref)) or isinstance(val, (Opaque, Ref)):
                self.store(s.target, Opaque('aug'))
            elif isinstance(cur, Rec) or isinstance(val, Rec):
                self.store(s.target, self._binop(s.op, cur, val))
            else:
                # the in-place protocol: a list / set / dict target is changed itself (every alias sees it), immutables are rebound
                try:
                    self.store(s.target, _INPLACE[type(s.op)](cur, val))
                except ZeroDivisionError:
                    raise ExcRaised(Ref('builtin:ZeroDivisionError'))
                except OverflowError:
                    raise ExcRaised(Ref('builtin:OverflowError'))
                except TypeError:
                    raise ExcRaised(Ref('builtin:TypeError'))
        elif isinstance(s, ast.If):
            if self._cov(s.test, self.truth(self.ev(s.test))):
                self.block(s.body)
            else:
                self.block(s.orelse)
        elif isinstance(s, ast.While) and self.while_once:
            # one iteration: the body *is* the decision (decision tables of loop guards)
            if self.truth(self.ev(s.test)):
                self.out.loop_entered = True
                try:
                    self.block(s.body)
                except _Break:
                    self.out.events.append(('<break>', ()))
                except _Continue:
                    pass
            else:
                self.out.loop_entered = False
        elif isinstance(s, ast.While):
            # concrete execution of the loop (work lists ...): bounded, anything longer is not modelled
            n_iter = 0
            broke = False
            while self._cov(s.test, self.truth(self.ev(s.test))):
                n_iter += 1
                if n_iter > 2048:
                    raise Unmodelled(f'while-loop at line {s.lineno} runs more than 2048 iterations on the abstract input')
                try:
                    self.block(s.body)
                except _Break:
                    broke = True
                    break
                except _Continue:
                    continue
            self.out.loop_entered = n_iter > 0
            if not broke and s.orelse:
                self.block(s.orelse)
        elif isinstance(s, ast.For):
            it = self._nt_seq(self.ev(s.iter))
            if isinstance(it, Rec) and isinstance(it.f.get('cls'), str):
                found, res = self._dunder(it, '__iter__')
                if found:
                    it = res
            if isinstance(it, (Opaque, Ref, Rec)) or not hasattr(it, '__iter__'):
                raise Unmodelled(f'for-loop over a symbolic iterable at line {s.lineno}')
            items = list(it)
            if len(items) > getattr(self.world, 'max_items', 256):
                raise Unmodelled(f'for-loop over more than {getattr(self.world, "max_items", 256)} items')
            broke = False
            for item in items:
                self.store(s.target, item)
                try:
                    self.block(s.body)
                except _Break:
                    broke = True
                    break
                except _Continue:
                    continue
            if not broke:
                _exhausted(it)
                self.block(s.orelse)
        elif isinstance(s, ast.Expr):
            self.ev(s.value)
        elif isinstance(s, ast.Pass):
            pass
        elif isinstance(s, ast.Break):
            raise _Break()
        elif isinstance(s, ast.Continue):
            raise _Continue()
        elif isinstance(s, ast.Return):
            raise _Return(self.ev(s.value) if s.value is not None else None)
        elif isinstance(s, ast.Raise):
            exc = self.ev_exc(s.exc)
            r_ = ExcRaised(exc)
            r_.explicit = getattr(s, '_module', None) is not None      # a raise statement of the package (not an exception the interpreter inferred)
            raise r_
        elif isinstance(s, ast.Assert):
            if not self.truth(self.ev(s.test)):
                raise ExcRaised(Ref('builtin:AssertionError'))
        elif isinstance(s, (ast.With, ast.AsyncWith)):
            self._with(s, 0)
        elif isinstance(s, ast.Try):
            # model: body runs; a raised *python-level* exception class is matched by name
            try:
                try:
                    self.block(s.body)
                except ExcRaised as r:
                    handled = False
                    for h in s.handlers:
                        if h.type is None or self._exc_matches(r.exc, h.type):
                            if h.name:
                                self.env[h.name] = r.exc
                            self._handling = getattr(self, '_handling', []) + [r.exc]
                            try:
                                self.block(h.body)
                            finally:
                                self._handling = self._handling[:-1]
                            handled = True
                            break
                    if not handled:
                        raise
                else:
                    self.block(s.orelse)
            finally:
                # the finally clause runs on every way out (fall through, return, break, continue, exception)
                self.block(s.finalbody)
        elif isinstance(s, ast.FunctionDef) and all(self._transparent_decorator(d) for d in s.decorator_list):
            # definition of a local function: a closure over the current environment
            self.env[s.name] = Closure(s, self.env, self.m, list(self.scopes), self.self_class, self.def_class, self.first_param)
        elif isinstance(s, ast.Global):
            self.global_names.update(s.names)
        elif hasattr(ast, 'Match') and isinstance(s, ast.Match):
            self._match_stmt(s)
        elif isinstance(s, ast.Nonlocal):
            if getattr(self, 'nonlocal_env', None) is None:
                raise Unmodelled('nonlocal rebinding outside a closure the interpreter created')
            self.__dict__.setdefault('nonlocal_names', set()).update(s.names)
        elif isinstance(s, (ast.Import, ast.ImportFrom)):
            pass    # local imports: names are resolved through the module's import table
        elif isinstance(s, ast.Delete):
            for t in s.targets:
                if isinstance(t, ast.Name):
                    self.env.pop(t.id, None)
                elif isinstance(t, ast.Subscript):
                    base = self.ev(t.value)
                    if isinstance(base, (dict, list)):
                        try:
                            del base[self.ev(t.slice)]
                        except (KeyError, IndexError) as exc:
                            raise ExcRaised(Ref(f'builtin:{type(exc).__name__}'))
                    else:
                        raise Unmodelled(f'del on {base!r}')
                else:
                    raise Unmodelled('del target')
        else:
            raise Unmodelled(f'statement {type(s).__name__} at line {s.lineno}')

    def _exc_matches(self, exc, type_node):
        ref = self.a.res.resolve(type_node, self.m) if not isinstance(type_node, ast.Tuple) else \
            tuple(self.a.res.resolve(e, self.m) for e in type_node.elts)
        unresolved_ = ref is None or (isinstance(ref, tuple) and any(r_ is None for r_ in ref)) \
            or (isinstance(type_node, ast.Name) and type_node.id in self.env)
        if unresolved_:
            # `except tolerated:` - the classes are whatever the expression evaluates to
            val_ = self.ev(type_node)
            vals_ = val_ if isinstance(val_, (tuple, list)) else (val_,)
            if not all(isinstance(v_, Ref) for v_ in vals_):
                raise Unmodelled(f'except clause over {val_!r}')
            ref = tuple(v_.ref for v_ in vals_)
        if self.isinstance_fn is None or (isinstance(exc, Ref) and exc.ref.startswith('builtin:')):
            return self._isinstance(exc, ref)
        return self.isinstance_fn(exc, ref) or (isinstance(exc, Ref) and self._isinstance(exc, ref))

    def _exc_is(self, exc, cref):
        if self.isinstance_fn is None or (isinstance(exc, Ref) and exc.ref.startswith('builtin:')):
            return self._isinstance(exc, cref)
        return self.isinstance_fn(exc, cref) or (isinstance(exc, Ref) and self._isinstance(exc, cref))

    def ev_exc(self, node):
        if node is None:
            handling = getattr(self, '_handling', [])
            return handling[-1] if handling else Opaque('reraise')
        if isinstance(node, ast.Call) and isinstance(node.func, ast.Attribute) and node.func.attr == 'with_traceback':
            return self.ev_exc(node.func.value)
        if isinstance(node, ast.Call):
            ref = self.a.res.resolve(node.func, self.m)
            if ref and not (ref.startswith('builtin:') or self._is_pkg_class(ref) or ref.startswith('ext:')):
                ref = None          # a call of a function that builds the exception: its value is what is raised
            if ref:
                if node.args and not node.keywords and ref.startswith('builtin:'):
                    # the message of a Python-level exception: kept as text, parts that are not known read '?'
                    saved_ = getattr(self, '_lenient_fstring', False)
                    self._lenient_fstring = True
                    try:
                        msg_ = self._safe_ev(node.args[0])
                    finally:
                        self._lenient_fstring = saved_
                    if isinstance(msg_, str):
                        return MsgRef(ref, msg_)
                return Ref(ref)
        ref = self.a.res.resolve(node, self.m) if isinstance(node, (ast.Name, ast.Attribute)) else None
        if ref:
            return Ref(ref)
        v = self.ev(node)
        return v

    def _namedtuple_fields(self, ref):
        """Field names of a class one of whose bases is written collections.namedtuple('Name', fields); None otherwise."""
        cache_ = self.a.__dict__.setdefault('_nt_fields_cache', {})
        if ref in cache_:
            return cache_[ref]
        out_ = None
        try:
            mro_ = self.a.res.mro(ref)
        except Exception:       # noqa: BLE001 - not a class of the package
            mro_ = []
        for m_, cnode_ in mro_:
            for b_ in cnode_.bases:
                if isinstance(b_, ast.Call) and self.a.res.resolve(b_.func, m_) == 'ext:collections.namedtuple' and len(b_.args) >= 2:
                    try:
                        fields_ = ast.literal_eval(b_.args[1])
                    except ValueError:
                        continue
                    if isinstance(fields_, str):
                        fields_ = fields_.replace(',', ' ').split()
                    out_ = [str(f_) for f_ in fields_]
        cache_[ref] = out_
        return out_

    @staticmethod
    def _nt_seq(v):
        """A NamedTuple instance as the tuple of its fields; anything else unchanged."""
        if isinstance(v, Rec) and '__nt__' in v.f:
            return tuple(v.f[n_] for n_ in v.f['__nt__'])
        return v

    def store(self, t, val):
        if isinstance(t, ast.Name):
            if t.id in self.__dict__.get('nonlocal_names', ()):
                self.nonlocal_env[t.id] = val        # the variable of the enclosing function (its live environment)
                self.env[t.id] = val
                return
            if t.id in self.global_names:
                ref = self.a.res.resolve(t, self.m) or f'pkg:{self.m.name}:{t.id}'
                self.world.globals[ref] = val
            else:
                self.env[t.id] = val
        elif isinstance(t, ast.Attribute):
            base = self.ev(t.value)
            if isinstance(base, Rec):
                base.set(t.attr, val)
            elif isinstance(base, Ref) and self._is_pkg_class(base.ref):
                self.world.classattrs[(base.ref, t.attr)] = val
            elif isinstance(base, PyModel):
                setattr(base, t.attr, val)
            elif isinstance(base, (Closure, LambdaVal, RawFunc)):
                base.__dict__.setdefault('attrs', {})[t.attr] = val      # function attributes (__name__, __doc__, ...) carry no behaviour
            elif isinstance(base, _decimal.Context) and _concrete(val):
                try:
                    setattr(base, t.attr, val)
                except (TypeError, ValueError) as exc:
                    raise ExcRaised(Ref(f'builtin:{type(exc).__name__}'))
            else:
                raise Unmodelled(f'attribute store on {base!r}')
        elif isinstance(t, (ast.Tuple, ast.List)):
            seq_ = self._nt_seq(val)
            if isinstance(seq_, (Opaque, Ref)) or (isinstance(seq_, Rec) and '__native__' not in seq_.f):
                raise Unmodelled('unpacking of a symbolic value')
            vals = list(seq_.f['__native__'] if isinstance(seq_, Rec) else seq_)
            stars = [i_ for i_, e_ in enumerate(t.elts) if isinstance(e_, ast.Starred)]
            if stars:
                i_ = stars[0]
                after = len(t.elts) - i_ - 1
                if len(stars) > 1 or len(vals) < len(t.elts) - 1:
                    raise ExcRaised(Ref('builtin:ValueError'))
                for tt, vv in zip(t.elts[:i_], vals[:i_]):
                    self.store(tt, vv)
                self.store(t.elts[i_].value, list(vals[i_:len(vals) - after]))
                for tt, vv in zip(t.elts[i_ + 1:], vals[len(vals) - after:]):
                    self.store(tt, vv)
            else:
                if len(vals) != len(t.elts):
                    raise ExcRaised(Ref('builtin:ValueError'))      # too many / not enough values to unpack
                for tt, vv in zip(t.elts, vals):
                    self.store(tt, vv)
        elif isinstance(t, ast.Subscript) and not isinstance(t.slice, ast.Slice):
            base = self.ev(t.value)
            if isinstance(base, (dict, list)):
                base[self.ev(t.slice)] = val
            elif isinstance(base, Rec) and self._dunder(base, '__setitem__', self.ev(t.slice), val)[0]:
                pass
            elif isinstance(base, PyModel) and hasattr(base, '__setitem__'):
                base[self.ev(t.slice)] = val
            else:
                raise Unmodelled(f'subscript store on {base!r}')
        elif isinstance(t, ast.Subscript):
            base = self.ev(t.value)
            sl_ = slice(*[self.ev(x_) if x_ is not None else None for x_ in (t.slice.lower, t.slice.upper, t.slice.step)])
            if not all(x_ is None or (isinstance(x_, int) and not isinstance(x_, bool)) for x_ in (sl_.start, sl_.stop, sl_.step)):
                raise Unmodelled('slice store with symbolic bounds')
            seq_ = self._nt_seq(val)
            if isinstance(base, list) and isinstance(sl_, slice) and isinstance(seq_, (list, tuple, str)):
                try:
                    base[sl_] = seq_
                except ValueError:
                    raise ExcRaised(Ref('builtin:ValueError'))       # extended slice of another size
            else:
                raise Unmodelled(f'slice store on {base!r}')
        else:
            raise Unmodelled(f'store target {type(t).__name__}')

    while_once = False      # True: a while statement is one guarded iteration (decision table of its test)
    dunder_truth = True    # True: the truth value of an abstract instance is decided by inlining its class's __bool__

    def truth(self, v):
        if isinstance(v, Ref) and (v.ref.startswith('builtin:') or self._is_pkg_class(v.ref)
                                   or isinstance(self.a.res.lookup(v.ref)[1], ast.FunctionDef)) and '(' not in v.ref:
            # a class, a function, or an exception instance known by its class: true unless the class says otherwise
            if not self._is_pkg_class(v.ref) or (self._find_method(v.ref, '__bool__')[1] is None and self._find_method(v.ref, '__len__')[1] is None):
                return True
        if isinstance(v, (Opaque, Ref)):
            raise Unmodelled(f'truth value of symbolic {v!r}')
        if isinstance(v, Rec):
            # abstract value instance with a known payload: truth of the payload (ExcelType.__bool__)
            if v.f.get('truthy') is not None:
                return bool(v.f['truthy'])
            if '__native__' in v.f and isinstance(v.f.get('cls'), str) and self._find_method(v.f['cls'], '__bool__')[1] is None \
                    and self._find_method(v.f['cls'], '__len__')[1] is None:
                return bool(v.f['__native__'])
            if self.dunder_truth and isinstance(v.f.get('cls'), str):
                cm_, meth_ = self.a.res.class_attr(v.f['cls'], '__bool__')
                if isinstance(meth_, ast.FunctionDef):
                    sub_sc, self.self_class = self.self_class, v.f['cls']
                    try:
                        return bool(self._inline(cm_, meth_, [v], {}))
                    finally:
                        self.self_class = sub_sc
            return True
        return bool(v)

    # -- expressions -----------------------------------------------------
    def ev(self, n):
        if isinstance(n, ast.Constant):
            return n.value
        if isinstance(n, ast.Call):
            return self.call(n)
        if isinstance(n, ast.Name):
            if n.id in self.env and n.id not in self.global_names:
                return self.env[n.id]
            if self.scopes and n.id not in self.global_names:
                lazy = self._lazy_local(n.id)
                if lazy is not None:
                    return self.ev(lazy)
            gref = self.a.res.resolve(n, self.m)
            return self._global(gref, n)
        if isinstance(n, ast.Attribute):
            if isinstance(n.value, ast.Name) and n.value.id in ('self', 'cls') \
                    and n.value.id not in self.env and self.self_class:
                return self.a.folder.fold(n, self.m, None, self.self_class)
            # module.NAME: a module-level object of the package (one per world)
            root_ = n
            while isinstance(root_, ast.Attribute):
                root_ = root_.value
            if isinstance(root_, ast.Name) and root_.id not in self.env:
                gref_ = self.a.res.resolve(n, self.m)
                if gref_ and gref_.startswith('pkg:') and gref_.count(':') == 2 and '.' not in gref_.split(':', 2)[2]:
                    gm_, gnode_ = self.a.res.lookup(gref_)
                    if gref_ in self.world.globals or (gnode_ is not None and not isinstance(gnode_, (ast.FunctionDef, ast.ClassDef))):
                        return self._global(gref_, n)
                if gref_ and gref_.startswith('ext:typing.') and gref_.rpartition('.')[2] in _TYPING_ORIGINS:
                    return Ref(gref_)
                if gref_ and gref_.startswith('ext:') and (gref_[4:].split('.')[0] in _PURE_LIBS or gref_[4:].split('.')[0] in _FLAG_LIBS
                                                            or gref_ in _EXT_VALUES) and gref_ not in self.call_models:
                    val_ = self._global(gref_, n)
                    if not isinstance(val_, Ref):
                        return val_
            try:
                base = self.ev(n.value)
            except Unmodelled:
                base = None
            if isinstance(base, Rec):
                if n.attr not in base.f and isinstance(base.f.get('cls'), str):
                    return self._class_level_attr(base, base.f['cls'], n.attr)
                return base.get(n.attr)
            if isinstance(base, Ref) and self._is_pkg_class(base.ref):
                if n.attr == '__name__':
                    return base.ref.rpartition(':')[2].rpartition('.')[2]
                members_ = self._enum_members(base.ref)
                if members_ is not None and n.attr in members_:
                    return members_[n.attr]
                for cm_, cnode_ in self.a.res.mro(base.ref):
                    key_ = (self.a.res.class_ref(cm_, cnode_), n.attr)
                    if key_ in self.world.classattrs:
                        return self.world.classattrs[key_]
                cm_, val_ = self.a.res.class_attr(base.ref, n.attr)
                if val_ is not None and not isinstance(val_, (ast.FunctionDef, ast.ClassDef)):
                    v_ = self.a.folder.fold(val_, cm_, None, base.ref)
                    if isinstance(v_, (dict, list, set)):
                        for cm2_, cnode2_ in self.a.res.mro(base.ref):
                            if any(isinstance(st_, ast.Assign) and any(isinstance(t_, ast.Name) and t_.id == n.attr for t_ in st_.targets)
                                   for st_ in cnode2_.body):
                                self.world.classattrs[(self.a.res.class_ref(cm2_, cnode2_), n.attr)] = v_
                                break
                    return v_
                if isinstance(val_, ast.FunctionDef):
                    return Ref(f'{base.ref}.{n.attr}')
            if isinstance(base, Ref) and n.attr in ('__traceback__', '__cause__', '__context__') and (
                    base.ref.startswith('builtin:') or self._is_pkg_class(base.ref)):
                return Opaque(n.attr)
            if isinstance(base, Ref) and n.attr == 'args' and base.ref.startswith('builtin:'):
                return Opaque('exception args')
            if isinstance(base, Ref) and n.attr == '__name__' and base.ref.startswith(('pkg:', 'builtin:')):
                return base.ref.rpartition(':')[2].rpartition('.')[2]
            if isinstance(base, (Closure, RawFunc, LambdaVal)):
                attrs_ = base.__dict__.get('attrs', {})
                if n.attr in attrs_:
                    return attrs_[n.attr]
                if n.attr in ('__name__', '__qualname__'):
                    return base.fnode.name if hasattr(base, 'fnode') else '<lambda>'
                if n.attr == '__doc__':
                    return ast.get_docstring(base.fnode) if hasattr(base, 'fnode') else None
                if n.attr == '__wrapped__':
                    raise ExcRaised(Ref('builtin:AttributeError'))
            if isinstance(base, Ref) and n.attr in ('__name__', '__qualname__') and base.ref.startswith('ext:'):
                return base.ref.rpartition('.')[2]
            if isinstance(base, Obj):
                if n.attr in base.fields:
                    return base.fields[n.attr]
                raise Unmodelled(f'{base!r} has no field {n.attr}')
            if isinstance(base, PyModel):
                if not hasattr(base, n.attr):
                    raise Unmodelled(f'model object has no attribute {n.attr}')
                return getattr(base, n.attr)
            if isinstance(base, _PURE_TYPES):
                try:
                    return getattr(base, n.attr)
                except AttributeError:
                    raise ExcRaised(Ref('builtin:AttributeError'))
            if isinstance(base, (list, dict, set, str, tuple, frozenset)) and not isinstance(n.ctx, ast.Store) and hasattr(type(base), n.attr) \
                    and callable(getattr(type(base), n.attr)) and not n.attr.startswith('__'):
                return NativeMethod(base, n.attr)       # a bound method of a native container taken as a value (`append = out.append`)
            try:
                return self.a.folder.fold(n, self.m, None, self.self_class)
            except Unfoldable:
                ref = self.a.res.resolve(n, self.m)
                if ref:
                    return Ref(ref)
                raise Unmodelled(f'attribute {ast.unparse(n)}')
        if isinstance(n, ast.Tuple):
            return tuple(self.ev(e) for e in n.elts)
        if isinstance(n, ast.List):
            return [self.ev(e) for e in n.elts]
        if isinstance(n, ast.Set):
            return set(self.ev(e) for e in n.elts)
        if isinstance(n, ast.Dict):
            out_ = {}
            for k, v in zip(n.keys, n.values):
                if k is None:           # {**mapping}
                    mp_ = self.ev(v)
                    if isinstance(mp_, Rec) and '__native__' in mp_.f:
                        mp_ = mp_.f['__native__']
                    if not isinstance(mp_, dict):
                        raise Unmodelled('** of a symbolic mapping in a dict display')
                    out_.update(mp_)
                else:
                    out_[self.ev(k)] = self.ev(v)
            return out_
        if isinstance(n, ast.BoolOp):
            res = None
            for v in n.values:
                res = self.ev(v)
                t = self._cov(v, self.truth(res))
                if isinstance(n.op, ast.And) and not t:
                    return res
                if isinstance(n.op, ast.Or) and t:
                    return res
            return res
        if isinstance(n, ast.UnaryOp):
            v = self.ev(n.operand)
            if isinstance(n.op, ast.Not):
                return not self.truth(v)
            if isinstance(v, Rec):
                name_ = {ast.USub: '__neg__', ast.UAdd: '__pos__', ast.Invert: '__invert__'}[type(n.op)]
                found, res = self._dunder(v, name_)
                if found:
                    return res
                raise Unmodelled(f'unary {name_} on {v!r}')
            if isinstance(v, (Opaque, Ref)):
                raise Unmodelled('unary op on symbolic value')
            if isinstance(n.op, ast.USub):
                return -v
            if isinstance(n.op, ast.UAdd):
                return +v
            if isinstance(n.op, ast.Invert):
                return ~v
        if isinstance(n, ast.BinOp):
            l, r = self.ev(n.left), self.ev(n.right)
            return self._binop(n.op, l, r)
        if isinstance(n, ast.Compare):
            left = self.ev(n.left)
            for op, comp in zip(n.ops, n.comparators):
                right = self.ev(comp)
                ok = self._compare(op, left, right, n)
                if len(n.ops) == 1:
                    return ok
                if not self.truth(ok):
                    return False
                left = right
            return True
        if isinstance(n, ast.IfExp):
            return self.ev(n.body) if self._cov(n.test, self.truth(self.ev(n.test))) else self.ev(n.orelse)
        if isinstance(n, ast.Subscript):
            base = self.ev(n.value)
            if isinstance(n.slice, ast.Slice):
                lo = self.ev(n.slice.lower) if n.slice.lower else None
                hi = self.ev(n.slice.upper) if n.slice.upper else None
                st = self.ev(n.slice.step) if n.slice.step else None
                if isinstance(base, (Opaque, Ref)):
                    return Opaque('slice')
                if isinstance(base, Rec):
                    found, res = self._dunder(base, '__getitem__', slice(lo, hi, st))
                    if found:
                        return res
                    raise Unmodelled(f'slice of {base!r}')
                return base[lo:hi:st]
            if isinstance(base, Ref) and base.ref.startswith('ext:typing.') and base.ref.rpartition('.')[2] in _TYPING_ORIGINS:
                short_ = base.ref.rpartition('.')[2]
                elts_ = n.slice.elts if isinstance(n.slice, ast.Tuple) else [n.slice]
                targs_ = [self.ev(e_) for e_ in elts_ if not (isinstance(e_, ast.Constant) and e_.value is Ellipsis)]
                targs_ = [Ref('builtin:NoneType') if a_ is None else a_ for a_ in targs_]
                if short_ == 'Optional':
                    targs_.append(Ref('builtin:NoneType'))
                return TypingAlias(Ref(_TYPING_ORIGINS[short_]), targs_)
            idx = self.ev(n.slice)
            if isinstance(base, Rec) and '__nt__' in base.f:
                base = self._nt_seq(base)
            if isinstance(base, Rec):
                found, res = self._dunder(base, '__getitem__', idx)
                if found:
                    return res
                raise Unmodelled(f'subscript of {base!r}')
            if isinstance(base, (Opaque, Ref)) or isinstance(idx, (Opaque,)):
                return Opaque('subscript')
            try:
                return base[idx]
            except (KeyError, IndexError) as exc:
                r_ = ExcRaised(Ref(f'builtin:{type(exc).__name__}'))
                # a missing key / index of a native container the package itself built: Python's own verdict, as good as a raise statement
                r_.explicit = getattr(n, '_module', None) is not None and isinstance(base, (dict, list, tuple, str)) and _concrete(idx)
                raise r_
        if isinstance(n, ast.JoinedStr):
            if self.world.__dict__.get('text_budget', 1) < 0:
                raise Unmodelled('texts longer than 4 MB in total were built (a message that multiplies at every level?)')
            parts = []
            for v in n.values:
                if isinstance(v, ast.Constant):
                    parts.append(str(v.value))
                elif isinstance(v, ast.FormattedValue):
                    val = self._safe_ev(v.value)
                    lenient_ = getattr(self, '_lenient_fstring', False)
                    if isinstance(val, MsgRef):
                        name_ = val.ref.rpartition(':')[2]
                        val = f'{name_}({val.message!r})' if v.conversion == 114 else val.message
                        conv = -1
                    elif isinstance(val, Rec) and isinstance(val.f.get('cls'), str):
                        found, res = self._dunder(val, '__repr__' if v.conversion == 114 else '__str__')
                        if not found or not isinstance(res, str):
                            if lenient_:
                                parts.append('?')
                                continue
                            return Opaque('fstring')
                        val = res
                        conv = -1
                    else:
                        conv = v.conversion
                    if isinstance(val, Ref) and lenient_ and (val.ref.startswith('builtin:') or self._is_pkg_class(val.ref)):
                        val = val.ref.rpartition(':')[2] + ('()' if conv == 114 else '')
                        conv = -1
                    if isinstance(val, (Opaque, Ref, Rec, PyModel, LambdaVal, BoundMethod)):
                        if lenient_:
                            parts.append('?')
                            continue
                        return Opaque('fstring')
                    spec = ''
                    if v.format_spec is not None:
                        spec = self.ev(v.format_spec)
                        if not isinstance(spec, str):
                            return Opaque('fstring')
                    if conv == 114:
                        val = repr(val)
                    elif conv == 115:
                        val = str(val)
                    elif conv == 97:
                        val = ascii(val)
                    try:
                        parts.append(format(val, spec))
                    except (ValueError, TypeError) as exc:
                        raise ExcRaised(Ref(f'builtin:{type(exc).__name__}'))
                else:
                    return Opaque('fstring')
            text_ = ''.join(parts)
            if len(text_) > 65536:
                # long texts are charged to a budget of the world: a message that multiplies at every level is given up on, not computed
                self.world.__dict__['text_budget'] = self.world.__dict__.get('text_budget', 4 << 20) - len(text_)
            return text_
        if isinstance(n, (ast.ListComp, ast.GeneratorExp, ast.SetComp)):
            out = []
            self._comp(n.generators, 0, lambda: out.append(self.ev(n.elt)))
            if isinstance(n, ast.GeneratorExp):
                return _GenList(out)            # evaluated eagerly; next() consumes it from the front like the iterator it stands for
            return set(out) if isinstance(n, ast.SetComp) else out
        if isinstance(n, ast.DictComp):
            outd = {}
            self._comp(n.generators, 0, lambda: outd.__setitem__(self.ev(n.key), self.ev(n.value)))
            return outd
        if isinstance(n, ast.NamedExpr):
            val = self.ev(n.value)
            self.store(n.target, val)
            return val
        if isinstance(n, ast.Lambda):
            return LambdaVal(n, dict(self.env))
        if isinstance(n, ast.Yield) and self._on_yield is not None:
            self._on_yield(self.ev(n.value) if n.value is not None else None)
            return None
        if isinstance(n, ast.Yield) and hasattr(self, '_yielded'):
            self._yielded.append(self.ev(n.value) if n.value is not None else None)
            return None
        if isinstance(n, ast.YieldFrom) and hasattr(self, '_yielded'):
            self._yielded.extend(list(self.ev(n.value)))
            return None
        if isinstance(n, ast.Call):
            return self.call(n)
        raise Unmodelled(f'expression {type(n).__name__}: {ast.unparse(n)[:60]}')

    def call(self, n):
        fn = n.func
        # recorded effects
        if isinstance(fn, ast.Attribute):
            root = fn
            while isinstance(root, ast.Attribute):
                root = root.value
            unknown = isinstance(root, ast.Name) and self.record_unknown and root.id not in self.env \
                and self.a.res.resolve(root, self.m) is None
            if isinstance(root, ast.Name) and (root.id in self.effects or unknown):
                label = ast.unparse(fn)
                args = tuple(self._safe_ev(a) for a in n.args)
                self.out.events.append((label, args))
                return Opaque(label)
        args = []
        for a in n.args:
            if isinstance(a, ast.Starred):
                seq = self._nt_seq(self.ev(a.value))
                if isinstance(seq, (Opaque, Ref, Rec)):
                    raise Unmodelled('starred argument of a symbolic sequence')
                args.extend(list(seq))
            else:
                args.append(self.ev(a))
        kwargs = {}
        for k in n.keywords:
            if k.arg is None:
                mp = self.ev(k.value)
                if not isinstance(mp, dict):
                    raise Unmodelled('** of a symbolic mapping')
                kwargs.update(mp)
            else:
                kwargs[k.arg] = self.ev(k.value)
        if isinstance(fn, ast.Attribute):
            if isinstance(fn.value, ast.Call) and isinstance(fn.value.func, ast.Name) and fn.value.func.id == 'super' \
                    and not fn.value.args and 'super' not in self.env:
                return self._super_call(fn.attr, args, kwargs)
            recv = self._safe_ev(fn.value)
            if fn.attr == 'with_traceback' and isinstance(recv, (Ref, Rec)):
                return recv
            if isinstance(recv, PyModel) and hasattr(recv, fn.attr):
                return getattr(recv, fn.attr)(*args, **kwargs)
            if isinstance(recv, Opaque) and recv.label not in ('aug',) and not isinstance(fn.value, ast.Name):
                return Opaque(f'{recv.label}.{fn.attr}()')
            if isinstance(recv, Rec) and 'cls' in recv.f and isinstance(recv.f['cls'], str) and self.depth >= self.max_depth and self.inline_pkg \
                    and self._find_method(recv.f['cls'], fn.attr)[1] is not None:
                raise Unmodelled(f'inlining deeper than {self.max_depth} calls at {fn.attr}')
            if isinstance(recv, Rec) and 'cls' in recv.f and isinstance(recv.f['cls'], str) and self.depth < self.max_depth \
                    and not (isinstance(fn.value, ast.Name) and fn.value.id in self.effects):
                if fn.attr in recv.f and isinstance(recv.f[fn.attr], (LambdaVal, BoundMethod, PyModel, Ref, RawFunc, Closure, Partial)):
                    return self.invoke(recv.f[fn.attr], args, kwargs)
                key_ = f"{recv.f['cls']}.{fn.attr}"
                if key_ in self.call_models:
                    if getattr(self.call_models[key_], 'wants_interp', False):
                        return self.call_models[key_](self, recv, *args, **kwargs)
                    return self.call_models[key_](recv, *args, **kwargs)
                cm_, meth_ = self._find_method(recv.f['cls'], fn.attr)
                if meth_ is not None:
                    return self._call_method(recv, recv.f['cls'], cm_, meth_, args, kwargs)
                made_ = self._class_callable(recv.f['cls'], fn.attr)
                if made_ is not None:
                    return self.invoke(made_, [recv] + list(args), kwargs)
                if '__nt__' in recv.f and fn.attr in ('_make', '_replace', '_asdict', 'index', 'count'):
                    if fn.attr == '_make' and len(args) == 1:
                        return self._construct(recv.f['cls'], list(self._nt_seq(args[0])), {})
                    if fn.attr == '_replace' and not args:
                        cur_ = {n_: recv.f[n_] for n_ in recv.f['__nt__']}
                        cur_.update(kwargs)
                        return self._construct(recv.f['cls'], [], cur_)
                    if fn.attr == '_asdict' and not args:
                        return {n_: recv.f[n_] for n_ in recv.f['__nt__']}
                    return getattr(self._nt_seq(recv), fn.attr)(*args)
                if '__native__' in recv.f and hasattr(recv.f['__native__'], fn.attr) and not fn.attr.startswith('__'):
                    # instance of a subclass of a builtin container: the inherited builtin method on the stored items
                    try:
                        res_ = getattr(recv.f['__native__'], fn.attr)(*args, **kwargs)
                    except (KeyError, IndexError, ValueError, TypeError) as exc:
                        raise ExcRaised(Ref(f'builtin:{type(exc).__name__}'))
                    return list(res_) if fn.attr in ('items', 'keys', 'values') else res_
            if isinstance(recv, Ref) and self._is_pkg_class(recv.ref) and fn.attr == '_make' and len(args) == 1 and self._namedtuple_fields(recv.ref) is not None:
                return self._construct(recv.ref, list(self._nt_seq(args[0])), {})
            if isinstance(recv, Ref) and self._is_pkg_class(recv.ref) and self.depth < self.max_depth:
                key_ = f'{recv.ref}.{fn.attr}'
                if key_ in self.call_models:
                    return self.call_models[key_](*args, **kwargs)
                cm_, meth_ = self._find_method(recv.ref, fn.attr)
                if meth_ is not None:
                    defref_ = self._def_class_of(cm_, meth_)
                    for alt_ in (f'{defref_}.{fn.attr}',):
                        if alt_ in self.call_models:
                            return self.call_models[alt_](*args, **kwargs)
                    if self.inline_pkg or self.depth > 0 or self._decorated(meth_, 'classmethod'):
                        return self._call_method(None, recv.ref, cm_, meth_, args, kwargs)
            if isinstance(recv, _PURE_TYPES) and all(_concrete(a_) for a_ in args) and all(_concrete(v_) for v_ in kwargs.values()):
                try:
                    return getattr(recv, fn.attr)(*args, **kwargs)
                except Exception as exc:
                    raise ExcRaised(_exc_ref(exc))
            if isinstance(recv, str) and fn.attr == 'format' and any(isinstance(a_, Rec) for a_ in list(args) + list(kwargs.values())):
                conv_ = lambda v_: self._builtin_on_rec('str', [v_])[1] if isinstance(v_, Rec) and isinstance(v_.f.get('cls'), str) else v_   # noqa: E731
                args = [conv_(a_) for a_ in args]
                kwargs = {k_: conv_(v_) for k_, v_ in kwargs.items()}
            if isinstance(recv, str) and hasattr(str, fn.attr) and not fn.attr.startswith('__') \
                    and all(_concrete(a_) for a_ in args) and all(_concrete(v_) for v_ in kwargs.values()):
                try:
                    return getattr(recv, fn.attr)(*args, **kwargs)
                except Exception as exc:
                    raise ExcRaised(_exc_ref(exc))
            if isinstance(recv, (str, int, float)) and not isinstance(recv, bool) and (
                    fn.attr in _STR_METHODS or fn.attr in _NUM_DUNDERS):
                try:
                    return getattr(recv, fn.attr)(*args)
                except (ValueError, TypeError, IndexError, ZeroDivisionError, OverflowError) as exc:
                    raise ExcRaised(Ref(f'builtin:{type(exc).__name__}'))
            if isinstance(recv, dict) and fn.attr in ('get', 'items', 'keys', 'values', 'setdefault', 'pop', 'clear', 'copy', 'popitem', 'fromkeys'):
                try:
                    res = getattr(recv, fn.attr)(*args)
                except KeyError:
                    raise ExcRaised(Ref('builtin:KeyError'))
                return list(res) if fn.attr in ('items', 'keys', 'values') else res
            if isinstance(recv, (set, dict)) and fn.attr in ('add', 'update', 'discard'):
                return getattr(recv, fn.attr)(*args)
            if isinstance(recv, (set, frozenset)) and fn.attr in ('issubset', 'issuperset', 'isdisjoint', 'union', 'intersection', 'difference'):
                return getattr(recv, fn.attr)(*args)
            if isinstance(recv, (list, tuple)) and fn.attr in ('index', 'count'):
                return getattr(recv, fn.attr)(*args)
            if isinstance(recv, list) and fn.attr in ('append', 'pop', 'extend', 'insert', 'reverse', 'clear', 'copy'):
                try:
                    return getattr(recv, fn.attr)(*args)
                except IndexError:
                    raise ExcRaised(Ref('builtin:IndexError'))
            if isinstance(recv, list) and fn.attr == 'remove' and len(args) == 1:
                for i_, e_ in enumerate(recv):
                    if e_ is args[0] or self._eq(e_, args[0]):
                        del recv[i_]
                        return None
                raise ExcRaised(Ref('builtin:ValueError'))
            if isinstance(recv, list) and fn.attr == 'sort' and not kwargs and not any(isinstance(x_, Rec) for x_ in recv):
                try:
                    recv.sort()
                    return None
                except TypeError:
                    raise ExcRaised(Ref('builtin:TypeError'))
        if isinstance(fn, ast.Attribute) and (isinstance(recv, (list, tuple, dict, set, frozenset, str, int, float, bytes)) or (
                recv is None and isinstance(self._safe_ev(fn.value), type(None)) and not isinstance(fn.value, ast.Name))) \
                and not hasattr(recv, fn.attr) and fn.attr != 'next':
            raise ExcRaised(Ref('builtin:AttributeError'))
        if isinstance(fn, ast.Attribute) and fn.attr == 'next' and isinstance(recv, (list, tuple)):
            raise ExcRaised(Ref('builtin:AttributeError'))      # iterators have __next__, not .next (a Python 2 idiom)
        text = ast.unparse(fn) if self.call_models else ''
        ref = None
        if not isinstance(fn, (ast.Name, ast.Attribute)):
            callee = self._safe_ev(fn)
            if isinstance(callee, Ref):
                ref = callee.ref
            elif isinstance(callee, (BoundMethod, LambdaVal, Closure, RawFunc, Partial, NativeMethod)) or (isinstance(callee, PyModel) and callable(callee)):
                return self.invoke(callee, args, kwargs)
            elif isinstance(callee, Rec) and isinstance(callee.f.get('cls'), str) and self._find_method(callee.f['cls'], '__call__')[1] is not None:
                return self.invoke(callee, args, kwargs)
        elif isinstance(fn, ast.Attribute):
            callee = self._safe_ev(fn)
            if isinstance(callee, Ref) and not callee.ref.startswith('ext:'):
                ref = callee.ref
            elif isinstance(callee, Rec) and isinstance(callee.f.get('cls'), str) and self._find_method(callee.f['cls'], '__call__')[1] is not None:
                return self.invoke(callee, args, kwargs)
        if ref is not None:
            pass
        elif isinstance(fn, ast.Name) and fn.id in self.env:
            bound = self.env[fn.id]
            if isinstance(bound, Ref):
                ref = bound.ref
            elif callable(bound) and isinstance(bound, PyModel):
                return bound(*args, **kwargs)
            elif isinstance(bound, (BoundMethod, Closure, RawFunc, Partial, NativeMethod)):
                return self.invoke(bound, args, kwargs)
            elif isinstance(bound, Rec) and isinstance(bound.f.get('cls'), str) and self._find_method(bound.f['cls'], '__call__')[1] is not None:
                return self.invoke(bound, args, kwargs)
            elif callable(bound) and isinstance(getattr(bound, '__self__', None), _PURE_TYPES) \
                    and all(_concrete(a_) for a_ in args) and all(_concrete(v_) for v_ in kwargs.values()):
                try:
                    return bound(*args, **kwargs)
                except Exception as exc:
                    raise ExcRaised(Ref(f'builtin:{type(exc).__name__}'))
        elif isinstance(fn, (ast.Name, ast.Attribute)):
            ref = self.a.res.resolve(fn, self.m)
        for key in (ref, text):
            if key in self.call_models:
                model_ = self.call_models[key]
                if getattr(model_, 'wants_interp', False):
                    return model_(self, *args, **kwargs)     # a model expressed in terms of the interpreter's own operations
                return model_(*args, **kwargs)
        done_, res_ = self._unbound_builtin(ref, args, kwargs)
        if done_:
            return res_
        if ref == 'ext:contextlib.suppress' and ref not in self.call_models and not kwargs:
            return _Suppress(self._class_refs(tuple(args)) if args else ())
        if ref == 'ext:contextlib.nullcontext' and ref not in self.call_models and len(args) <= 1:
            return _Suppress(())        # enters, runs the body, swallows nothing
        if ref in ('ext:copy.copy', 'ext:copy.deepcopy') and ref not in self.call_models and len(args) == 1:
            return _copy_value(self, args[0], deep=ref.endswith('deepcopy'), memo={})
        if ref == 'ext:collections.Counter' and ref not in self.call_models and len(args) <= 1 and not kwargs:
            items_ = list(self._nt_seq(args[0])) if args else []
            if any(isinstance(x_, (Opaque, Ref)) for x_ in items_):
                raise Unmodelled('collections.Counter over symbolic items')
            return _CounterModel(self, items_)
        if ref == 'ext:collections.defaultdict' and ref not in self.call_models and len(args) <= 1 and not kwargs:
            import collections as _collections
            fac_ = args[0] if args else None
            native_ = {'builtin:set': set, 'builtin:list': list, 'builtin:dict': dict, 'builtin:int': int, 'builtin:float': float, 'builtin:str': str}
            if fac_ is None:
                return _collections.defaultdict()
            if isinstance(fac_, Ref) and fac_.ref in native_:
                return _collections.defaultdict(native_[fac_.ref])
            raise Unmodelled('collections.defaultdict with a factory that is not a builtin container type')
        if ref in ('ext:functools.lru_cache', 'ext:functools.cache') and ref not in self.call_models:
            fnlike_ = (RawFunc, Closure, LambdaVal, BoundMethod, Ref)
            if len(args) == 1 and not kwargs and isinstance(args[0], fnlike_):
                return LruCache(self, args[0], None if ref.endswith('.cache') else 128, False)        # bare @lru_cache
            mx_ = args[0] if args else kwargs.get('maxsize', 128)
            ty_ = args[1] if len(args) > 1 else kwargs.get('typed', False)
            if not (mx_ is None or isinstance(mx_, int)) or not isinstance(ty_, bool):
                raise Unmodelled('lru_cache with symbolic parameters')
            me_ = self
            return _LruFactory(lambda f_: LruCache(me_, f_, mx_, ty_))
        if ref == 'ext:functools.partial' and ref not in self.call_models and args:
            return Partial(args[0], args[1:], kwargs)
        if ref in ('ext:operator.methodcaller', 'ext:operator.itemgetter', 'ext:operator.attrgetter') and ref not in self.call_models and args:
            return Partial(Ref(ref), args, kwargs)
        if ref and ref.startswith('ext:itertools.') and ref not in self.call_models:
            done, res = self._itertools(ref.rpartition('.')[2] if ref.count('.') == 1 else ref[len('ext:itertools.'):], args, kwargs)
            if done:
                return res
        if ref and ref.startswith('ext:operator.') and ref not in self.call_models and len(args) == 2 and not kwargs:
            opname = ref.rpartition('.')[2].strip('_')
            cmpmap = {'lt': ast.Lt, 'le': ast.LtE, 'eq': ast.Eq, 'ne': ast.NotEq, 'gt': ast.Gt, 'ge': ast.GtE, 'is_': ast.Is, 'contains': None}
            binmap = {'add': ast.Add, 'sub': ast.Sub, 'mul': ast.Mult, 'truediv': ast.Div, 'floordiv': ast.FloorDiv, 'mod': ast.Mod,
                      'pow': ast.Pow, 'and': ast.BitAnd, 'or': ast.BitOr, 'xor': ast.BitXor}
            if opname in cmpmap and cmpmap[opname] is not None:
                return self._compare(cmpmap[opname](), args[0], args[1], None)
            if opname == 'contains':
                return self._contains(args[0], args[1])
            if opname in binmap:
                return self._binop(binmap[opname](), args[0], args[1])
        if ref and ref.startswith('ext:') and ref not in self.call_models:
            done, res = self._pure_call(ref[4:], args, kwargs)
            if done:
                return res
        if ref and ref.startswith('builtin:') and ref not in self.call_models and isinstance(getattr(_builtins, ref[8:], None), type) \
                and issubclass(getattr(_builtins, ref[8:]), BaseException):
            # a new exception object: represented by its class, and by the text of its message where that is known
            msg_ = args[0] if args else None
            if not isinstance(msg_, str) and n.args and not isinstance(n.args[0], ast.Starred):
                saved_ = getattr(self, '_lenient_fstring', False)
                self._lenient_fstring = True
                try:
                    msg_ = self._safe_ev(n.args[0])
                finally:
                    self._lenient_fstring = saved_
            return MsgRef(ref, msg_) if isinstance(msg_, str) and not kwargs else Ref(ref)
        if ref == 'ext:inspect.signature' and ref not in self.call_models and len(args) == 1:
            return self._signature_of(args[0])
        if ref == 'ext:sys.exc_info' and ref not in self.call_models:
            handling = getattr(self, '_handling', [])
            cur = handling[-1] if handling else None
            return (self._type_of(cur) if isinstance(cur, (Ref, Rec)) else None, cur, Opaque('traceback') if cur is not None else None)
        if ref == 'builtin:type' and len(args) == 1 and 'builtin:type' not in self.call_models:
            return self._type_of(args[0])
        if ref and ref.startswith('builtin:') and ref[8:] in _DUNDER_OF and len(args) >= 1 and isinstance(args[0], Rec) \
                and isinstance(args[0].f.get('cls'), str):
            found, res = self._builtin_on_rec(ref[8:], args)
            if found:
                return res
        if ref and ref.startswith('builtin:') and ref[8:] in ('sum', 'min', 'max', 'any', 'all', 'sorted') and args \
                and isinstance(args[0], (list, tuple, set)) and any(isinstance(x_, Rec) for x_ in args[0]):
            return self._aggregate(ref[8:], args, kwargs)
        if ref and ref.startswith('builtin:') and ref[8:] in _PURE and _PURE[ref[8:]] is not None \
                and not (isinstance(fn, ast.Name) and fn.id == ref[8:]):
            if not any(isinstance(a_, (Opaque, Ref, Rec)) for a_ in args):
                try:
                    return _PURE[ref[8:]](*args)
                except Exception as exc:
                    raise ExcRaised(_exc_ref(exc))
        if ref and ref.startswith(('ext:logging.', 'ext:warnings.warn')) or ref == 'builtin:print':
            return None      # diagnostics only
        if ref and ref.startswith('pkg:'):
            om_, onode_ = self.a.res.lookup(ref)
            if isinstance(onode_, ast.ClassDef):
                return self._construct(ref, args, kwargs)
        if self.inline_pkg and ref and self.depth < self.max_depth:
            om, onode = self.a.res.lookup(ref)
            if isinstance(onode, ast.FunctionDef):
                if self._decorated(onode, 'classmethod') or self._decorated(onode, 'staticmethod'):
                    cref_ = ref.rpartition('.')[0]
                    if self._is_pkg_class(cref_):
                        return self._call_method(None, cref_, om, onode, args, kwargs)
                    raise Unmodelled(f'call of classmethod {ref} needs a model')
                if self._effective_decorators(om, onode):
                    return self.invoke(self._func_object(ref, om, onode), args, kwargs)
                return self._inline(om, onode, args, kwargs)
        if self.depth < self.max_depth:
            # nested closure of the analysed function / private method of the analysed class
            if isinstance(fn, ast.Name) and self.scopes and fn.id not in self.env:
                nested_cache = self.a.__dict__.setdefault('_nested_defs', {})
                for sc_ in self.scopes:
                    table_ = nested_cache.get(id(sc_))
                    if table_ is None:
                        table_ = {}
                        for n_ in ast.walk(sc_):
                            if isinstance(n_, ast.FunctionDef) and n_ is not sc_:
                                table_.setdefault(n_.name, n_)
                        nested_cache[id(sc_)] = table_
                    if fn.id in table_:
                        return self._inline(self.m, table_[fn.id], args, kwargs, closure=True)
            if isinstance(fn, ast.Attribute) and isinstance(fn.value, ast.Name) and fn.value.id in ('self', 'cls') \
                    and self.self_class and fn.attr.startswith('_') and not fn.attr.startswith('__'):
                cm, meth = self.a.res.class_attr(self.self_class, fn.attr)
                if isinstance(meth, ast.FunctionDef):
                    static = any(isinstance(d, ast.Name) and d.id == 'staticmethod' for d in meth.decorator_list)
                    if static:
                        return self._inline(cm, meth, args, kwargs)
                    if fn.value.id in self.env:
                        return self._inline(cm, meth, [self.env[fn.value.id]] + args, kwargs)
                    return self._inline(cm, meth, args, kwargs, skip_first=True)
        if isinstance(fn, ast.Name) and fn.id == 'getattr' and fn.id not in self.env and len(args) in (2, 3) and isinstance(args[1], str):
            obj = args[0]
            if isinstance(obj, Rec):
                if args[1] in obj.f:
                    return obj.f[args[1]]
                if isinstance(obj.f.get('cls'), str):
                    try:
                        return self._class_level_attr(obj, obj.f['cls'], args[1])
                    except Unmodelled:
                        pass
                if len(args) == 3:
                    return args[2]
                raise ExcRaised(Ref('builtin:AttributeError'))
            if isinstance(obj, PyModel):
                if hasattr(obj, args[1]):
                    return getattr(obj, args[1])
                if len(args) == 3:
                    return args[2]
                raise ExcRaised(Ref('builtin:AttributeError'))
            if isinstance(obj, Ref) and obj.ref.startswith('pkg:') and obj.ref.count(':') == 1 and obj.ref[4:] in self.a.repo.modules:
                # getattr(module of the package, name): the module-level binding of that name, evaluated like module.name
                mod_ = self.a.repo.modules[obj.ref[4:]]
                if args[1] in mod_.funcs or args[1] in mod_.classes or args[1] in mod_.assigns or self.a.res.resolve(
                        ast.Attribute(value=ast.Name(id='__m', ctx=ast.Load()), attr=args[1], ctx=ast.Load()), self.m) is not None:
                    gref_ = f'{obj.ref}:{args[1]}'
                    if args[1] in mod_.assigns and args[1] not in mod_.funcs and args[1] not in mod_.classes:
                        return self._global(gref_, None)
                    if args[1] in mod_.funcs or args[1] in mod_.classes:
                        return Ref(gref_)
                imp_ = self.a.res.resolve(ast.Name(id=args[1], ctx=ast.Load()), mod_)
                if imp_ is not None:
                    return Ref(imp_)
                if len(args) == 3:
                    return args[2]
                raise ExcRaised(Ref('builtin:AttributeError'))
            if isinstance(obj, Ref) and obj.ref[:4] == 'ext:' and obj.ref[4:] in _FLAG_LIBS:
                lib_ = _FLAG_LIBS[obj.ref[4:]]
                if not hasattr(lib_, args[1]):
                    if len(args) == 3:
                        return args[2]
                    raise ExcRaised(Ref('builtin:AttributeError'))
                if isinstance(getattr(lib_, args[1]), (int, str)):
                    return getattr(lib_, args[1])
                return Ref(f'{obj.ref}.{args[1]}')
            if isinstance(obj, Ref) and args[1].startswith('__') and args[1] not in ('__name__', '__doc__'):
                # a class / NewType alias / function reference has none of the typing attributes (__origin__, __args__)
                if len(args) == 3:
                    return args[2]
                raise ExcRaised(Ref('builtin:AttributeError'))
            if _concrete(obj):
                try:
                    return getattr(obj, *args[1:])
                except AttributeError:
                    raise ExcRaised(Ref('builtin:AttributeError'))
            raise Unmodelled('getattr on a symbolic value')
        if isinstance(fn, ast.Name) and fn.id == 'vars' and fn.id not in self.env and len(args) == 1 and isinstance(args[0], Rec):
            return args[0].f        # the live attribute dictionary of the instance
        if isinstance(fn, ast.Name) and fn.id == 'next' and fn.id not in self.env and len(args) in (1, 2) and not kwargs:
            if isinstance(args[0], _GenList):
                if args[0]:
                    return args[0].pop(0)
                _exhausted(args[0])
                if len(args) == 2:
                    return args[1]
                raise ExcRaised(Ref('builtin:StopIteration'))
            if isinstance(args[0], (list, tuple, dict, set, str)):
                raise ExcRaised(Ref('builtin:TypeError'))          # not an iterator
            raise Unmodelled('next() of a symbolic iterator')
        if any(isinstance(a_, _GenList) and a_.pending is not None for a_ in args):
            raise Unmodelled('a generator that raises after its last item is handed on as an argument (lazy consumption is not modelled)')
        if isinstance(fn, ast.Name) and fn.id == 'iter' and fn.id not in self.env and len(args) == 1 and not kwargs \
                and isinstance(args[0], (list, tuple, set, dict, str)) and not isinstance(args[0], _GenList):
            return _GenList(list(args[0]))
        if isinstance(fn, ast.Name) and fn.id == 'setattr' and fn.id not in self.env and len(args) == 3 and isinstance(args[1], str):
            obj = args[0]
            if isinstance(obj, Rec):
                obj.set(args[1], args[2])
                return None
            if isinstance(obj, PyModel):
                setattr(obj, args[1], args[2])
                return None
            if isinstance(obj, Ref) and self._is_pkg_class(obj.ref):
                self.world.classattrs[(obj.ref, args[1])] = args[2]
                return None
            raise Unmodelled('setattr on a symbolic value')
        if isinstance(fn, ast.Name) and fn.id == 'hasattr' and fn.id not in self.env and len(args) == 2 and isinstance(args[1], str):
            obj = args[0]
            if isinstance(obj, Rec) and isinstance(obj.f.get('cls'), str):
                if args[1] in obj.f:
                    return True
                try:
                    self._class_level_attr(obj, obj.f['cls'], args[1])
                    return True
                except (Unmodelled, ExcRaised):
                    return False
            if isinstance(obj, PyModel) or _concrete(obj):
                return hasattr(obj, args[1])
            raise Unmodelled('hasattr on a symbolic value')
        if isinstance(fn, ast.Name) and fn.id == 'map' and fn.id not in self.env and len(args) > 2:
            seqs = []
            for sq in args[1:]:
                if isinstance(sq, Rec) and '__native__' in sq.f:
                    sq = sq.f['__native__']
                if isinstance(sq, (Opaque, Ref, Rec)):
                    raise Unmodelled('map() over a symbolic sequence')
                seqs.append(list(sq))
            return [self.invoke(args[0], list(items)) for items in zip(*seqs)]      # expanded eagerly
        if isinstance(fn, ast.Name) and fn.id in ('filter', 'map') and fn.id not in self.env and len(args) == 2:
            seq = args[1]
            if isinstance(seq, (Opaque, Ref, Rec)):
                raise Unmodelled(f'{fn.id}() over a symbolic sequence')
            if fn.id == 'filter':
                return [x for x in seq if self.truth(self.invoke(args[0], [x]))]
            return [self.invoke(args[0], [x]) for x in seq]
        if isinstance(fn, ast.Name) and fn.id in self.env and isinstance(self.env[fn.id], LambdaVal):
            return self.invoke(self.env[fn.id], args)
        if isinstance(fn, ast.Name) and fn.id in _PURE and fn.id not in self.env:
            if fn.id == 'isinstance':
                cls = n.args[1]
                if isinstance(cls, ast.Tuple) and all(isinstance(e, (ast.Name, ast.Attribute)) for e in cls.elts):
                    refs = tuple(self.a.res.resolve(e, self.m) for e in cls.elts)
                elif isinstance(cls, (ast.Name, ast.Attribute)) and not (isinstance(cls, ast.Name) and cls.id in self.env):
                    refs = self.a.res.resolve(cls, self.m)
                else:
                    refs = None
                if isinstance(refs, str) and refs.startswith('pkg:') and not self._is_pkg_class(refs):
                    refs = None         # an expression that merely starts with a package name (REGISTRY.types): its value decides
                if isinstance(refs, tuple) and any(isinstance(r, str) and r.startswith('pkg:') and not self._is_pkg_class(r) for r in refs):
                    refs = None
                if refs is None or (isinstance(refs, tuple) and any(r is None for r in refs)):
                    refs = self._class_refs(args[1])
                if self.isinstance_fn is None or not isinstance(args[0], (Rec, PyModel, Ref, Opaque, LambdaVal, BoundMethod)):
                    return self._isinstance(args[0], refs)      # native values: Python's own lattice
                return self.isinstance_fn(args[0], refs)
            if fn.id == 'type':
                if len(args) == 1:
                    return self._type_of(args[0])
                raise Unmodelled('type() call')
            if fn.id in ('sum', 'min', 'max', 'any', 'all', 'sorted') and args and isinstance(args[0], (list, tuple, set)) \
                    and any(isinstance(x_, Rec) for x_ in args[0]):
                return self._aggregate(fn.id, args, kwargs)
            if fn.id in _DUNDER_OF and args and isinstance(args[0], Rec) and isinstance(args[0].f.get('cls'), str):
                found, res = self._builtin_on_rec(fn.id, args)
                if found:
                    return res
            if fn.id == 'bool' and len(args) == 1 and isinstance(args[0], (Rec, PyModel, Ref)):
                return self.truth(args[0]) if isinstance(args[0], (Rec, Ref)) else bool(args[0])
            if fn.id in ('zip', 'tuple', 'list', 'len', 'enumerate', 'reversed', 'sorted', 'sum', 'min', 'max', 'any', 'all', 'set'):
                args = [self._nt_seq(a_) for a_ in args]          # a NamedTuple instance is the tuple of its fields
            for a_ in args:
                if isinstance(a_, (Opaque, Ref, Rec)):
                    return Opaque(fn.id)
            try:
                return _PURE[fn.id](*args, **kwargs)
            except Exception as exc:
                raise ExcRaised(_exc_ref(exc))
        # whatever the callee expression evaluates to: an instance with __call__, a function value, a bound method of a native value
        try:
            val_ = self.ev(fn)
        except Unmodelled:
            val_ = None
        if isinstance(val_, Rec) and isinstance(val_.f.get('cls'), str):
            found_, res_ = self._dunder(val_, '__call__', *args) if not kwargs else (False, None)
            if found_:
                return res_
        elif isinstance(val_, (Closure, LambdaVal, RawFunc, BoundMethod, Partial, NativeMethod, LruCache)) or (isinstance(val_, PyModel) and callable(val_)):
            return self.invoke(val_, list(args), kwargs)
        elif isinstance(val_, Ref) and val_.ref.startswith('pkg:') and self.a.res.lookup(val_.ref)[1] is not None:
            return self.invoke(val_, list(args), kwargs)
        elif val_ is not None and callable(val_) and type(val_).__name__ in ('builtin_function_or_method', 'method-wrapper', 'method_descriptor') \
                and all(_concrete(a_) for a_ in args) and not kwargs:
            try:
                return val_(*args)          # a method of a native value (int.__neg__, str.upper, ...)
            except Exception as exc:
                raise ExcRaised(_exc_ref(exc))
        raise Unmodelled(f'call {ast.unparse(fn)}(...) at line {n.lineno}')

    def _inline(self, om, fnode, args, kwargs, closure=False, skip_first=False, self_class=None):
        if self.depth >= self.max_depth:
            raise Unmodelled(f'inlining deeper than {self.max_depth} calls at {fnode.name}')
        counts_ = getattr(self.world, 'call_counts', None)
        if counts_ is not None:
            key_c = (getattr(om, 'name', '?'), fnode.name)
            counts_[key_c] = counts_.get(key_c, 0) + 1
        params = [a.arg for a in fnode.args.posonlyargs + fnode.args.args]
        first = params[0] if params else None
        if skip_first:
            params = params[1:]
        defaults = fnode.args.defaults
        env = dict(self.env) if closure else {}
        if not skip_first:
            # the call protocol: too many positional arguments, an unknown keyword, a missing required parameter are TypeErrors
            if len(args) > len(params) and fnode.args.vararg is None:
                raise ExcRaised(Ref('builtin:TypeError'))
            konly_ = {k_.arg for k_ in fnode.args.kwonlyargs}
            if fnode.args.kwarg is None and any(k_ not in params and k_ not in konly_ for k_ in kwargs):
                raise ExcRaised(Ref('builtin:TypeError'))
            required_ = params[:len(params) - len(defaults)]
            if any(p_ not in kwargs for p_ in required_[len(args):]):
                raise ExcRaised(Ref('builtin:TypeError'))
        given_ = set(params[:len(args)]) | set(kwargs)
        for p_, d in zip(params[len(params) - len(defaults):], defaults):
            if p_ in given_:
                continue
            # a default is evaluated once, when the def statement runs: every later call of the function in this world (= process)
            # gets the same object (a list default that is appended to keeps growing)
            memo_ = self.world.__dict__.setdefault('default_values', {})
            if closure or id(d) not in memo_:
                sub = Interp(self.a, om, {}, isinstance_fn=self.isinstance_fn, call_models=self.call_models, world=self.world,
                             inline_pkg=self.inline_pkg, depth=self.depth + 1)
                val_ = sub.ev(d)
                if closure:
                    env[p_] = val_
                    continue
                memo_[id(d)] = val_
            env[p_] = memo_[id(d)]
        for p_, a in zip(params, args):
            env[p_] = a
        if fnode.args.vararg is not None:
            env[fnode.args.vararg.arg] = tuple(args[len(params):])
        if fnode.args.kwarg is not None:
            env[fnode.args.kwarg.arg] = {k: v for k, v in kwargs.items() if k not in params}
            kwargs = {k: v for k, v in kwargs.items() if k in params}
        for ko, kd in zip(fnode.args.kwonlyargs, fnode.args.kw_defaults):
            if ko.arg not in kwargs and kd is not None:
                memo_ = self.world.__dict__.setdefault('default_values', {})
                if closure or id(kd) not in memo_:
                    sub0 = Interp(self.a, om, {}, isinstance_fn=self.isinstance_fn, call_models=self.call_models, world=self.world)
                    val_ = sub0.ev(kd)
                    if closure:
                        env[ko.arg] = val_
                        continue
                    memo_[id(kd)] = val_
                env[ko.arg] = memo_[id(kd)]
        env.update(kwargs)
        gen_cache = self.a.__dict__.setdefault('_is_gen_cache', {})
        is_gen = gen_cache.get(id(fnode))
        if is_gen is None:
            is_gen = gen_cache[id(fnode)] = any(isinstance(y, (ast.Yield, ast.YieldFrom)) for y in _walk_no_defs(fnode))
        sub = Interp(self.a, om, env, effect_receivers=self.effects if closure else (), isinstance_fn=self.isinstance_fn,
                     call_models=self.call_models, inline_pkg=self.inline_pkg, depth=self.depth + 1,
                     self_class=self_class or self.self_class, record_unknown=self.record_unknown, scope_fn=fnode, world=self.world)
        sub.scopes = [fnode] + (self.scopes if closure else [])
        if closure:
            sub.nonlocal_env = self.env          # invoke() has made the closure's defining environment current
        sub.dunder_truth = self.dunder_truth
        sub.def_class = self.def_class if closure else self._def_class_of(om, fnode)
        sub.first_param = self.first_param if closure else first
        if closure:
            sub.global_names = set(self.global_names)
        if is_gen:
            sub._yielded = []
        out = sub.run(fnode.body)
        self.out.events.extend(out.events)
        if out.end == 'raise' and is_gen and sub._yielded:
            # the generator is expanded eagerly; what it raises after its last item is met by whoever exhausts it, not before
            self.out.events.append(('<eager-generator>', ()))
            gen_ = _GenList(sub._yielded)
            gen_.pending = (out.value, out.explicit)
            return gen_
        if out.end == 'raise':
            r_ = ExcRaised(out.value)
            r_.explicit = out.explicit
            raise r_
        if is_gen:
            # the generator is expanded eagerly: laziness *inside* it is not modelled
            self.out.events.append(('<eager-generator>', ()))
            return _GenList(sub._yielded)
        return out.value if out.end == 'return' else None

    def invoke(self, callee, args, kwargs=None):
        """Apply a first-class callable value (lambda, model object, reference to a function) to arguments."""
        kwargs = kwargs or {}
        if isinstance(callee, LambdaVal):
            params = [a.arg for a in callee.node.args.args]
            sub = Interp(self.a, self.m, dict(callee.env), effect_receivers=self.effects, isinstance_fn=self.isinstance_fn,
                         call_models=self.call_models, inline_pkg=self.inline_pkg, depth=self.depth + 1,
                         self_class=self.self_class, record_unknown=self.record_unknown, scope_fn=self.scope_fn, world=self.world)
            sub.scopes = list(self.scopes)
            sub.dunder_truth = self.dunder_truth
            for p_, d_ in zip(params[len(params) - len(callee.node.args.defaults):], callee.node.args.defaults):
                sub.env[p_] = sub.ev(d_)
            sub.env.update(dict(zip(params, args)))
            sub.env.update(kwargs)
            return sub.ev(callee.node.body)
        if isinstance(callee, NativeMethod):
            node_ = ast.parse(f'__recv.{callee.name}(*__a, **__k)', mode='eval').body
            saved_ = dict(self.env)
            self.env.update({'__recv': callee.obj, '__a': tuple(args), '__k': dict(kwargs)})
            try:
                return self.ev(node_)
            finally:
                self.env.clear()
                self.env.update(saved_)
        if isinstance(callee, PyModel) and callable(callee):
            return callee(*args, **kwargs)
        if isinstance(callee, Closure):
            saved = (self.env, self.scopes, self.m, self.self_class, self.def_class, self.first_param)
            self.env, self.scopes, self.m = callee.env, callee.scopes, callee.module
            self.self_class, self.def_class, self.first_param = callee.self_class, callee.def_class, callee.first_param
            try:
                return self._inline(callee.module, callee.fnode, list(args), kwargs, closure=True)
            finally:
                self.env, self.scopes, self.m, self.self_class, self.def_class, self.first_param = saved
        if isinstance(callee, RawFunc):
            return self._inline(callee.module, callee.fnode, list(args), kwargs, self_class=getattr(callee, 'self_class', None))
        if isinstance(callee, Rec) and isinstance(callee.f.get('cls'), str):
            cm_c, call_c = self._find_method(callee.f['cls'], '__call__')
            if call_c is not None:
                return self._call_method(callee, callee.f['cls'], cm_c, call_c, list(args), kwargs)
            raise ExcRaised(Ref('builtin:TypeError'))
        if isinstance(callee, Partial):
            if isinstance(callee.func, Ref) and callee.func.ref == 'ext:operator.methodcaller':
                name_, rest_ = callee.args[0], list(callee.args[1:])
                node_ = ast.parse(f'__recv.{name_}(*__a, **__k)', mode='eval').body
                saved_ = dict(self.env)
                self.env.update({'__recv': args[0], '__a': tuple(rest_), '__k': dict(callee.keywords)})
                try:
                    return self.ev(node_)
                finally:
                    self.env.clear()
                    self.env.update(saved_)
            if isinstance(callee.func, Ref) and callee.func.ref == 'ext:operator.itemgetter':
                node_ = ast.parse('__recv[__i]', mode='eval').body
                res_ = []
                for i_ in callee.args:
                    saved_ = dict(self.env)
                    self.env.update({'__recv': args[0], '__i': i_})
                    try:
                        res_.append(self.ev(node_))
                    finally:
                        self.env.clear()
                        self.env.update(saved_)
                return res_[0] if len(res_) == 1 else tuple(res_)
            if isinstance(callee.func, Ref) and callee.func.ref == 'ext:operator.attrgetter':
                obj_ = args[0]
                for part_ in str(callee.args[0]).split('.'):
                    node_ = ast.parse(f'__recv.{part_}', mode='eval').body
                    saved_ = dict(self.env)
                    self.env.update({'__recv': obj_})
                    try:
                        obj_ = self.ev(node_)
                    finally:
                        self.env.clear()
                        self.env.update(saved_)
                return obj_
            kw_ = dict(callee.keywords)
            kw_.update(kwargs)
            return self.invoke(callee.func, list(callee.args) + list(args), kw_)
        if isinstance(callee, BoundMethod):
            key_ = f'{callee.cref}.{callee.fnode.name}'
            if key_ in self.call_models:
                if getattr(self.call_models[key_], 'wants_interp', False):
                    return self.call_models[key_](self, callee.recv, *args, **kwargs)
                return self.call_models[key_](callee.recv, *args, **kwargs)
            return self._call_method(callee.recv if isinstance(callee.recv, Rec) else None, callee.cref, callee.module, callee.fnode,
                                     list(args), kwargs)
        if isinstance(callee, Ref):
            if callee.ref in self.call_models:
                return self.call_models[callee.ref](*args)
            done_, res_ = self._unbound_builtin(callee.ref, list(args), kwargs)
            if done_:
                return res_
            if callee.ref.startswith('ext:operator.') and len(args) == 2 and not kwargs:
                # a function of the operator module as a first-class value (a strategy record, a table of comparisons)
                opname = callee.ref.rpartition('.')[2].strip('_')
                cmpmap = {'lt': ast.Lt, 'le': ast.LtE, 'eq': ast.Eq, 'ne': ast.NotEq, 'gt': ast.Gt, 'ge': ast.GtE}
                binmap = {'add': ast.Add, 'sub': ast.Sub, 'mul': ast.Mult, 'truediv': ast.Div, 'floordiv': ast.FloorDiv, 'mod': ast.Mod,
                          'pow': ast.Pow, 'and': ast.BitAnd, 'or': ast.BitOr, 'xor': ast.BitXor}
                if opname in cmpmap:
                    return self._compare(cmpmap[opname](), args[0], args[1], None)
                if opname in binmap:
                    return self._binop(binmap[opname](), args[0], args[1])
                if opname == 'contains':
                    return self._contains(args[0], args[1])
            if callee.ref in ('builtin:bin', 'builtin:oct', 'builtin:hex', 'builtin:chr', 'builtin:ord', 'builtin:repr', 'builtin:round', 'builtin:min', 'builtin:max',
                              'builtin:sum', 'builtin:sorted', 'builtin:tuple', 'builtin:list', 'builtin:divmod') and all(_concrete(a_) for a_ in args) and not kwargs:
                try:
                    return getattr(_builtins, callee.ref[8:])(*args)
                except Exception as exc:
                    raise ExcRaised(_exc_ref(exc))
            if callee.ref in ('builtin:bool', 'builtin:int', 'builtin:float', 'builtin:str', 'builtin:len', 'builtin:abs'):
                fn_ = {'bool': bool, 'int': int, 'float': float, 'str': str, 'len': len, 'abs': abs}[callee.ref.split(':')[1]]
                if fn_ is bool and args and isinstance(args[0], Rec):
                    return self.truth(args[0])
                if args and isinstance(args[0], Rec) and isinstance(args[0].f.get('cls'), str):
                    found, res = self._builtin_on_rec(callee.ref.split(':')[1], list(args))
                    if found:
                        return res
                try:
                    return fn_(*args)
                except (ValueError, TypeError) as exc:
                    raise ExcRaised(Ref(f'builtin:{type(exc).__name__}'))
            om, onode = self.a.res.lookup(callee.ref)
            if isinstance(onode, ast.ClassDef):
                return self._construct(callee.ref, list(args), kwargs)
            if isinstance(onode, ast.FunctionDef) and self.depth < self.max_depth:
                if self._decorated(onode, 'classmethod') or self._decorated(onode, 'staticmethod'):
                    cref_ = callee.ref.rpartition('.')[0]
                    if self._is_pkg_class(cref_):
                        return self._call_method(None, cref_, om, onode, list(args), kwargs)
                    raise Unmodelled(f'call of classmethod {callee.ref} needs a model')
                if self._effective_decorators(om, onode):
                    return self.invoke(self._func_object(callee.ref, om, onode), list(args), kwargs)
                return self._inline(om, onode, list(args), kwargs)
        if callee is None:
            return self.truth(args[0]) if args else None
        raise Unmodelled(f'call of first-class value {callee!r}')

    def _comp(self, gens, i, emit):
        if i == len(gens):
            emit()
            return
        g = gens[i]
        it = self._nt_seq(self.ev(g.iter))
        if isinstance(it, Rec) and isinstance(it.f.get('cls'), str):
            found, res = self._dunder(it, '__iter__')
            if found:
                it = res
        if isinstance(it, (Opaque, Ref, Rec)) or not hasattr(it, '__iter__'):
            raise Unmodelled('comprehension over a symbolic iterable')
        items = list(it)
        if len(items) > getattr(self.world, 'max_items', 256):
            raise Unmodelled(f'comprehension over more than {getattr(self.world, "max_items", 256)} items')
        saved = dict(self.env)
        for item in items:
            self.store(g.target, item)
            if all(self._cov(c, self.truth(self.ev(c))) for c in g.ifs):
                self._comp(gens, i + 1, emit)
        _exhausted(it)
        # comprehension variables do not leak
        for k in list(self.env):
            if k not in saved:
                del self.env[k]

    def _lazy_local(self, name):
        """Value expression of a local that is bound exactly once in the analysed function by a plain assignment
        (a hoisted sub-expression / alias); None otherwise."""
        cache = self.__dict__.setdefault('_lazy_cache', {})
        if name in cache:
            return cache[name]
        from .flow import _stores
        allb = ()
        for sc_ in self.scopes:
            allb = _stores(sc_).get(name, ())
            if allb:
                break
        binds = [x for x in allb if isinstance(x, ast.Name)] if len(allb) == 1 else list(allb) + [None]
        val = None
        if len(binds) == 1:
            st = binds[0]
            while st is not None and not isinstance(st, ast.stmt):
                st = getattr(st, '_parent', None)
            if isinstance(st, ast.Assign) and len(st.targets) == 1 and st.targets[0] is binds[0] \
                    and not any(isinstance(c, (ast.Yield, ast.Await)) for c in ast.walk(st.value)):
                val = st.value
        cache[name] = val
        return val

    def _safe_ev(self, node):
        try:
            return self.ev(node)
        except Unmodelled as exc:
            if 'inlining deeper than' in str(exc) or 'budget exceeded' in str(exc) or 'texts longer than' in str(exc):
                raise           # resource limits of the interpretation are verdicts of their own (recursion without end ...), not unknown values
            return Opaque(ast.unparse(node)[:40])

    # ------------------------------------------------------------------------------------------------------
    # object model of the package: classes, methods, dunders, construction
    # ------------------------------------------------------------------------------------------------------
    def _is_pkg_class(self, ref):
        if not ref or not ref.startswith('pkg:'):
            return False
        _, node = self.a.res.lookup(ref)
        return isinstance(node, ast.ClassDef)

    def _decorated(self, fnode, name):
        for d in fnode.decorator_list:
            t = d.func if isinstance(d, ast.Call) else d
            if isinstance(t, ast.Name) and t.id == name:
                return True
            if isinstance(t, ast.Attribute) and t.attr == name:
                return True
        return False

    def _def_class_of(self, om, fnode):
        par = getattr(fnode, '_parent', None)
        if isinstance(par, ast.ClassDef):
            return self.a.res.class_ref(om, par)
        return None

    def _find_method(self, cref, name):
        """(module, FunctionDef) of a method looked up through the MRO, following `__radd__ = __add__` aliases."""
        cm, node = self.a.res.class_attr(cref, name)
        hops = 0
        while isinstance(node, ast.Name) and hops < 4:
            cm, node = self.a.res.class_attr(cref, node.id)
            hops += 1
        if isinstance(node, ast.FunctionDef):
            return cm, node
        return None, None

    def _call_method(self, recv, cref, cm, meth, args, kwargs):
        """Call a method found on class `cref`: recv is the instance (None when called through the class)."""
        if self._decorated(meth, 'staticmethod'):
            full = list(args)
        elif self._decorated(meth, 'classmethod'):
            klass = recv.f['cls'] if isinstance(recv, Rec) and isinstance(recv.f.get('cls'), str) else cref
            full = [Ref(klass)] + list(args)
        elif recv is not None:
            full = [recv] + list(args)
        else:
            full = list(args)     # plain function called through the class: the instance is the first argument
        if meth.decorator_list and self._effective_decorators(cm, meth):
            defref_ = self._def_class_of(cm, meth)
            return self.invoke(self._method_object(f'{defref_}.{meth.name}', cm, meth, defref_), full, kwargs)
        return self._inline(cm, meth, full, kwargs, self_class=cref)

    def _method_object(self, ref, om, fnode, cref):
        """The object stored in the class for a decorated method (decorators applied innermost first), once per world."""
        if ref in self.world.funcobjs:
            return self.world.funcobjs[ref]
        cur = RawFunc(ref, om, fnode)
        cur.self_class = cref
        for d in reversed(self._effective_decorators(om, fnode)):
            sub = Interp(self.a, om, {}, isinstance_fn=self.isinstance_fn, call_models=self.call_models, inline_pkg=True,
                         depth=self.depth + 1, world=self.world)
            cur = sub.invoke(sub.ev(d), [cur], {})
        self.world.funcobjs[ref] = cur
        return cur

    def _unbound_builtin(self, ref, args, kwargs):
        """(done, value): `dict.__setitem__(obj, k, v)`, `list.append(obj, x)`, `str.upper(s)` - a method of a builtin type called
        through the type, on a native value or on an instance of a package class that subclasses the builtin."""
        if not isinstance(ref, str) or not ref.startswith('builtin:') or ref.count('.') != 1 or not args:
            return False, None
        tname, _, mname = ref[8:].partition('.')
        if (tname, mname) == ('dict', 'fromkeys') and not kwargs and 1 <= len(args) <= 2 and not isinstance(args[0], (Rec, Ref, Opaque)):
            try:
                return True, dict.fromkeys(*args)
            except TypeError:
                raise ExcRaised(Ref('builtin:TypeError'))
        typ = {'dict': dict, 'list': list, 'set': set, 'tuple': tuple, 'str': str, 'frozenset': frozenset}.get(tname)
        if typ is None or not hasattr(typ, mname):
            return False, None
        target = args[0]
        if isinstance(target, Rec) and '__native__' in target.f:
            if mname == '__init__':
                target.f['__native__'].clear()
            target = target.f['__native__']
        if not isinstance(target, typ):
            return False, None
        rest = list(args[1:])
        if not all(_concrete(a_) or isinstance(a_, (Rec, Ref)) for a_ in rest):
            return False, None
        try:
            res = getattr(typ, mname)(target, *rest, **kwargs)
        except (KeyError, IndexError, ValueError, TypeError) as exc:
            raise ExcRaised(Ref(f'builtin:{type(exc).__name__}'))
        if mname in ('items', 'keys', 'values'):
            res = list(res)
        return True, res

    def _enum_members(self, cref):
        """{name: member} of a package class that derives from enum.Enum (one member object per world, so `is` works);
        None for other classes. enum.auto() counts from 1 in definition order."""
        table = self.world.__dict__.setdefault('enum_members', {})
        if cref in table:
            return table[cref]
        table[cref] = None
        if not any(b in ('ext:enum.Enum', 'ext:enum.IntEnum', 'ext:enum.Flag', 'ext:enum.IntFlag', 'ext:enum.StrEnum') for b in self.a.res.base_refs(cref)):
            return None
        members, counter = {}, 0
        m_, cnode = self.a.res.lookup(cref)
        for st in cnode.body:
            if not (isinstance(st, ast.Assign) and len(st.targets) == 1 and isinstance(st.targets[0], ast.Name)):
                continue
            name = st.targets[0].id
            if name.startswith('_'):
                continue
            if isinstance(st.value, ast.Call) and self.a.res.resolve(st.value.func, m_) == 'ext:enum.auto':
                counter += 1
                val = counter
            else:
                val = Interp(self.a, m_, dict(members), world=self.world, call_models=self.call_models, inline_pkg=True, depth=self.depth + 1).ev(st.value)
                if isinstance(val, int) and not isinstance(val, bool):
                    counter = val
            members[name] = Rec(cls=cref, name=name, value=val, _name_=name, _value_=val)
        table[cref] = members
        return members

    def _class_body_env(self, cref, expr, depth=0):
        """Names of the class body that a class-level expression mentions: functions of the body are plain functions there
        (`TABLE = {'x': _handler}`), other attributes their values."""
        env = {}
        if depth > 3:
            return env
        for nm in {x.id for x in ast.walk(expr) if isinstance(x, ast.Name)}:
            cm_, node_ = self.a.res.class_attr(cref, nm)
            if node_ is None or node_ is expr:
                continue
            if isinstance(node_, ast.FunctionDef):
                defref_ = self._def_class_of(cm_, node_) or cref
                if self._decorated(node_, 'staticmethod') or self._decorated(node_, 'classmethod') or self._decorated(node_, 'property'):
                    continue
                fn_ = RawFunc(f'{defref_}.{nm}', cm_, node_)
                fn_.self_class = cref
                env[nm] = fn_
            elif isinstance(node_, ast.expr):
                try:
                    env[nm] = Interp(self.a, cm_, self._class_body_env(cref, node_, depth + 1), world=self.world, call_models=self.call_models,
                                     inline_pkg=True, depth=self.depth + 1).ev(node_)
                except (Unmodelled, ExcRaised):
                    pass
        return env

    def _class_callable(self, cref, name):
        """A class attribute that is not a `def` but evaluates to a function value (`__add__ = _arithmetic(operator.add)`,
        `__lt__ = functools.partialmethod(...)`-like tables): usable as a method. Evaluated once per world, in module scope."""
        cache = self.world.__dict__.setdefault('class_callables', {})
        key = (cref, name)
        if key in cache:
            return cache[key]
        cache[key] = None
        cm, node = self.a.res.class_attr(cref, name)
        if isinstance(node, ast.Name) and node.id != name and self.a.res.class_attr(cref, node.id)[1] is not None:
            cache[key] = self._class_callable(cref, node.id)        # `__radd__ = __add__`
            return cache[key]
        if isinstance(node, (ast.Call, ast.Lambda, ast.Subscript, ast.Attribute)):
            try:
                v = Interp(self.a, cm, self._class_body_env(cref, node), world=self.world, call_models=self.call_models,
                           isinstance_fn=self.isinstance_fn, inline_pkg=True, depth=self.depth + 1).ev(node)
            except (Unmodelled, ExcRaised):
                v = None
            fn_ref = isinstance(v, Ref) and isinstance(self.a.res.lookup(v.ref)[1], ast.FunctionDef)
            if isinstance(v, (Closure, LambdaVal, RawFunc, Partial, LruCache)) or fn_ref:
                cache[key] = v
        return cache[key]

    def _dunder(self, recv, name, *args):
        """(found, value): call the special method `name` of the abstract instance recv, when its class defines it."""
        cref = recv.f.get('cls') if isinstance(recv, Rec) else None
        if not isinstance(cref, str):
            return False, None
        key_ = f'{cref}.{name}'
        if key_ in self.call_models:
            return True, self.call_models[key_](recv, *args)
        cm, meth = self._find_method(cref, name)
        if meth is None:
            made_ = self._class_callable(cref, name)
            if made_ is not None:
                return True, self.invoke(made_, [recv] + list(args), {})
            if '__native__' in recv.f and name in ('__getitem__', '__setitem__', '__delitem__', '__contains__', '__len__', '__iter__'):
                native_ = recv.f['__native__']
                try:
                    if name == '__iter__':
                        return True, list(native_)
                    return True, getattr(native_, name)(*args)
                except (KeyError, IndexError, TypeError) as exc:
                    raise ExcRaised(Ref(f'builtin:{type(exc).__name__}'))
            return False, None
        return True, self._call_method(recv, cref, cm, meth, list(args), {})

    def _builtin_on_rec(self, name, args):
        if name == 'bool':
            return True, self.truth(args[0])
        found, res = self._dunder(args[0], _DUNDER_OF[name], *args[1:])
        if not found:
            return False, None
        if name in ('int', 'float', 'str', 'len', 'hash') and isinstance(res, Rec):
            raise Unmodelled(f'{name}() of an abstract instance returns an abstract instance')
        if name in ('list', 'tuple'):
            return True, (list(res) if name == 'list' else tuple(res))
        return True, res

    def _class_level_attr(self, inst, cref, attr):
        """Attribute of an abstract instance that is not an instance field: run-time class attribute, property, method, constant."""
        if attr == '__class__':
            return Ref(cref)
        if attr == '__dict__':
            return inst.f           # the attribute dictionary of the abstract instance (writes go through)
        for cm_, cnode_ in self.a.res.mro(cref):
            key_ = (self.a.res.class_ref(cm_, cnode_), attr)
            if key_ in self.world.classattrs:
                return self.world.classattrs[key_]
        cm_, val_ = self.a.res.class_attr(cref, attr)
        hops = 0
        while isinstance(val_, ast.Name) and hops < 4 and self.a.res.class_attr(cref, val_.id)[1] is not None:
            cm_, val_ = self.a.res.class_attr(cref, val_.id)
            hops += 1
        if isinstance(val_, ast.FunctionDef):
            if self._decorated(val_, 'property') or self._decorated(val_, 'cached_property'):
                key_ = f'{cref}.{attr}'
                if key_ in self.call_models:
                    return self.call_models[key_](inst)
                return self._inline(cm_, val_, [inst], {}, self_class=cref)
            return BoundMethod(inst, cm_, val_, cref)
        if isinstance(val_, ast.Call) and isinstance(val_.func, (ast.Name, ast.Attribute)) \
                and self.a.res.resolve(val_.func, cm_) == 'ext:dataclasses.field':
            # a dataclass field read on an instance that was not built by its constructor: the declared default
            for kw_ in val_.keywords:
                if kw_.arg == 'default':
                    return Interp(self.a, cm_, {}, world=self.world, call_models=self.call_models, inline_pkg=True).ev(kw_.value)
                if kw_.arg == 'default_factory':
                    made_ = Interp(self.a, cm_, {}, world=self.world, call_models=self.call_models, inline_pkg=True).ev(
                        ast.copy_location(ast.Call(func=kw_.value, args=[], keywords=[]), val_))
                    if isinstance(inst, Rec):
                        inst.f[attr] = made_
                    return made_
            raise ExcRaised(Ref('builtin:AttributeError'))
        if val_ is not None and not isinstance(val_, ast.ClassDef):
            try:
                v_ = self.a.folder.fold(val_, cm_, None, cref)
                if _has_call_ref(v_):
                    raise Unfoldable('result of a library call')
            except Unfoldable:
                # a class-level expression the folder does not know (re.compile(...), a comprehension): interpreted once per world
                v_ = Interp(self.a, cm_, self._class_body_env(cref, val_), world=self.world, call_models=self.call_models, inline_pkg=True,
                            depth=self.depth + 1).ev(val_)
                for cm2_, cnode2_ in self.a.res.mro(cref):
                    if any(isinstance(st_, ast.Assign) and any(isinstance(t_, ast.Name) and t_.id == attr for t_ in st_.targets)
                           for st_ in cnode2_.body):
                        self.world.classattrs[(self.a.res.class_ref(cm2_, cnode2_), attr)] = v_
                        break
                return v_
            if isinstance(v_, (dict, list, set)):
                for cm2_, cnode2_ in self.a.res.mro(cref):
                    if any(isinstance(st_, ast.Assign) and any(isinstance(t_, ast.Name) and t_.id == attr for t_ in st_.targets)
                           for st_ in cnode2_.body):
                        self.world.classattrs[(self.a.res.class_ref(cm2_, cnode2_), attr)] = v_
                        break
            return v_
        return inst.get(attr)

    def _type_of(self, v):
        if isinstance(v, Rec) and isinstance(v.f.get('cls'), str):
            return Ref(v.f['cls'])
        if isinstance(v, MsgRef):
            return Ref(v.ref)
        if isinstance(v, Ref) and (v.ref.startswith('builtin:') and isinstance(getattr(_builtins, v.ref[8:], None), type)
                                   and issubclass(getattr(_builtins, v.ref[8:]), BaseException) or self._is_pkg_class(v.ref)):
            return v        # an exception class stands for its instance: its type is the class itself
        if isinstance(v, (Rec, Opaque, Ref, PyModel, LambdaVal, BoundMethod)):
            raise Unmodelled(f'type() of {v!r}')
        if isinstance(v, _PURE_TYPES):
            mod_ = type(v).__module__.lstrip('_')
            return Ref(f'ext:{mod_}.{type(v).__name__}')
        return Ref('builtin:NoneType' if v is None else f'builtin:{type(v).__name__}')

    def _class_refs(self, v):
        """Flatten the second argument of isinstance (a class value or nested tuples of them) to a tuple of refs."""
        if isinstance(v, Ref):
            return (v.ref,)
        if isinstance(v, (tuple, list)):
            out = ()
            for e in v:
                out += self._class_refs(e)
            return out
        raise Unmodelled(f'isinstance against {v!r}')

    def _isinstance(self, val, refs):
        """Default class lattice: native values against builtin types, abstract instances against package classes
        (through the MRO, external bases included), exception classes standing for their instances."""
        refs = refs if isinstance(refs, tuple) else (refs,)
        flat = ()
        for r in refs:
            flat += r if isinstance(r, tuple) else (r,)
        if any(r is None for r in flat):
            raise Unmodelled('isinstance against an unresolved class')
        if isinstance(val, Opaque):
            raise Unmodelled(f'isinstance of an opaque value {val!r}')
        cls = None
        if isinstance(val, Rec):
            cls = val.f.get('cls')
        elif isinstance(val, PyModel):
            cls = getattr(val, 'cls', None)
        elif isinstance(val, Ref) and not isinstance(val, bool):
            cls = val.ref      # an exception class stands for an instance of it
        if isinstance(cls, str):
            if cls.startswith('pkg:'):
                bases = set(self.a.res.base_refs(cls))
                ext_exc = any(b.startswith('builtin:') for b in bases)
                for r in flat:
                    if r == cls or r in bases:
                        return True
                    if r in ('builtin:Exception', 'builtin:BaseException') and ext_exc:
                        return True
                    if r == 'builtin:object':
                        return True
                return False
            if cls.startswith('builtin:'):
                py = getattr(_builtins, cls[8:], None)
                for r in flat:
                    other = getattr(_builtins, r[8:], None) if r.startswith('builtin:') else None
                    if isinstance(py, type) and isinstance(other, type) and issubclass(py, other):
                        return True
                return False
            return any(r == cls for r in flat)
        if isinstance(val, (Rec, PyModel, LambdaVal, BoundMethod)):
            if isinstance(val, Rec) and 'cls' not in val.f:
                raise Unmodelled('isinstance of an abstract record without a class')
            return False
        for r in flat:
            if r == 'builtin:NoneType' and val is None:
                return True
            if r.startswith('builtin:'):
                py = getattr(_builtins, r[8:], None)
                if isinstance(py, type) and isinstance(val, py):
                    return True
            elif r.startswith('ext:') and r[4:].split('.')[0] in _PURE_LIBS:
                py = _PURE_LIBS[r[4:].split('.')[0]]
                for part in r[4:].split('.')[1:]:
                    py = getattr(py, part, None)
                if isinstance(py, type) and isinstance(val, py):
                    return True
        return False

    def _binop(self, op, l, r):
        name = _BINOP_DUNDER.get(type(op))
        if isinstance(l, Rec) and isinstance(l.f.get('cls'), str) and name:
            found, res = self._dunder(l, f'__{name}__', r)
            if found and not (isinstance(res, Ref) and res.ref == 'builtin:NotImplemented'):
                return res
        if isinstance(r, Rec) and isinstance(r.f.get('cls'), str) and name:
            found, res = self._dunder(r, f'__r{name}__', l)
            if found and not (isinstance(res, Ref) and res.ref == 'builtin:NotImplemented'):
                return res
        if isinstance(l, (Opaque, Ref, Rec)) or isinstance(r, (Opaque, Ref, Rec)):
            return Opaque('binop')
        if isinstance(op, ast.Pow) and isinstance(l, int) and isinstance(r, int) and not isinstance(l, bool) and abs(l) > 1 and r > 4096:
            if r * max(1, abs(l).bit_length()) > 4000000:
                raise Unmodelled('integer power with more than four million bits (the analysed code would not finish either)')
        if isinstance(op, ast.LShift) and isinstance(r, int) and r > 4000000:
            raise Unmodelled('shift by more than four million bits')
        try:
            return _BIN[type(op)](l, r)
        except ZeroDivisionError:
            raise ExcRaised(Ref('builtin:ZeroDivisionError'))
        except OverflowError:
            raise ExcRaised(Ref('builtin:OverflowError'))
        except TypeError:
            raise ExcRaised(Ref('builtin:TypeError'))

    def _eq(self, a, b):
        return self.truth(self._compare(ast.Eq(), a, b, None))

    def _contains(self, container, item):
        if isinstance(container, Rec):
            found, res = self._dunder(container, '__contains__', item)
            if found:
                return self.truth(res)
            raise Unmodelled(f'membership in {container!r}')
        if isinstance(container, (Opaque, Ref)):
            raise Unmodelled(f'membership in symbolic {container!r}')
        if isinstance(container, PyModel) and hasattr(container, '__contains__'):
            return bool(container.__contains__(item))          # a library model decides membership its own way
        if isinstance(item, Opaque):
            raise Unmodelled('membership of an opaque value')
        if isinstance(item, Rec) and isinstance(item.f.get('cls'), str) and not isinstance(container, str):
            # `x in seq` is `any(x is e or x == e for e in seq)`; x == e goes through the class's __eq__
            elems = list(container.keys()) if isinstance(container, dict) else list(container)
            for e in elems:
                if e is item or self._eq(item, e):
                    return True
            return False
        if isinstance(container, (list, tuple)) and any(isinstance(e, Rec) and isinstance(e.f.get('cls'), str) for e in container):
            for e in container:
                if e is item or self._eq(item, e):
                    return True
            return False
        try:
            return item in container
        except TypeError:
            raise ExcRaised(Ref('builtin:TypeError'))

    def _ext_is_callable(self, ref):
        """Does ext:<dotted> name a class or function (something no plain value is equal to)? Known for the pure libraries by
        looking, for results of calls never, for the rest by the capitalised-class / lower-case-function convention of a call target."""
        if '(' in ref:
            return False
        parts_ = ref[4:].split('.')
        if parts_[0] in _PURE_LIBS:
            obj_ = _PURE_LIBS[parts_[0]]
            for p_ in parts_[1:]:
                obj_ = getattr(obj_, p_, None)
            return callable(obj_) or isinstance(obj_, type(_re))
        return ref in self.call_models or len(parts_) == 1

    def _compare(self, op, left, right, node):
        if isinstance(op, (ast.Is, ast.IsNot)):
            same_ = left is right or (isinstance(left, Ref) and isinstance(right, Ref) and left == right)
            if same_ and left is not right and '(' in left.ref:
                raise Unmodelled(f'identity of two results of library calls ({left.ref})')     # equal descriptions, unknown identity
            return same_ if isinstance(op, ast.Is) else not same_
        if isinstance(op, ast.In):
            return self._contains(right, left)
        if isinstance(op, ast.NotIn):
            return not self._contains(right, left)
        name, refl = _CMP_DUNDER[type(op)]
        lrec = isinstance(left, Rec) and isinstance(left.f.get('cls'), str)
        rrec = isinstance(right, Rec) and isinstance(right.f.get('cls'), str)
        not_impl = lambda v: isinstance(v, Ref) and v.ref == 'builtin:NotImplemented'  # noqa: E731
        if lrec:
            found, res = self._dunder(left, name, right)
            if found and not not_impl(res):
                return res
            if not found and isinstance(op, ast.NotEq):
                found, res = self._dunder(left, '__eq__', right)
                if found and not not_impl(res):
                    return not self.truth(res)
        if rrec:
            found, res = self._dunder(right, refl, left)
            if found and not not_impl(res):
                return res
            if not found and isinstance(op, ast.NotEq):
                found, res = self._dunder(right, '__eq__', left)
                if found and not not_impl(res):
                    return not self.truth(res)
        if isinstance(left, Opaque) or isinstance(right, Opaque):
            raise Unmodelled(f'comparison with opaque value: {ast.unparse(node)[:60] if node is not None else ""}')
        if type(left) is type(right) and isinstance(left, (list, tuple)) and any(isinstance(x_, Rec) for x_ in list(left) + list(right)):
            # sequences of abstract instances: Python's element-wise protocol (identity, then the elements' own ==)
            same_ = lambda x_, y_: x_ is y_ or self.truth(self._compare(ast.Eq(), x_, y_, None))    # noqa: E731
            if isinstance(op, (ast.Eq, ast.NotEq)):
                eq_ = len(left) == len(right) and all(same_(x_, y_) for x_, y_ in zip(left, right))
                return eq_ if isinstance(op, ast.Eq) else not eq_
            for x_, y_ in zip(left, right):
                if not same_(x_, y_):
                    return self._compare(op, x_, y_, None)
            return _CMP[type(op)](len(left), len(right))
        for x_, y_ in ((left, right), (right, left)):
            if isinstance(x_, Ref) and x_.ref.startswith('ext:') and not isinstance(y_, (Ref, type(None), bool)) and not self._ext_is_callable(x_.ref):
                # a library attribute whose value is not known here: equal or not cannot be told
                raise Unmodelled(f'comparison of {y_!r} with the library value {x_.ref}')
        try:
            return _CMP[type(op)](left, right)
        except TypeError:
            if (lrec or rrec) or isinstance(left, (Rec, Ref, PyModel)) or isinstance(right, (Rec, Ref, PyModel)):
                raise Unmodelled(f'comparison {ast.unparse(node)[:60] if node is not None else ""} on {left!r},{right!r}')
            raise ExcRaised(Ref('builtin:TypeError'))

    # ------------------------------------------------------------------------------------------------------
    def _dataclass_fields(self, ref):
        """[(name, default node or None, init?)] of a dataclass, base classes first; None when the class is no dataclass."""
        is_dc = False
        fields = []
        for m_, cnode in reversed(self.a.res.mro(ref)):
            if any((isinstance(d, ast.Name) and d.id == 'dataclass') or (isinstance(d, ast.Attribute) and d.attr == 'dataclass')
                   or (isinstance(d, ast.Call) and ((isinstance(d.func, ast.Name) and d.func.id == 'dataclass')
                                                    or (isinstance(d.func, ast.Attribute) and d.func.attr == 'dataclass')))
                   for d in cnode.decorator_list):
                is_dc = True
            for st in cnode.body:
                if isinstance(st, ast.AnnAssign) and isinstance(st.target, ast.Name):
                    init = True
                    default = st.value
                    if isinstance(st.value, ast.Call) and ((isinstance(st.value.func, ast.Name) and st.value.func.id == 'field')
                                                           or (isinstance(st.value.func, ast.Attribute) and st.value.func.attr == 'field')):
                        default = None
                        for k in st.value.keywords:
                            if k.arg == 'init' and isinstance(k.value, ast.Constant) and k.value.value is False:
                                init = False
                            if k.arg == 'default':
                                default = k.value
                            if k.arg == 'default_factory':
                                default = ast.Call(func=k.value, args=[], keywords=[])
                                ast.copy_location(default, st.value)
                                ast.fix_missing_locations(default)
                                default._module = m_
                    fields = [f for f in fields if f[0] != st.target.id] + [(st.target.id, default, init, m_)]
        return fields if is_dc else None

    def _construct(self, ref, args, kwargs):
        self.out.events.append(('construct', (ref,) + tuple(args)))
        cm_new, new = self._find_method(ref, '__new__')
        inst = None
        if new is not None and self.depth < self.max_depth:
            try:
                inst = self._inline(cm_new, new, [Ref(ref)] + list(args), dict(kwargs), self_class=ref)
            except Unmodelled:
                inst = None
            if inst is not None and not (isinstance(inst, Rec) and isinstance(inst.f.get('cls'), str)
                                         and (inst.f['cls'] == ref or self.a.res.is_subclass(inst.f['cls'], ref))):
                return inst
        if inst is None:
            inst = Rec(cls=ref)
        inst.f.setdefault('args', tuple(args))
        inst.f.setdefault('kwargs', kwargs)
        builtin_base_ = self._builtin_container_base(ref)
        if builtin_base_ is not None and '__native__' not in inst.f:
            cm_i, init_i = self._find_method(ref, '__init__')
            try:
                inst.f['__native__'] = builtin_base_(*args, **kwargs) if init_i is None else builtin_base_()
            except (TypeError, ValueError) as exc:
                raise ExcRaised(Ref(f'builtin:{type(exc).__name__}'))
        nt_names_ = self._namedtuple_fields(ref)
        if nt_names_ is not None:
            bound_ = dict(zip(nt_names_, args))
            if len(args) > len(nt_names_) or any(k_ not in nt_names_ or k_ in bound_ for k_ in kwargs):
                raise ExcRaised(Ref('builtin:TypeError'))
            bound_.update(kwargs)
            if any(n_ not in bound_ for n_ in nt_names_):
                raise ExcRaised(Ref('builtin:TypeError'))
            inst = Rec(cls=ref, **bound_)
            inst.f['__nt__'] = tuple(nt_names_)
            return inst
        if any(b == 'ext:typing.NamedTuple' for b in self.a.res.base_refs(ref)):
            names_, defaults_ = [], {}
            for m_, cnode_ in reversed(self.a.res.mro(ref)):
                for st_ in cnode_.body:
                    if isinstance(st_, ast.AnnAssign) and isinstance(st_.target, ast.Name):
                        names_.append(st_.target.id)
                        if st_.value is not None:
                            defaults_[st_.target.id] = (m_, st_.value)
            bound_ = dict(zip(names_, args))
            bound_.update(kwargs)
            for n_ in names_:
                if n_ not in bound_:
                    if n_ not in defaults_:
                        raise ExcRaised(Ref('builtin:TypeError'))
                    bound_[n_] = Interp(self.a, defaults_[n_][0], {}, world=self.world).ev(defaults_[n_][1])
            inst = Rec(cls=ref, **bound_)
            inst.f['__nt__'] = tuple(names_)
            return inst
        fields = self._dataclass_fields(ref)
        cm0, init0 = self._find_method(ref, '__init__')
        if fields is not None and init0 is None:
            names = [f[0] for f in fields if f[2]]
            for name_, val_ in zip(names, args):
                inst.set(name_, val_)
            for name_, val_ in kwargs.items():
                if name_ in names:
                    inst.set(name_, val_)
            for name_, default, init, m_ in fields:
                if name_ not in inst.f and default is not None:
                    try:
                        inst.set(name_, Interp(self.a, m_, {}, isinstance_fn=self.isinstance_fn, call_models=self.call_models,
                                               world=self.world).ev(default))
                    except Unmodelled:
                        pass
            cmp_, post = self._find_method(ref, '__post_init__')
            if post is not None and self.depth < self.max_depth and self.inline_pkg:
                snapshot = dict(inst.f)
                try:
                    self._inline(cmp_, post, [inst], {}, self_class=ref)
                except Unmodelled:
                    inst.f.clear()
                    inst.f.update(snapshot)
                    self.out.events.append(('<init-unmodelled>', (ref,)))
            return inst
        if init0 is not None and self.depth < self.max_depth:
            snapshot = dict(inst.f)
            try:
                self._inline(cm0, init0, [inst] + list(args), dict(kwargs), self_class=ref)
                return inst
            except Unmodelled:
                inst.f.clear()
                inst.f.update(snapshot)
                self.out.events.append(('<init-unmodelled>', (ref,)))
        # fallback: bind `self.x = <parameter>` assignments of the constructors syntactically
        if fields is not None:
            names = [f[0] for f in fields if f[2]]
            for name_, val_ in zip(names, args):
                inst.f.setdefault(name_, val_)
            for name_, val_ in kwargs.items():
                if name_ in names:
                    inst.f.setdefault(name_, val_)
        for ctor in ('__new__', '__init__'):
            cm_, cfn = self._find_method(ref, ctor)
            if cfn is not None:
                params = [a.arg for a in cfn.args.args][1:]
                bound = dict(zip(params, args))
                bound.update(kwargs)
                for st in ast.walk(cfn):
                    if isinstance(st, ast.Assign) and len(st.targets) == 1 and isinstance(st.targets[0], ast.Attribute) \
                            and isinstance(st.targets[0].value, ast.Name) and isinstance(st.value, ast.Name) \
                            and st.value.id in bound and st.targets[0].attr not in inst.f:
                        inst.set(st.targets[0].attr, bound[st.value.id])
        return inst

    def _builtin_container_base(self, ref):
        """dict / list / set when the package class (transitively) subclasses that builtin."""
        seen_, todo_ = set(), [ref]
        while todo_:
            r_ = todo_.pop()
            if r_ in seen_:
                continue
            seen_.add(r_)
            for b_ in self.a.res.base_refs(r_):
                if b_ in ('builtin:dict', 'builtin:list', 'builtin:set'):
                    return {'builtin:dict': dict, 'builtin:list': list, 'builtin:set': set}[b_]
                if b_.startswith('pkg:'):
                    todo_.append(b_)
        return None

    def _super_call(self, attr, args, kwargs):
        """super().attr(...) inside a method of def_class, for the run-time class of the receiver."""
        if self.def_class is None or self.first_param is None or self.first_param not in self.env:
            raise Unmodelled('super() outside a modelled method')
        me = self.env[self.first_param]
        runtime = me.f.get('cls') if isinstance(me, Rec) else (me.ref if isinstance(me, Ref) else None)
        if not isinstance(runtime, str):
            raise Unmodelled('super() with an unmodelled receiver')
        chain = [self.a.res.class_ref(m_, c_) for m_, c_ in self.a.res.mro(runtime)]
        if self.def_class not in chain:
            raise Unmodelled('super(): defining class not in the MRO of the receiver')
        rest = chain[chain.index(self.def_class) + 1:]
        for nxt in rest:
            m_, cnode = self.a.res.lookup(nxt)
            for st in cnode.body:
                if isinstance(st, ast.FunctionDef) and st.name == attr:
                    if attr == '__new__' or self._decorated(st, 'staticmethod'):
                        return self._inline(m_, st, list(args), kwargs, self_class=runtime)
                    if self._decorated(st, 'classmethod'):
                        return self._inline(m_, st, [Ref(runtime)] + list(args), kwargs, self_class=runtime)
                    return self._inline(m_, st, [me] + list(args), kwargs, self_class=runtime)
        # the next definition is outside the package (object, Exception, a library class)
        ext = [b for b in self.a.res.base_refs(runtime) if not b.startswith('pkg:')]
        if attr == '__new__':
            cls_arg = args[0] if args and isinstance(args[0], Ref) else Ref(runtime)
            if any(not b.startswith('builtin:') for b in ext):
                raise Unmodelled(f'construction of a subclass of the library class {ext}')
            return Rec(cls=cls_arg.ref)
        if attr == '__init__':
            if isinstance(me, Rec) and all(b.startswith('builtin:') for b in ext):
                me.set('args', tuple(args))     # Exception.__init__ keeps its arguments
                return None
            raise Unmodelled(f'super().__init__ of the library class {ext}')
        raise Unmodelled(f'super().{attr} resolves outside the package')

    def _module_init(self, gref, obj):
        """Import-time effects on a module-level container: plain decorators of the same module that store into it
        (`@register` classes filling NATIVE_TO_XLTYPE) are replayed once, in source order."""
        if gref in self.world.initialised:
            return
        self.world.initialised.add(gref)
        store_ = obj.f.get('__native__') if isinstance(obj, Rec) else obj
        icache_ = self.a.__dict__.setdefault('_module_init_cache', {})
        if gref in icache_ and isinstance(store_, dict) and not self.call_models.keys() & icache_[gref][1]:
            store_.update(icache_[gref][0])      # same source, same registrations: replayed once per analysis
            return
        before_ = len(self.world.globals)
        self._module_init_uncached(gref, obj)
        if isinstance(store_, dict) and all(_immutable(k_) and _immutable(v_) for k_, v_ in store_.items()) \
                and len(self.world.globals) == before_:
            icache_[gref] = (dict(store_), frozenset())

    def _module_init_uncached(self, gref, obj):
        _, mod, name = gref.split(':', 2)
        m = self.a.repo.modules.get(mod)
        if m is None or '.' in name:
            return
        writers = {}
        for qual, fnode in m.funcs.items():
            if '.' in qual:
                continue
            for x in ast.walk(fnode):
                if isinstance(x, ast.Name) and x.id == name and name not in {a_.arg for a_ in fnode.args.args}:
                    writers[qual] = fnode
        if not writers:
            return
        for om in self.a.repo.modules.values():
            for node in om.tree.body:
                if isinstance(node, (ast.ClassDef, ast.FunctionDef)):
                    for d in reversed(node.decorator_list):
                        t = d.func if isinstance(d, ast.Call) else d
                        if isinstance(t, (ast.Name, ast.Attribute)):
                            r = self.a.res.resolve(t, om)
                            if r and r.startswith(f'pkg:{mod}:') and r.split(':', 2)[2] in writers:
                                target = Ref(f'pkg:{om.name}:{node.name}')
                                try:
                                    if isinstance(d, ast.Call):
                                        sub = Interp(self.a, om, {}, isinstance_fn=self.isinstance_fn, call_models=self.call_models,
                                                     inline_pkg=True, depth=self.depth + 1, world=self.world)
                                        sub.invoke(sub.ev(d), [target], {})
                                    else:
                                        sub = Interp(self.a, m, {}, isinstance_fn=self.isinstance_fn, call_models=self.call_models,
                                                     inline_pkg=True, depth=self.depth + 1, world=self.world)
                                        sub._inline(m, writers[r.split(':', 2)[2]], [target], {})
                                except (Unmodelled, ExcRaised) as exc:
                                    raise Unmodelled(f'import-time initialisation of {gref} by @{r} on {node.name}: {exc}')

    def _with(self, s, i):
        """with-statement, item i onwards. A context manager written as a generator (@contextmanager) is interpreted:
        code before the yield, the body, code after the yield - an exception of the body is raised AT the yield."""
        if i == len(s.items):
            self.block(s.body)
            return
        item = s.items[i]
        target = self._ctxmgr(item.context_expr)
        if target is None:
            val = self.ev(item.context_expr)
            native = type(val).__module__ in ('decimal', '_decimal', '_pydecimal') and hasattr(val, '__enter__')
            if native:
                entered = val.__enter__()
                try:
                    if item.optional_vars is not None:
                        self.store(item.optional_vars, entered)
                    self._with(s, i + 1)
                finally:
                    val.__exit__(None, None, None)
                return
            if isinstance(val, _Suppress):
                try:
                    if item.optional_vars is not None:
                        self.store(item.optional_vars, None)
                    self._with(s, i + 1)
                except ExcRaised as r_:
                    if not any(self._exc_is(r_.exc, c_) for c_ in val.classes):
                        raise
                return
            if isinstance(val, Rec) and isinstance(val.f.get('cls'), str) and self._find_method(val.f['cls'], '__exit__')[1] is not None:
                # the context-manager protocol of a package class: __enter__, the body, __exit__ on every way out
                found_, entered = self._dunder(val, '__enter__')
                if item.optional_vars is not None:
                    self.store(item.optional_vars, entered if found_ else val)
                try:
                    self._with(s, i + 1)
                except ExcRaised as r_:
                    exc_ = r_.exc
                    _, swallow = self._dunder(val, '__exit__', self._type_of(exc_) if isinstance(exc_, (Ref, Rec)) else None, exc_, Opaque('traceback'))
                    if not self.truth(swallow) if not isinstance(swallow, (Opaque,)) else True:
                        raise
                    return
                except (_Return, _Break, _Continue):
                    self._dunder(val, '__exit__', None, None, None)
                    raise
                self._dunder(val, '__exit__', None, None, None)
                return
            if isinstance(val, PyModel) and hasattr(val, '__exit__'):
                entered = val.__enter__() if hasattr(val, '__enter__') else val
                if item.optional_vars is not None:
                    self.store(item.optional_vars, entered)
                try:
                    self._with(s, i + 1)
                except ExcRaised as r_:
                    if not val.__exit__(Ref('builtin:Exception'), r_.exc, None):
                        raise
                    return
                except (_Return, _Break, _Continue):
                    val.__exit__(None, None, None)
                    raise
                val.__exit__(None, None, None)
                return
            if item.optional_vars is not None:
                self.store(item.optional_vars, val)
            self._with(s, i + 1)
            return
        om, fnode, args, kwargs, self_class = target
        pending = []
        state = {'yielded': 0}

        def on_yield(value):
            state['yielded'] += 1
            if state['yielded'] > 1:
                raise Unmodelled('context manager yields twice')
            if item.optional_vars is not None:
                self.store(item.optional_vars, value)
            try:
                self._with(s, i + 1)
            except (_Return, _Break, _Continue) as flow:
                pending.append(flow)      # leaving the body normally: the manager resumes after the yield

        params = [a.arg for a in fnode.args.posonlyargs + fnode.args.args]
        env = dict(zip(params, args))
        env.update(kwargs)
        sub = Interp(self.a, om, env, isinstance_fn=self.isinstance_fn, call_models=self.call_models, inline_pkg=self.inline_pkg,
                     depth=self.depth + 1, self_class=self_class, record_unknown=self.record_unknown, scope_fn=fnode, world=self.world)
        sub.dunder_truth = self.dunder_truth
        sub.def_class = self._def_class_of(om, fnode)
        sub.first_param = params[0] if params else None
        sub._on_yield = on_yield
        try:
            sub.block(fnode.body)
        except _Return:
            pass
        finally:
            self.out.events.extend(sub.out.events)
        if not state['yielded']:
            raise Unmodelled('context manager does not yield')
        if pending:
            raise pending[0]

    def _ctxmgr(self, expr):
        """(module, FunctionDef, args, kwargs, self_class) when expr calls a package generator decorated with contextmanager."""
        if not isinstance(expr, ast.Call):
            return None
        fn = expr.func
        om = fnode = None
        first = []
        self_class = self.self_class
        if isinstance(fn, ast.Attribute):
            recv = self._safe_ev(fn.value)
            cref = None
            if isinstance(recv, Rec) and isinstance(recv.f.get('cls'), str):
                cref = recv.f['cls']
            elif isinstance(fn.value, ast.Name) and fn.value.id in ('self', 'cls') and self.self_class:
                cref = self.self_class
            if cref:
                om, fnode = self._find_method(cref, fn.attr)
                if fnode is not None and not self._decorated(fnode, 'staticmethod'):
                    first = [recv if isinstance(recv, Rec) else (self.env.get(fn.value.id) if isinstance(fn.value, ast.Name) else None)]
                self_class = cref
        if fnode is None and isinstance(fn, (ast.Name, ast.Attribute)):
            ref = self.a.res.resolve(fn, self.m)
            if ref in self.call_models:
                return None         # a modelled context manager: its model is called like any other function
            om, fnode = self.a.res.lookup(ref) if ref else (None, None)
        if not isinstance(fnode, ast.FunctionDef) or not self._decorated(fnode, 'contextmanager'):
            return None
        args = first + [self.ev(a) for a in expr.args]
        kwargs = {k.arg: self.ev(k.value) for k in expr.keywords if k.arg}
        return om, fnode, args, kwargs, self_class

    def _pure_call(self, dotted_name, args, kwargs):
        """(done, value): a call into re / datetime / math with concrete arguments is folded."""
        parts = dotted_name.split('.')
        if parts[0] not in _PURE_LIBS or dotted_name in _PURE_DENY:
            return False, None
        if parts[0] == 'math' and len(parts) == 2 and any(isinstance(a, Rec) and isinstance(a.f.get('cls'), str) for a in args) and not kwargs:
            # the math module converts its arguments through the number protocol of their class
            special = {'floor': '__floor__', 'ceil': '__ceil__', 'trunc': '__trunc__'}.get(parts[1])
            conv = []
            for a in args:
                if isinstance(a, Rec) and isinstance(a.f.get('cls'), str):
                    if special:
                        found, res = self._dunder(a, special)
                        if found:
                            return True, res
                        if parts[1] == 'trunc':
                            raise ExcRaised(Ref('builtin:TypeError'))
                    found, res = self._dunder(a, '__float__')
                    if not found:
                        found, res = self._dunder(a, '__index__')
                    if not found:
                        raise ExcRaised(Ref('builtin:TypeError'))
                    if isinstance(res, Rec):
                        raise Unmodelled('__float__ of an abstract instance returns an abstract instance')
                    conv.append(res)
                else:
                    conv.append(a)
            args = conv
        if parts[0] in ('datetime', 're', 'decimal') and any(isinstance(a, Rec) and isinstance(a.f.get('cls'), str)
                                                             for a in list(args) + list(kwargs.values())):
            # these C-level constructors / functions type-check their arguments: an instance of a package class is a TypeError
            raise ExcRaised(Ref('builtin:TypeError'))
        if not all(_concrete(a) for a in args) or not all(_concrete(v) for v in kwargs.values()):
            return False, None
        obj = _PURE_LIBS[parts[0]]
        for p_ in parts[1:]:
            obj = getattr(obj, p_, None)
            if obj is None:
                return False, None
        if not callable(obj):
            return False, None
        try:
            return True, obj(*args, **kwargs)
        except Exception as exc:
            raise ExcRaised(_exc_ref(exc))

    def _transparent_decorator(self, d):
        """Decorators that do not change what a local function does: functools.wraps(...)."""
        t = d.func if isinstance(d, ast.Call) else d
        r = self.a.res.resolve(t, self.m) if isinstance(t, (ast.Name, ast.Attribute)) else None
        return r in ('ext:functools.wraps',)


# ----------------------------------------------------------------------------------------------------------
# constants of installed libraries (openpyxl's regular expressions ...): folded from the library's source text
# ----------------------------------------------------------------------------------------------------------
_EXT_CONST_CACHE = {}


def _site_dirs():
    import glob
    import sys as _sys
    out = list(glob.glob('/venv/lib/python*/site-packages'))
    out += [p for p in _sys.path if p.endswith('site-packages')]
    return out


def ext_constant(dotted_name):
    """Value of a module-level constant of an installed pure-Python library (strings, numbers, re.compile of those), or
    raises KeyError. Only simple assignments are folded, in source order; nothing of the library is imported or run."""
    if dotted_name in _EXT_CONST_CACHE:
        v = _EXT_CONST_CACHE[dotted_name]
        if isinstance(v, KeyError):
            raise v
        return v
    import os
    modname, _, name = dotted_name.rpartition('.')
    path = None
    for d in _site_dirs():
        cand = os.path.join(d, *modname.split('.')) + '.py'
        if os.path.exists(cand):
            path = cand
            break
    try:
        if path is None:
            raise KeyError(dotted_name)
        tree = ast.parse(open(path, encoding='utf-8').read())
        env = {}

        def fold(n):
            if isinstance(n, ast.Constant) and isinstance(n.value, (str, int, float, bytes)):
                return n.value
            if isinstance(n, ast.Name) and n.id in env:
                return env[n.id]
            if isinstance(n, ast.BinOp) and isinstance(n.op, (ast.Add, ast.BitOr)):
                return fold(n.left) + fold(n.right) if isinstance(n.op, ast.Add) else fold(n.left) | fold(n.right)
            if isinstance(n, ast.Attribute) and isinstance(n.value, ast.Name) and n.value.id == 're' and n.attr.isupper():
                return getattr(_re, n.attr)
            if isinstance(n, ast.Call) and isinstance(n.func, ast.Attribute) and isinstance(n.func.value, ast.Name) \
                    and n.func.value.id == 're' and n.func.attr == 'compile':
                return _re.compile(*[fold(a) for a in n.args])
            if isinstance(n, ast.Call) and isinstance(n.func, ast.Attribute) and n.func.attr == 'format' and not n.keywords:
                return fold(n.func.value).format(*[fold(a) for a in n.args])
            raise KeyError(dotted_name)
        for st in tree.body:
            if isinstance(st, ast.Assign) and len(st.targets) == 1 and isinstance(st.targets[0], ast.Name):
                try:
                    env[st.targets[0].id] = fold(st.value)
                except KeyError:
                    pass
        if name not in env:
            raise KeyError(dotted_name)
        _EXT_CONST_CACHE[dotted_name] = env[name]
        return env[name]
    except KeyError as exc:
        _EXT_CONST_CACHE[dotted_name] = exc
        raise


def _global(self, gref, n):
    """Value of a name that is not local: an object of the world, a module-level object of the package (folded or
    interpreted in its own module), a library constant, or a symbolic reference."""
    if gref in self.world.globals:
        return self.world.globals[gref]
    gcache = self.a.__dict__.setdefault('_global_cache', {})
    if gref and (gref, self.m.name) in gcache and gref not in self.call_models:
        kind_, val_ = gcache[(gref, self.m.name)]
        if kind_ == 'const':
            return val_
        if kind_ == 'template':
            import copy as _copy
            val_ = _copy.copy(val_)
            self.world.globals[gref] = val_
            return val_
    val = _global_uncached(self, gref, n)
    if gref and gref not in self.call_models:
        if _immutable(val):
            gcache[(gref, self.m.name)] = ('const', val)
        elif isinstance(val, dict) and gref in self.world.globals and self.world.globals[gref] is val \
                and all(_immutable(k_) and _immutable(v_) for k_, v_ in val.items()):
            import copy as _copy
            gcache[(gref, self.m.name)] = ('template', _copy.copy(val))
    return val


def _copy_value(self, v, deep, memo):
    """copy.copy / copy.deepcopy of a value of the abstract heap (classes defining __copy__ / __deepcopy__ are not modelled)."""
    if id(v) in memo:
        return memo[id(v)]
    if _immutable(v) or isinstance(v, (BoundMethod, LambdaVal, Closure, RawFunc)) or callable(v) and not isinstance(v, PyModel):
        return v
    if isinstance(v, Rec):
        cref = v.f.get('cls')
        if isinstance(cref, str) and any(self._find_method(cref, d_)[1] is not None for d_ in ('__copy__', '__deepcopy__', '__reduce__', '__reduce_ex__')):
            raise Unmodelled('copy of an instance whose class customises copying')
        if isinstance(cref, str) and (self._find_method(cref, '__getstate__')[1] is not None or self._find_method(cref, '__setstate__')[1] is not None):
            # the copy protocol of object.__reduce_ex__: state from __getstate__ (default: the attribute dictionary), copied, then
            # handed to __setstate__ of a new instance (default: its attribute dictionary is updated)
            found_, state_ = self._dunder(v, '__getstate__')
            if not found_:
                state_ = {k_: x_ for k_, x_ in v.f.items() if k_ != 'cls'}
            if isinstance(state_, dict):
                state_ = {k_: x_ for k_, x_ in state_.items() if k_ != 'cls'}
            state_ = _copy_value(self, state_, True, memo) if deep else state_
            out = Rec(cls=cref)
            memo[id(v)] = out
            found_, _ = self._dunder(out, '__setstate__', state_)
            if not found_:
                if not isinstance(state_, dict):
                    raise Unmodelled('__getstate__ returns something that is not a dict and there is no __setstate__')
                out.f.update(state_)
            return out
        out = Rec()
        memo[id(v)] = out
        for k_, x_ in v.f.items():
            out.f[k_] = _copy_value(self, x_, True, memo) if deep else (type(x_)(x_) if k_ == '__native__' else x_)
        return out
    if isinstance(v, (list, set, dict, tuple)):
        if not deep:
            import copy as _c
            return _c.copy(v)
        if isinstance(v, dict):
            out = type(v)() if type(v) is dict else dict()
            memo[id(v)] = out
            for k_, x_ in v.items():
                out[_copy_value(self, k_, True, memo)] = _copy_value(self, x_, True, memo)
            return out
        if isinstance(v, tuple):
            return tuple(_copy_value(self, x_, True, memo) for x_ in v)
        out = type(v)()
        memo[id(v)] = out
        for x_ in v:
            (out.append if isinstance(out, list) else out.add)(_copy_value(self, x_, True, memo))
        return out
    if isinstance(v, _PURE_TYPES):
        return v
    if isinstance(v, PyModel) and getattr(v, '_copy_fields', None):
        out = object.__new__(type(v))
        memo[id(v)] = out
        for name_ in v._copy_fields:
            setattr(out, name_, _copy_value(self, getattr(v, name_), True, memo) if deep else getattr(v, name_))
        return out
    raise Unmodelled(f'copy of {type(v).__name__}')


def _has_call_ref(v, depth=0):
    """Does a folded container hold the folder's symbolic stand-in for the result of a library call (Ref('ext:f(...)'))?"""
    if isinstance(v, Ref):
        return '(' in v.ref
    if isinstance(v, Obj):
        return True         # the folder's stand-in for an instance of a package class: the interpreter builds the real one
    if depth < 4 and isinstance(v, dict):
        return any(_has_call_ref(k, depth + 1) or _has_call_ref(x, depth + 1) for k, x in v.items())
    if depth < 4 and isinstance(v, (list, tuple, set, frozenset)):
        return any(_has_call_ref(x, depth + 1) for x in v)
    return False


def _immutable(v, depth=0):
    if v is None or isinstance(v, (bool, int, float, str, bytes, Ref, TypingAlias, frozenset) + _PURE_TYPES[:6]):
        return True
    if isinstance(v, tuple) and depth < 4:
        return all(_immutable(x, depth + 1) for x in v)
    return False


def _global_uncached(self, gref, n):
    if gref and gref.startswith('ext:') and gref not in self.call_models:
        parts_ = gref[4:].split('.')
        if parts_[0] in _PURE_LIBS and len(parts_) > 1:
            obj_ = _PURE_LIBS[parts_[0]]
            for p_ in parts_[1:]:
                obj_ = getattr(obj_, p_, None)
            if isinstance(obj_, (str, int, float)) and not isinstance(obj_, bool):
                return obj_
            if isinstance(obj_, (_dt.time, _dt.date, _dt.timedelta, _decimal.Decimal, _dt.timezone)):     # immutable values (time.min, datetime.max, ...)
                return obj_
        if parts_[0] in _FLAG_LIBS and len(parts_) == 2 and isinstance(getattr(_FLAG_LIBS[parts_[0]], parts_[1], None), (int, str)):
            return getattr(_FLAG_LIBS[parts_[0]], parts_[1])          # os.O_WRONLY, os.sep, stat.S_IRUSR, errno.ENOENT: platform constants
        if gref in _EXT_VALUES:
            return _EXT_VALUES[gref]
        try:
            return ext_constant(gref[4:])
        except KeyError:
            pass
    gm_, gnode_ = self.a.res.lookup(gref) if gref and gref.startswith('pkg:') else (None, None)
    if isinstance(gnode_, ast.Call) and isinstance(gnode_.func, (ast.Name, ast.Attribute)):
        cref_ = self.a.res.resolve(gnode_.func, gm_)
        if cref_ and cref_.startswith('ext:') and cref_.split('.')[0][4:] not in _PURE_LIBS and cref_ not in self.call_models:
            return Ref(gref)        # NAME = NewType(...), NAME = namedtuple(...): an opaque object known by its name
    if isinstance(gnode_, ast.Call) and isinstance(gnode_.func, (ast.Name, ast.Attribute)) \
            and self._is_pkg_class(self.a.res.resolve(gnode_.func, gm_) or ''):
        # NAME = SomeClass(...): one instance per world (identity matters: `x is UNUSED`, `BLANK`)
        try:
            val = Interp(self.a, gm_, {}, world=self.world, call_models=self.call_models, inline_pkg=True).ev(gnode_)
            if isinstance(val, Rec):
                self.world.globals[gref] = val
                if '__native__' in val.f:
                    self._module_init(gref, val)        # a registry object: what the decorators of the package stored at import time
                return val
        except ExcRaised:
            pass
        except Unmodelled as exc:
            if 'import-time initialisation' in str(exc):
                raise
    if isinstance(gnode_, ast.Subscript):
        try:
            val = Interp(self.a, gm_, {}, world=self.world, call_models=self.call_models).ev(gnode_)
            if isinstance(val, TypingAlias):
                self.world.globals[gref] = val
                return val
        except Unmodelled:
            pass
    try:
        val = self.a.folder.fold(n, self.m)
        if isinstance(gnode_, (ast.Dict, ast.List, ast.Tuple, ast.Set)) and _has_call_ref(val):
            raise Unfoldable('container holds results of library calls')
    except Unfoldable:
        val = None
        if isinstance(gnode_, ast.expr) and not isinstance(gnode_, (ast.Lambda,)):
            # a module-level expression the folder does not know (comprehension, call of a package helper, ...): interpreted
            try:
                val = Interp(self.a, gm_, {}, world=self.world, call_models=self.call_models, inline_pkg=True,
                             depth=self.depth + 1).ev(gnode_)
            except (Unmodelled, ExcRaised):
                val = None
        if val is None:
            if gref:
                return Ref(gref)
            raise Unmodelled(f'unbound name {ast.unparse(n)}')
    if isinstance(val, Ref) and val.ref.startswith('ext:') and '(' in val.ref and gref and gref.startswith('pkg:') \
            and isinstance(gnode_, ast.Call):
        try:
            val2 = Interp(self.a, gm_, {}, world=self.world).ev(gnode_)
            if isinstance(val2, _PURE_TYPES):
                self.world.globals[gref] = val2
                return val2
        except Unmodelled:
            pass
    if isinstance(val, (dict, list, set)) and gref and gref.startswith('pkg:'):
        # a module-level mutable object: one object per world, so that what one call stores the next one finds
        self.world.globals[gref] = val
        self._module_init(gref, val)
    return val


Interp._global = _global


def _aggregate(self, name, args, kwargs):
    """sum / min / max / any / all / sorted over a sequence that holds abstract instances: Python's own algorithm with the
    arithmetic and comparisons of the instances' classes."""
    seq = list(args[0])
    if name in ('any', 'all'):
        res = [self.truth(x) for x in seq]
        return any(res) if name == 'any' else all(res)
    if name == 'sum':
        acc = args[1] if len(args) > 1 else kwargs.get('start', 0)
        for x in seq:
            acc = self._binop(ast.Add(), acc, x)
        return acc
    if kwargs.get('key') is not None:
        raise Unmodelled(f'{name}() with a key function over abstract instances')
    if name in ('min', 'max'):
        if not seq:
            if 'default' in kwargs:
                return kwargs['default']
            raise ExcRaised(Ref('builtin:ValueError'))
        best = seq[0]
        for x in seq[1:]:
            if self.truth(self._compare(ast.Lt() if name == 'min' else ast.Gt(), x, best, None)):
                best = x
        return best
    # sorted: insertion sort with <
    if kwargs.get('reverse'):
        seq.reverse()           # Python's stable descending sort: reverse, sort ascending stably, reverse
    out = []
    for x in seq:
        i = len(out)
        while i > 0 and self.truth(self._compare(ast.Lt(), x, out[i - 1], None)):
            i -= 1
        out.insert(i, x)
    if kwargs.get('reverse'):
        out.reverse()
    return out



Interp._aggregate = _aggregate


# ----------------------------------------------------------------------------------------------------------
# decorated functions, signatures, partial application, match statements
# ----------------------------------------------------------------------------------------------------------
_TRANSPARENT_DECORATORS = {'pkg:xlfunctions.xl:register', 'ext:functools.wraps', 'builtin:staticmethod', 'builtin:classmethod',
                           'builtin:property', 'ext:functools.cached_property',
                           'ext:dataclasses.dataclass', 'ext:contextlib.contextmanager'}


def _effective_decorators(self, om, fnode):
    """Decorators of a package function that change what a call of the function does (the registration decorator returns
    the function unchanged; memoising decorators are judged by the retention rules, not interpreted)."""
    out = []
    for d in fnode.decorator_list:
        t = d.func if isinstance(d, ast.Call) else d
        r = self.a.res.resolve(t, om) if isinstance(t, (ast.Name, ast.Attribute)) else None
        if r in _TRANSPARENT_DECORATORS:
            continue
        out.append(d)
    return out


def _func_object(self, ref, om, fnode):
    """The object bound to the function's name after its decorators ran (innermost first), once per world."""
    if ref in self.world.funcobjs:
        return self.world.funcobjs[ref]
    cur = RawFunc(ref, om, fnode)
    for d in reversed(self._effective_decorators(om, fnode)):
        sub = Interp(self.a, om, {}, isinstance_fn=self.isinstance_fn, call_models=self.call_models, inline_pkg=True,
                     depth=self.depth + 1, world=self.world)
        dec = sub.ev(d)
        cur = sub.invoke(dec, [cur], {})
    self.world.funcobjs[ref] = cur
    return cur


def _signature_of(self, func):
    if isinstance(func, Ref):
        m, node = self.a.res.lookup(func.ref)
        if isinstance(node, ast.FunctionDef):
            if self._effective_decorators(m, node):
                # the name stands for what its decorators produced: the signature is that object's (the wrapped function's only
                # when the wrapper says so, functools.wraps)
                obj_ = self._func_object(func.ref, m, node)
                if not isinstance(obj_, Ref):
                    return self._signature_of(obj_)
            return Sig(self.a, m, node, self.world)
    if isinstance(func, RawFunc):
        return Sig(self.a, func.module, func.fnode, self.world)
    if isinstance(func, BoundMethod):
        return Sig(self.a, func.module, func.fnode, self.world, skip_first=True)
    if isinstance(func, Closure):
        # functools.wraps(x): the signature of what is wrapped
        for d in func.fnode.decorator_list:
            if isinstance(d, ast.Call) and self.a.res.resolve(d.func, func.module) == 'ext:functools.wraps' and d.args:
                saved = (self.env, self.scopes, self.m)
                self.env, self.scopes, self.m = func.env, func.scopes, func.module
                try:
                    inner = self.ev(d.args[0])
                finally:
                    self.env, self.scopes, self.m = saved
                return self._signature_of(inner)
        return Sig(self.a, func.module, func.fnode, self.world)
    raise Unmodelled(f'inspect.signature of {func!r}')


Interp._effective_decorators = _effective_decorators
Interp._func_object = _func_object
Interp._signature_of = _signature_of


class NativeMethod(PyModel):
    """`obj.method` of a native container / string taken as a value; calling it goes through the interpreter's own rules for that
    method (so that abstract instances inside the container keep their semantics)."""

    def __init__(self, obj, name):
        self.obj, self.name = obj, name


class _Suppress(PyModel):
    """contextlib.suppress(*exception classes)"""

    def __init__(self, classes):
        self.classes = tuple(classes)


class _LruFactory(PyModel):
    def __init__(self, make):
        self.make = make

    def __call__(self, f):
        return self.make(f)


class _CounterModel(PyModel):
    """collections.Counter(iterable): items grouped the way a dict groups them - by __hash__ and __eq__ of the FIRST item of each
    group (abstract instances through their class's own methods), in first-seen order."""

    def __init__(self, interp, items):
        self.groups = []          # [first object, count]
        table = {}
        for x in items:
            k = _RecKey(interp, x) if isinstance(x, Rec) and isinstance(x.f.get('cls'), str) else x
            try:
                slot = table.get(k)
            except TypeError:
                raise ExcRaised(Ref('builtin:TypeError'))
            if slot is None:
                slot = table[k] = [x, 0]
                self.groups.append(slot)
            slot[1] += 1

    def items(self):
        return [(g[0], g[1]) for g in self.groups]

    def keys(self):
        return [g[0] for g in self.groups]

    def values(self):
        return [g[1] for g in self.groups]

    def __iter__(self):
        return iter(self.keys())

    def __len__(self):
        return len(self.groups)

    def most_common(self, n=None):
        out = sorted(self.items(), key=lambda kv: -kv[1])
        return out if n is None else out[:n]


class _RecKey:
    """An abstract instance used as (part of) a dictionary key: __hash__ and __eq__ of its class, interpreted."""

    def __init__(self, interp, rec):
        self.interp, self.rec = interp, rec
        found, h = interp._dunder(rec, '__hash__')
        if not found:
            cref = rec.f.get('cls')
            if interp._find_method(cref, '__eq__')[1] is not None or interp._class_callable(cref, '__eq__') is not None:
                raise ExcRaised(Ref('builtin:TypeError'))       # __eq__ without __hash__: unhashable
            h = id(rec)
        if not isinstance(h, int):
            raise Unmodelled('__hash__ of an abstract instance is not a known integer')
        self.h = h

    def __hash__(self):
        return self.h

    def __eq__(self, other):
        o = other.rec if isinstance(other, _RecKey) else other
        return o is self.rec or bool(self.interp.truth(self.interp._compare(ast.Eq(), self.rec, o, None)))


class LruCache(PyModel):
    """functools.lru_cache / functools.cache around a function of the package: results remembered per argument tuple, keyed the way
    Python keys them (hash and equality of the arguments - True and 1 and 1.0 are one key unless typed=True); entries beyond
    maxsize are evicted oldest-first. Abstract instances are keyed by identity when their class does not define equality."""

    def __init__(self, interp, func, maxsize=128, typed=False):
        self.a, self.world, self.call_models, self.isinstance_fn = interp.a, interp.world, interp.call_models, interp.isinstance_fn
        self.func, self.maxsize, self.typed = func, maxsize, typed
        self.store = {}
        self.hits = 0

    def _key_part(self, interp, v):
        if isinstance(v, Rec):
            cref = v.f.get('cls')
            if isinstance(cref, str) and (interp._find_method(cref, '__eq__')[1] is not None or interp._find_method(cref, '__hash__')[1] is not None
                                          or interp._class_callable(cref, '__eq__') is not None):
                return _RecKey(interp, v)       # hashed and compared the way its class says
            return ('id', id(v))
        if isinstance(v, (list, dict, set)):
            raise ExcRaised(Ref('builtin:TypeError'))       # unhashable
        if isinstance(v, tuple):
            return tuple(self._key_part(interp, x) for x in v)
        if isinstance(v, (Opaque,)):
            raise Unmodelled('memoised call with a symbolic argument')
        return (type(v), v) if self.typed else v

    def __call__(self, *args, **kwargs):
        module = getattr(self.func, 'module', None)
        interp = Interp(self.a, module if module is not None else next(iter(self.a.repo.modules.values())), {}, world=self.world,
                        call_models=self.call_models, isinstance_fn=self.isinstance_fn, inline_pkg=True, depth=1)
        key = (tuple(self._key_part(interp, a_) for a_ in args), tuple(sorted((k_, self._key_part(interp, v_)) for k_, v_ in kwargs.items())))
        if key in self.store:
            self.hits += 1
            return self.store[key]
        res = interp.invoke(self.func, list(args), kwargs)
        if self.maxsize is None or self.maxsize > 0:
            self.store[key] = res
            if self.maxsize is not None and len(self.store) > self.maxsize:
                del self.store[next(iter(self.store))]
        return res

    def cache_clear(self):
        self.store.clear()


class Partial(PyModel):
    """functools.partial(f, *args, **kw)"""

    def __init__(self, func, args, kwargs):
        self.func, self.args, self.keywords = func, tuple(args), dict(kwargs)


def _match_pattern(self, pat, subject, binds):
    """Structural pattern matching of `subject` against the pattern node; binds captured names."""
    if isinstance(pat, ast.MatchValue):
        return self.truth(self._compare(ast.Eq(), subject, self.ev(pat.value), None))
    if isinstance(pat, ast.MatchSingleton):
        return subject is pat.value
    if isinstance(pat, ast.MatchAs):
        if pat.pattern is not None and not self._match_pattern(pat.pattern, subject, binds):
            return False
        if pat.name is not None:
            binds[pat.name] = subject
        return True
    if isinstance(pat, ast.MatchOr):
        for alt in pat.patterns:
            trial = {}
            if self._match_pattern(alt, subject, trial):
                binds.update(trial)
                return True
        return False
    if isinstance(pat, ast.MatchSequence):
        if isinstance(subject, (str, bytes)) or not isinstance(subject, (list, tuple)):
            if isinstance(subject, (Opaque, Ref, Rec)):
                if isinstance(subject, Opaque):
                    raise Unmodelled('sequence pattern on an opaque value')
                return False
            return False
        star = [i for i, p_ in enumerate(pat.patterns) if isinstance(p_, ast.MatchStar)]
        if not star:
            if len(subject) != len(pat.patterns):
                return False
            return all(self._match_pattern(p_, v_, binds) for p_, v_ in zip(pat.patterns, subject))
        i = star[0]
        before, after = pat.patterns[:i], pat.patterns[i + 1:]
        if len(subject) < len(before) + len(after):
            return False
        for p_, v_ in zip(before, subject[:len(before)]):
            if not self._match_pattern(p_, v_, binds):
                return False
        for p_, v_ in zip(after, subject[len(subject) - len(after):] if after else []):
            if not self._match_pattern(p_, v_, binds):
                return False
        if pat.patterns[i].name:
            binds[pat.patterns[i].name] = list(subject[len(before):len(subject) - len(after)])
        return True
    if isinstance(pat, ast.MatchMapping):
        if not isinstance(subject, dict):
            return False
        for k, p_ in zip(pat.keys, pat.patterns):
            kv = self.ev(k)
            if kv not in subject or not self._match_pattern(p_, subject[kv], binds):
                return False
        if pat.rest:
            keys = [self.ev(k) for k in pat.keys]
            binds[pat.rest] = {k: v for k, v in subject.items() if k not in keys}
        return True
    if isinstance(pat, ast.MatchClass):
        cls = self.ev(pat.cls)
        refs = self._class_refs(cls)
        if isinstance(subject, Opaque):
            raise Unmodelled('class pattern on an opaque value')
        ok = self.isinstance_fn(subject, refs) if (self.isinstance_fn is not None and isinstance(subject, (Rec, PyModel, Ref))) \
            else self._isinstance(subject, refs)
        if not ok:
            return False
        if pat.patterns:
            # positional sub-patterns: __match_args__ of the class; builtin scalars match themselves
            if len(pat.patterns) == 1 and refs and all(r in ('builtin:str', 'builtin:int', 'builtin:float', 'builtin:bool', 'builtin:bytes',
                                                           'builtin:list', 'builtin:tuple', 'builtin:dict', 'builtin:set') for r in refs):
                if not self._match_pattern(pat.patterns[0], subject, binds):
                    return False
            else:
                raise Unmodelled('class pattern with positional sub-patterns')
        for name, p_ in zip(pat.kwd_attrs, pat.kwd_patterns):
            if isinstance(subject, Rec):
                if name in subject.f:
                    val = subject.f[name]
                elif isinstance(subject.f.get('cls'), str):
                    try:
                        val = self._class_level_attr(subject, subject.f['cls'], name)
                    except Unmodelled:
                        return False
                else:
                    return False
            elif isinstance(subject, PyModel) or _concrete(subject):
                if not hasattr(subject, name):
                    return False
                val = getattr(subject, name)
            else:
                return False
            if not self._match_pattern(p_, val, binds):
                return False
        return True
    raise Unmodelled(f'pattern {type(pat).__name__}')


def _match_stmt(self, s):
    subject = self.ev(s.subject)
    for case in s.cases:
        binds = {}
        if self._match_pattern(case.pattern, subject, binds):
            saved = {k: self.env[k] for k in binds if k in self.env}
            self.env.update(binds)
            if case.guard is not None and not self.truth(self.ev(case.guard)):
                for k in binds:
                    if k in saved:
                        self.env[k] = saved[k]
                    else:
                        self.env.pop(k, None)
                continue
            self.block(case.body)
            return


Interp._match_pattern = _match_pattern
Interp._match_stmt = _match_stmt


def _itertools(self, name, args, kwargs):
    """itertools on concrete sequences (eager)."""
    def seq(v):
        if isinstance(v, Rec) and isinstance(v.f.get('cls'), str):
            found, res = self._dunder(v, '__iter__')
            if found:
                return list(res)
        if isinstance(v, (Opaque, Ref, Rec)) or not hasattr(v, '__iter__'):
            raise Unmodelled('itertools over a symbolic iterable')
        return list(v)
    import itertools as _it
    if name == 'chain':
        return True, [x for a in args for x in seq(a)]
    if name == 'chain.from_iterable' and len(args) == 1:
        return True, [x for a in seq(args[0]) for x in seq(a)]
    if name in ('product', 'combinations', 'permutations', 'zip_longest', 'islice', 'repeat', 'accumulate', 'pairwise', 'count') \
            and name not in ('count',) and not (name == 'repeat' and len(args) < 2):
        conv = [seq(a) if hasattr(a, '__iter__') and not isinstance(a, (str, bytes)) else a for a in args]
        if name == 'accumulate' and (len(conv) > 1 or kwargs):
            return False, None
        try:
            return True, list(getattr(_it, name)(*conv, **kwargs))
        except Exception as exc:
            raise ExcRaised(_exc_ref(exc))
    if name == 'takewhile' or name == 'dropwhile' or name == 'filterfalse' or name == 'starmap':
        pred, items = args[0], seq(args[1])
        if name == 'starmap':
            return True, [self.invoke(pred, list(x)) for x in items]
        if name == 'filterfalse':
            return True, [x for x in items if not self.truth(self.invoke(pred, [x]))]
        out, dropping = [], True
        for x in items:
            t = self.truth(self.invoke(pred, [x]))
            if name == 'takewhile':
                if not t:
                    break
                out.append(x)
            else:
                if dropping and t:
                    continue
                dropping = False
                out.append(x)
        return True, out
    return False, None


Interp._itertools = _itertools
