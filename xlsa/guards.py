"""Decision-table extraction: partial evaluation of loop-free code fragments.

The fragment is interpreted over *abstract inputs chosen by the rule* (token kinds,
operator kinds, critical points around the constants a value is compared with).
The interpreter refuses what it cannot model exactly (-> Unmodelled, exit 2):
general loops (a `while` is run for ONE iteration: test, body once), unknown calls,
attribute writes to unknown objects. Calls to effectful receivers named by the rule
are recorded as events instead of being executed.

This is predicate abstraction over a finite domain that partitions the inputs by the
predicates the fragment itself uses; it is not a run of the library.
"""
import ast
import operator as _op

from . import Unmodelled
from .consteval import Ref, Obj, Unfoldable


class Opaque:
    """Result of a recorded (not executed) call."""

    def __init__(self, label):
        self.label = label

    def __repr__(self):
        return f'Opaque({self.label})'


class Rec:
    """Mutable abstract record (token, context ...)."""

    def __init__(self, **fields):
        self.__dict__['f'] = dict(fields)

    def get(self, name):
        if name not in self.f:
            raise Unmodelled(f'abstract record has no field {name!r}')
        return self.f[name]

    def set(self, name, value):
        self.f[name] = value

    def __repr__(self):
        return f'Rec({self.f})'


class LambdaVal:
    """A lambda expression closed over the environment it was created in."""

    def __init__(self, node, env):
        self.node = node
        self.env = env


class PyModel:
    """Base class for rule-provided models whose methods the interpreter may call."""


class ExcRaised(Exception):
    def __init__(self, exc):
        self.exc = exc


class _Break(Exception):
    pass


class _Continue(Exception):
    pass


class _Return(Exception):
    def __init__(self, value):
        self.value = value


_BIN = {
    ast.Add: _op.add, ast.Sub: _op.sub, ast.Mult: _op.mul, ast.Div: _op.truediv,
    ast.FloorDiv: _op.floordiv, ast.Mod: _op.mod, ast.Pow: _op.pow,
    ast.LShift: _op.lshift, ast.RShift: _op.rshift, ast.BitAnd: _op.and_,
    ast.BitOr: _op.or_, ast.BitXor: _op.xor,
}
_CMP = {
    ast.Eq: _op.eq, ast.NotEq: _op.ne, ast.Lt: _op.lt, ast.LtE: _op.le,
    ast.Gt: _op.gt, ast.GtE: _op.ge, ast.In: lambda a, b: a in b,
    ast.NotIn: lambda a, b: a not in b, ast.Is: _op.is_, ast.IsNot: _op.is_not,
}
_PURE = {'len': len, 'int': int, 'float': float, 'str': str, 'bool': bool, 'abs': abs, 'round': round,
         'sorted': sorted, 'sum': sum, 'any': any, 'all': all, 'range': range, 'enumerate': enumerate, 'zip': zip,
         'reversed': lambda x: list(reversed(x)),
         'isinstance': None, 'type': None, 'set': set, 'frozenset': frozenset, 'tuple': tuple,
         'list': list, 'min': min, 'max': max}
_STR_METHODS = {'startswith', 'endswith', 'find', 'upper', 'lower', 'strip', 'title',
                'index', 'count', 'zfill', 'is_integer', 'replace', 'partition', 'rpartition',
                'split', 'rsplit', 'removeprefix', 'removesuffix', 'lstrip', 'rstrip', 'join',
                'isdigit', 'isalpha'}


_NUM_DUNDERS = {'__trunc__', '__neg__', '__pos__', '__abs__', '__round__', '__floor__', '__ceil__', 'is_integer'}


def _walk_no_defs(fn):
    stack = list(ast.iter_child_nodes(fn))
    while stack:
        n = stack.pop()
        yield n
        if isinstance(n, (ast.FunctionDef, ast.AsyncFunctionDef, ast.Lambda, ast.ClassDef)):
            continue
        stack.extend(ast.iter_child_nodes(n))


class Outcome:
    def __init__(self):
        self.events = []       # (label, args)
        self.end = 'fallthrough'   # 'fallthrough' | 'break' | 'continue' | 'return' | 'raise'
        self.value = None
        self.loop_entered = None

    def called(self, label):
        return any(e[0] == label for e in self.events)

    def __repr__(self):
        return f'<Outcome {self.end} {self.value!r} {self.events}>'


class Interp:
    def __init__(self, analysis, module, env, effect_receivers=(), self_class=None,
                 isinstance_fn=None, call_models=None, raise_classifier=None, inline_pkg=False, depth=0,
                 record_unknown=False, scope_fn=None):
        """
        env                initial locals
        effect_receivers   names whose method calls are recorded as events ('stack', 'output')
        isinstance_fn      fn(value, class_ref_or_tuple) -> bool, for abstract class lattices
        call_models        {resolved ref or dotted text: python callable}
        """
        self.a = analysis
        self.m = module
        self.env = dict(env)
        self.effects = set(effect_receivers)
        self.self_class = self_class
        self.isinstance_fn = isinstance_fn
        self.call_models = call_models or {}
        self.inline_pkg = inline_pkg
        self.record_unknown = record_unknown
        self.scope_fn = scope_fn
        self.depth = depth
        self.out = Outcome()

    # -- statements ------------------------------------------------------
    def run(self, stmts):
        try:
            self.block(stmts)
        except _Break:
            self.out.end = 'break'
        except _Continue:
            self.out.end = 'continue'
        except _Return as r:
            self.out.end = 'return'
            self.out.value = r.value
        except ExcRaised as r:
            self.out.end = 'raise'
            self.out.value = r.exc
        return self.out

    def block(self, stmts):
        for s in stmts:
            self.stmt(s)

    def stmt(self, s):
        if isinstance(s, ast.Assign):
            val = self.ev(s.value)
            for t in s.targets:
                self.store(t, val)
        elif isinstance(s, ast.AugAssign):
            cur = self.ev(s.target)
            val = self.ev(s.value)
            if isinstance(cur, (Opaque, Ref)) or isinstance(val, (Opaque, Ref)):
                self.store(s.target, Opaque('aug'))
            else:
                self.store(s.target, _BIN[type(s.op)](cur, val))
        elif isinstance(s, ast.If):
            if self.truth(self.ev(s.test)):
                self.block(s.body)
            else:
                self.block(s.orelse)
        elif isinstance(s, ast.While) and self.while_once:
            # one iteration: the body *is* the decision (decision tables of loop guards)
            if self.truth(self.ev(s.test)):
                self.out.loop_entered = True
                try:
                    self.block(s.body)
                except _Break:
                    self.out.events.append(('<break>', ()))
                except _Continue:
                    pass
            else:
                self.out.loop_entered = False
        elif isinstance(s, ast.While):
            # concrete execution of the loop (work lists ...): bounded, anything longer is not modelled
            n_iter = 0
            broke = False
            while self.truth(self.ev(s.test)):
                n_iter += 1
                if n_iter > 2048:
                    raise Unmodelled(f'while-loop at line {s.lineno} runs more than 2048 iterations on the abstract input')
                try:
                    self.block(s.body)
                except _Break:
                    broke = True
                    break
                except _Continue:
                    continue
            self.out.loop_entered = n_iter > 0
            if not broke and s.orelse:
                self.block(s.orelse)
        elif isinstance(s, ast.For):
            it = self.ev(s.iter)
            if isinstance(it, (Opaque, Ref, Rec)) or not hasattr(it, '__iter__'):
                raise Unmodelled(f'for-loop over a symbolic iterable at line {s.lineno}')
            items = list(it)
            if len(items) > 256:
                raise Unmodelled('for-loop over more than 256 items')
            broke = False
            for item in items:
                self.store(s.target, item)
                try:
                    self.block(s.body)
                except _Break:
                    broke = True
                    break
                except _Continue:
                    continue
            if not broke:
                self.block(s.orelse)
        elif isinstance(s, ast.Expr):
            self.ev(s.value)
        elif isinstance(s, ast.Pass):
            pass
        elif isinstance(s, ast.Break):
            raise _Break()
        elif isinstance(s, ast.Continue):
            raise _Continue()
        elif isinstance(s, ast.Return):
            raise _Return(self.ev(s.value) if s.value is not None else None)
        elif isinstance(s, ast.Raise):
            exc = self.ev_exc(s.exc)
            raise ExcRaised(exc)
        elif isinstance(s, ast.Assert):
            if not self.truth(self.ev(s.test)):
                raise ExcRaised(Ref('builtin:AssertionError'))
        elif isinstance(s, (ast.With, ast.AsyncWith)):
            for item in s.items:
                val = self.ev(item.context_expr)
                if item.optional_vars is not None:
                    self.store(item.optional_vars, val)
            self.block(s.body)
        elif isinstance(s, ast.Try):
            # model: body runs; a raised *python-level* exception class is matched by name
            try:
                self.block(s.body)
            except ExcRaised as r:
                handled = False
                for h in s.handlers:
                    if h.type is None or self._exc_matches(r.exc, h.type):
                        if h.name:
                            self.env[h.name] = r.exc
                        self.block(h.body)
                        handled = True
                        break
                if not handled:
                    raise
            else:
                self.block(s.orelse)
            finally:
                pass
            self.block(s.finalbody)
        elif isinstance(s, ast.FunctionDef) and not s.decorator_list and self.scope_fn is not None \
                and any(n_ is s for n_ in ast.walk(self.scope_fn)):
            # definition of a local helper: nothing happens now; calls of it are inlined as closures (see call())
            pass
        else:
            raise Unmodelled(f'statement {type(s).__name__} at line {s.lineno}')

    def _exc_matches(self, exc, type_node):
        if self.isinstance_fn is None:
            raise Unmodelled('exception matching needs a class model')
        ref = self.a.res.resolve(type_node, self.m) if not isinstance(type_node, ast.Tuple) else \
            tuple(self.a.res.resolve(e, self.m) for e in type_node.elts)
        return self.isinstance_fn(exc, ref)

    def ev_exc(self, node):
        if node is None:
            return Opaque('reraise')
        if isinstance(node, ast.Call):
            ref = self.a.res.resolve(node.func, self.m)
            if ref:
                return Ref(ref)
        ref = self.a.res.resolve(node, self.m) if isinstance(node, (ast.Name, ast.Attribute)) else None
        if ref:
            return Ref(ref)
        v = self.ev(node)
        return v

    def store(self, t, val):
        if isinstance(t, ast.Name):
            self.env[t.id] = val
        elif isinstance(t, ast.Attribute):
            base = self.ev(t.value)
            if isinstance(base, Rec):
                base.set(t.attr, val)
            else:
                raise Unmodelled(f'attribute store on {base!r}')
        elif isinstance(t, (ast.Tuple, ast.List)):
            vals = list(val)
            for tt, vv in zip(t.elts, vals):
                self.store(tt, vv)
        elif isinstance(t, ast.Subscript) and not isinstance(t.slice, ast.Slice):
            base = self.ev(t.value)
            if isinstance(base, (dict, list)):
                base[self.ev(t.slice)] = val
            else:
                raise Unmodelled(f'subscript store on {base!r}')
        else:
            raise Unmodelled(f'store target {type(t).__name__}')

    while_once = False      # True: a while statement is one guarded iteration (decision table of its test)
    dunder_truth = True    # True: the truth value of an abstract instance is decided by inlining its class's __bool__

    def truth(self, v):
        if isinstance(v, (Opaque, Ref)):
            raise Unmodelled(f'truth value of symbolic {v!r}')
        if isinstance(v, Rec):
            # abstract value instance with a known payload: truth of the payload (ExcelType.__bool__)
            if v.f.get('truthy') is not None:
                return bool(v.f['truthy'])
            if self.dunder_truth and isinstance(v.f.get('cls'), str):
                cm_, meth_ = self.a.res.class_attr(v.f['cls'], '__bool__')
                if isinstance(meth_, ast.FunctionDef):
                    sub_sc, self.self_class = self.self_class, v.f['cls']
                    try:
                        return bool(self._inline(cm_, meth_, [v], {}))
                    finally:
                        self.self_class = sub_sc
            return True
        return bool(v)

    # -- expressions -----------------------------------------------------
    def ev(self, n):
        if isinstance(n, ast.Constant):
            return n.value
        if isinstance(n, ast.Name):
            if n.id in self.env:
                return self.env[n.id]
            if self.scope_fn is not None:
                lazy = self._lazy_local(n.id)
                if lazy is not None:
                    return self.ev(lazy)
            try:
                return self.a.folder.fold(n, self.m)
            except Unfoldable:
                ref = self.a.res.resolve(n, self.m)
                if ref:
                    return Ref(ref)
                raise Unmodelled(f'unbound name {n.id}')
        if isinstance(n, ast.Attribute):
            if isinstance(n.value, ast.Name) and n.value.id in ('self', 'cls') \
                    and n.value.id not in self.env and self.self_class:
                return self.a.folder.fold(n, self.m, None, self.self_class)
            try:
                base = self.ev(n.value)
            except Unmodelled:
                base = None
            if isinstance(base, Rec):
                if n.attr not in base.f and isinstance(base.f.get('cls'), str):
                    cm_, val_ = self.a.res.class_attr(base.f['cls'], n.attr)
                    if val_ is not None and not isinstance(val_, (ast.FunctionDef, ast.ClassDef)):
                        return self.a.folder.fold(val_, cm_, None, base.f['cls'])
                return base.get(n.attr)
            if isinstance(base, Obj):
                if n.attr in base.fields:
                    return base.fields[n.attr]
                raise Unmodelled(f'{base!r} has no field {n.attr}')
            if isinstance(base, PyModel):
                if not hasattr(base, n.attr):
                    raise Unmodelled(f'model object has no attribute {n.attr}')
                return getattr(base, n.attr)
            try:
                return self.a.folder.fold(n, self.m, None, self.self_class)
            except Unfoldable:
                ref = self.a.res.resolve(n, self.m)
                if ref:
                    return Ref(ref)
                raise Unmodelled(f'attribute {ast.unparse(n)}')
        if isinstance(n, ast.Tuple):
            return tuple(self.ev(e) for e in n.elts)
        if isinstance(n, ast.List):
            return [self.ev(e) for e in n.elts]
        if isinstance(n, ast.Set):
            return set(self.ev(e) for e in n.elts)
        if isinstance(n, ast.Dict):
            return {self.ev(k): self.ev(v) for k, v in zip(n.keys, n.values)}
        if isinstance(n, ast.BoolOp):
            res = None
            for v in n.values:
                res = self.ev(v)
                t = self.truth(res)
                if isinstance(n.op, ast.And) and not t:
                    return res
                if isinstance(n.op, ast.Or) and t:
                    return res
            return res
        if isinstance(n, ast.UnaryOp):
            v = self.ev(n.operand)
            if isinstance(n.op, ast.Not):
                return not self.truth(v)
            if isinstance(v, (Opaque, Ref)):
                raise Unmodelled('unary op on symbolic value')
            if isinstance(n.op, ast.USub):
                return -v
            if isinstance(n.op, ast.UAdd):
                return +v
            if isinstance(n.op, ast.Invert):
                return ~v
        if isinstance(n, ast.BinOp):
            l, r = self.ev(n.left), self.ev(n.right)
            if isinstance(l, (Opaque, Ref, Rec)) or isinstance(r, (Opaque, Ref, Rec)):
                return Opaque('binop')
            try:
                return _BIN[type(n.op)](l, r)
            except ZeroDivisionError:
                raise ExcRaised(Ref('builtin:ZeroDivisionError'))
        if isinstance(n, ast.Compare):
            left = self.ev(n.left)
            for op, comp in zip(n.ops, n.comparators):
                right = self.ev(comp)
                if isinstance(left, Opaque) or isinstance(right, Opaque):
                    raise Unmodelled(f'comparison with opaque value: {ast.unparse(n)[:60]}')
                try:
                    ok = _CMP[type(op)](left, right)
                except TypeError:
                    raise Unmodelled(f'comparison {ast.unparse(n)[:60]} on {left!r},{right!r}')
                if not ok:
                    return False
                left = right
            return True
        if isinstance(n, ast.IfExp):
            return self.ev(n.body) if self.truth(self.ev(n.test)) else self.ev(n.orelse)
        if isinstance(n, ast.Subscript):
            base = self.ev(n.value)
            if isinstance(n.slice, ast.Slice):
                lo = self.ev(n.slice.lower) if n.slice.lower else None
                hi = self.ev(n.slice.upper) if n.slice.upper else None
                st = self.ev(n.slice.step) if n.slice.step else None
                if isinstance(base, (Opaque, Ref)):
                    return Opaque('slice')
                return base[lo:hi:st]
            idx = self.ev(n.slice)
            if isinstance(base, (Opaque, Ref)) or isinstance(idx, (Opaque,)):
                return Opaque('subscript')
            try:
                return base[idx]
            except (KeyError, IndexError) as exc:
                raise ExcRaised(Ref(f'builtin:{type(exc).__name__}'))
        if isinstance(n, ast.JoinedStr):
            parts = []
            for v in n.values:
                if isinstance(v, ast.Constant):
                    parts.append(str(v.value))
                elif isinstance(v, ast.FormattedValue) and v.format_spec is None and v.conversion == -1:
                    val = self._safe_ev(v.value)
                    if isinstance(val, (Opaque, Ref, Rec, PyModel)):
                        return Opaque('fstring')
                    parts.append(str(val))
                else:
                    return Opaque('fstring')
            return ''.join(parts)
        if isinstance(n, (ast.ListComp, ast.GeneratorExp, ast.SetComp)):
            out = []
            self._comp(n.generators, 0, lambda: out.append(self.ev(n.elt)))
            return set(out) if isinstance(n, ast.SetComp) else out
        if isinstance(n, ast.DictComp):
            outd = {}
            self._comp(n.generators, 0, lambda: outd.__setitem__(self.ev(n.key), self.ev(n.value)))
            return outd
        if isinstance(n, ast.Lambda):
            return LambdaVal(n, dict(self.env))
        if isinstance(n, ast.Yield) and hasattr(self, '_yielded'):
            self._yielded.append(self.ev(n.value) if n.value is not None else None)
            return None
        if isinstance(n, ast.YieldFrom) and hasattr(self, '_yielded'):
            self._yielded.extend(list(self.ev(n.value)))
            return None
        if isinstance(n, ast.Call):
            return self.call(n)
        raise Unmodelled(f'expression {type(n).__name__}: {ast.unparse(n)[:60]}')

    def call(self, n):
        fn = n.func
        # recorded effects
        if isinstance(fn, ast.Attribute):
            root = fn
            while isinstance(root, ast.Attribute):
                root = root.value
            unknown = isinstance(root, ast.Name) and self.record_unknown and root.id not in self.env \
                and self.a.res.resolve(root, self.m) is None
            if isinstance(root, ast.Name) and (root.id in self.effects or unknown):
                label = ast.unparse(fn)
                args = tuple(self._safe_ev(a) for a in n.args)
                self.out.events.append((label, args))
                return Opaque(label)
        args = []
        for a in n.args:
            if isinstance(a, ast.Starred):
                seq = self.ev(a.value)
                if isinstance(seq, (Opaque, Ref, Rec)):
                    raise Unmodelled('starred argument of a symbolic sequence')
                args.extend(list(seq))
            else:
                args.append(self.ev(a))
        kwargs = {}
        for k in n.keywords:
            if k.arg is None:
                mp = self.ev(k.value)
                if not isinstance(mp, dict):
                    raise Unmodelled('** of a symbolic mapping')
                kwargs.update(mp)
            else:
                kwargs[k.arg] = self.ev(k.value)
        if isinstance(fn, ast.Attribute):
            recv = self._safe_ev(fn.value)
            if isinstance(recv, PyModel) and hasattr(recv, fn.attr):
                return getattr(recv, fn.attr)(*args, **kwargs)
            if isinstance(recv, Opaque) and recv.label not in ('aug',) and not isinstance(fn.value, ast.Name):
                return Opaque(f'{recv.label}.{fn.attr}()')
            if isinstance(recv, Rec) and 'cls' in recv.f and isinstance(recv.f['cls'], str) and self.depth < 4 \
                    and not (isinstance(fn.value, ast.Name) and fn.value.id in self.effects):
                cm_, meth_ = self.a.res.class_attr(recv.f['cls'], fn.attr)
                key_ = f"{recv.f['cls']}.{fn.attr}"
                if key_ in self.call_models:
                    return self.call_models[key_](recv, *args, **kwargs)
                if isinstance(meth_, ast.FunctionDef):
                    sub_sc, self.self_class = self.self_class, recv.f['cls']
                    try:
                        return self._inline(cm_, meth_, [recv] + args, kwargs)
                    finally:
                        self.self_class = sub_sc
            if isinstance(recv, (str, int, float)) and not isinstance(recv, bool) and (
                    fn.attr in _STR_METHODS or fn.attr in _NUM_DUNDERS):
                try:
                    return getattr(recv, fn.attr)(*args)
                except (ValueError, TypeError, IndexError, ZeroDivisionError, OverflowError) as exc:
                    raise ExcRaised(Ref(f'builtin:{type(exc).__name__}'))
            if isinstance(recv, dict) and fn.attr in ('get', 'items', 'keys', 'values', 'setdefault', 'pop', 'clear', 'copy'):
                try:
                    res = getattr(recv, fn.attr)(*args)
                except KeyError:
                    raise ExcRaised(Ref('builtin:KeyError'))
                return list(res) if fn.attr in ('items', 'keys', 'values') else res
            if isinstance(recv, (set, dict)) and fn.attr in ('add', 'update', 'discard'):
                return getattr(recv, fn.attr)(*args)
            if isinstance(recv, (set, frozenset)) and fn.attr in ('issubset', 'issuperset', 'isdisjoint', 'union', 'intersection', 'difference'):
                return getattr(recv, fn.attr)(*args)
            if isinstance(recv, (list, tuple)) and fn.attr in ('index', 'count'):
                return getattr(recv, fn.attr)(*args)
            if isinstance(recv, list) and fn.attr in ('append', 'pop', 'extend', 'insert'):
                try:
                    return getattr(recv, fn.attr)(*args)
                except IndexError:
                    raise ExcRaised(Ref('builtin:IndexError'))
        text = ast.unparse(fn)
        ref = None
        if not isinstance(fn, (ast.Name, ast.Attribute)):
            callee = self._safe_ev(fn)
            if isinstance(callee, Ref):
                ref = callee.ref
        elif isinstance(fn, ast.Attribute):
            callee = self._safe_ev(fn)
            if isinstance(callee, Ref) and not callee.ref.startswith('ext:'):
                ref = callee.ref
        if ref is not None:
            pass
        elif isinstance(fn, ast.Name) and fn.id in self.env:
            bound = self.env[fn.id]
            if isinstance(bound, Ref):
                ref = bound.ref
            elif callable(bound) and isinstance(bound, PyModel):
                return bound(*args, **kwargs)
        elif isinstance(fn, (ast.Name, ast.Attribute)):
            ref = self.a.res.resolve(fn, self.m)
        for key in (ref, text):
            if key in self.call_models:
                return self.call_models[key](*args, **kwargs)
        if ref and ref.startswith('builtin:') and ref[8:] in _PURE and _PURE[ref[8:]] is not None \
                and not (isinstance(fn, ast.Name) and fn.id == ref[8:]):
            if not any(isinstance(a_, (Opaque, Ref, Rec)) for a_ in args):
                try:
                    return _PURE[ref[8:]](*args)
                except (ValueError, TypeError) as exc:
                    raise ExcRaised(Ref(f'builtin:{type(exc).__name__}'))
        if ref and ref.startswith(('ext:logging.', 'ext:warnings.warn')) or ref == 'builtin:print':
            return None      # diagnostics only
        if ref and ref.startswith('pkg:'):
            om_, onode_ = self.a.res.lookup(ref)
            if isinstance(onode_, ast.ClassDef):
                self.out.events.append(('construct', (ref,) + tuple(args)))
                inst = Rec(cls=ref, args=tuple(args), kwargs=kwargs)
                # dataclass-style: annotated fields (init=True) take the positional / keyword arguments in order
                cm0, init0 = self.a.res.class_attr(ref, '__init__')
                if not isinstance(init0, ast.FunctionDef):
                    fields = []
                    for m_, cnode in reversed(self.a.res.mro(ref)):
                        for st in cnode.body:
                            if isinstance(st, ast.AnnAssign) and isinstance(st.target, ast.Name):
                                noinit = isinstance(st.value, ast.Call) and any(
                                    k.arg == 'init' and isinstance(k.value, ast.Constant) and k.value.value is False for k in st.value.keywords)
                                if not noinit:
                                    fields.append(st.target.id)
                    for name_, val_ in zip(fields, args):
                        inst.set(name_, val_)
                    for name_, val_ in kwargs.items():
                        if name_ in fields:
                            inst.set(name_, val_)
                for ctor in ('__new__', '__init__'):
                    cm_, cfn = self.a.res.class_attr(ref, ctor)
                    if isinstance(cfn, ast.FunctionDef):
                        params = [a.arg for a in cfn.args.args][1:]
                        bound = dict(zip(params, args))
                        bound.update(kwargs)
                        for st in ast.walk(cfn):
                            if isinstance(st, ast.Assign) and len(st.targets) == 1 and isinstance(st.targets[0], ast.Attribute) \
                                    and isinstance(st.targets[0].value, ast.Name) and isinstance(st.value, ast.Name) \
                                    and st.value.id in bound and st.targets[0].attr not in inst.f:
                                inst.set(st.targets[0].attr, bound[st.value.id])
                return inst
        if self.inline_pkg and ref and self.depth < 4:
            om, onode = self.a.res.lookup(ref)
            if isinstance(onode, ast.FunctionDef):
                is_cm = any(isinstance(d, ast.Name) and d.id == 'classmethod' for d in onode.decorator_list)
                if is_cm:
                    raise Unmodelled(f'call of classmethod {ref} needs a model')
                return self._inline(om, onode, args, kwargs)
        if self.depth < 4:
            # nested closure of the analysed function / private method of the analysed class
            if isinstance(fn, ast.Name) and self.scope_fn is not None and fn.id not in self.env:
                for n_ in ast.walk(self.scope_fn):
                    if isinstance(n_, ast.FunctionDef) and n_ is not self.scope_fn and n_.name == fn.id:
                        return self._inline(self.m, n_, args, kwargs, closure=True)
            if isinstance(fn, ast.Attribute) and isinstance(fn.value, ast.Name) and fn.value.id in ('self', 'cls') \
                    and self.self_class and fn.attr.startswith('_') and not fn.attr.startswith('__'):
                cm, meth = self.a.res.class_attr(self.self_class, fn.attr)
                if isinstance(meth, ast.FunctionDef):
                    static = any(isinstance(d, ast.Name) and d.id == 'staticmethod' for d in meth.decorator_list)
                    if static:
                        return self._inline(cm, meth, args, kwargs)
                    if fn.value.id in self.env:
                        return self._inline(cm, meth, [self.env[fn.value.id]] + args, kwargs)
                    return self._inline(cm, meth, args, kwargs, skip_first=True)
        if isinstance(fn, ast.Name) and fn.id == 'getattr' and fn.id not in self.env and len(args) in (2, 3) and isinstance(args[1], str):
            obj = args[0]
            if isinstance(obj, Rec):
                if args[1] in obj.f:
                    return obj.f[args[1]]
                if len(args) == 3:
                    return args[2]
                raise ExcRaised(Ref('builtin:AttributeError'))
            if isinstance(obj, PyModel):
                if hasattr(obj, args[1]):
                    return getattr(obj, args[1])
                if len(args) == 3:
                    return args[2]
                raise ExcRaised(Ref('builtin:AttributeError'))
            raise Unmodelled('getattr on a symbolic value')
        if isinstance(fn, ast.Name) and fn.id in ('filter', 'map') and fn.id not in self.env and len(args) == 2:
            seq = args[1]
            if isinstance(seq, (Opaque, Ref, Rec)):
                raise Unmodelled(f'{fn.id}() over a symbolic sequence')
            if fn.id == 'filter':
                return [x for x in seq if self.truth(self.invoke(args[0], [x]))]
            return [self.invoke(args[0], [x]) for x in seq]
        if isinstance(fn, ast.Name) and fn.id in self.env and isinstance(self.env[fn.id], LambdaVal):
            return self.invoke(self.env[fn.id], args)
        if isinstance(fn, ast.Name) and fn.id in _PURE and fn.id not in self.env:
            if fn.id == 'isinstance':
                if self.isinstance_fn is None:
                    raise Unmodelled('isinstance needs a class model')
                cls = n.args[1]
                if isinstance(cls, ast.Tuple):
                    refs = tuple(self.a.res.resolve(e, self.m) for e in cls.elts)
                else:
                    refs = self.a.res.resolve(cls, self.m)
                return self.isinstance_fn(args[0], refs)
            if fn.id == 'type':
                raise Unmodelled('type() call')
            if fn.id == 'bool' and len(args) == 1 and isinstance(args[0], (Rec, PyModel)):
                return self.truth(args[0]) if isinstance(args[0], Rec) else bool(args[0])
            for a_ in args:
                if isinstance(a_, (Opaque, Ref, Rec)):
                    return Opaque(fn.id)
            try:
                return _PURE[fn.id](*args, **kwargs)
            except (ValueError, TypeError) as exc:
                raise ExcRaised(Ref(f'builtin:{type(exc).__name__}'))
        raise Unmodelled(f'call {text}(...) at line {n.lineno}')

    def _inline(self, om, fnode, args, kwargs, closure=False, skip_first=False):
        params = [a.arg for a in fnode.args.posonlyargs + fnode.args.args]
        if skip_first:
            params = params[1:]
        defaults = fnode.args.defaults
        env = dict(self.env) if closure else {}
        for p_, d in zip(params[len(params) - len(defaults):], defaults):
            sub = Interp(self.a, om, {}, isinstance_fn=self.isinstance_fn, call_models=self.call_models)
            env[p_] = sub.ev(d)
        for p_, a in zip(params, args):
            env[p_] = a
        if fnode.args.vararg is not None:
            env[fnode.args.vararg.arg] = tuple(args[len(params):])
        if fnode.args.kwarg is not None:
            env[fnode.args.kwarg.arg] = {k: v for k, v in kwargs.items() if k not in params}
            kwargs = {k: v for k, v in kwargs.items() if k in params}
        for ko, kd in zip(fnode.args.kwonlyargs, fnode.args.kw_defaults):
            if ko.arg not in kwargs and kd is not None:
                sub0 = Interp(self.a, om, {}, isinstance_fn=self.isinstance_fn, call_models=self.call_models)
                env[ko.arg] = sub0.ev(kd)
        env.update(kwargs)
        is_gen = any(isinstance(y, (ast.Yield, ast.YieldFrom)) for y in _walk_no_defs(fnode))
        sub = Interp(self.a, om, env, effect_receivers=self.effects if closure else (), isinstance_fn=self.isinstance_fn,
                     call_models=self.call_models, inline_pkg=self.inline_pkg, depth=self.depth + 1,
                     self_class=self.self_class, record_unknown=self.record_unknown, scope_fn=self.scope_fn)
        if is_gen:
            sub._yielded = []
        out = sub.run(fnode.body)
        self.out.events.extend(out.events)
        if out.end == 'raise':
            raise ExcRaised(out.value)
        if is_gen:
            # the generator is expanded eagerly: laziness *inside* it is not modelled
            self.out.events.append(('<eager-generator>', ()))
            return list(sub._yielded)
        return out.value if out.end == 'return' else None

    def invoke(self, callee, args):
        """Apply a first-class callable value (lambda, model object, reference to a function) to arguments."""
        if isinstance(callee, LambdaVal):
            params = [a.arg for a in callee.node.args.args]
            sub = Interp(self.a, self.m, dict(callee.env), effect_receivers=self.effects, isinstance_fn=self.isinstance_fn,
                         call_models=self.call_models, inline_pkg=self.inline_pkg, depth=self.depth + 1,
                         self_class=self.self_class, record_unknown=self.record_unknown, scope_fn=self.scope_fn)
            sub.env.update(dict(zip(params, args)))
            return sub.ev(callee.node.body)
        if isinstance(callee, PyModel) and callable(callee):
            return callee(*args)
        if isinstance(callee, Ref):
            if callee.ref in self.call_models:
                return self.call_models[callee.ref](*args)
            if callee.ref in ('builtin:bool', 'builtin:int', 'builtin:float', 'builtin:str', 'builtin:len', 'builtin:abs'):
                fn_ = {'bool': bool, 'int': int, 'float': float, 'str': str, 'len': len, 'abs': abs}[callee.ref.split(':')[1]]
                if fn_ is bool and args and isinstance(args[0], Rec):
                    return self.truth(args[0])
                return fn_(*args)
            om, onode = self.a.res.lookup(callee.ref)
            if isinstance(onode, ast.FunctionDef) and self.depth < 4:
                if any(isinstance(d, ast.Name) and d.id == 'classmethod' for d in onode.decorator_list):
                    raise Unmodelled(f'call of classmethod {callee.ref} needs a model')
                return self._inline(om, onode, list(args), {})
        if callee is None:
            return self.truth(args[0]) if args else None
        raise Unmodelled(f'call of first-class value {callee!r}')

    def _comp(self, gens, i, emit):
        if i == len(gens):
            emit()
            return
        g = gens[i]
        it = self.ev(g.iter)
        if isinstance(it, (Opaque, Ref, Rec)) or not hasattr(it, '__iter__'):
            raise Unmodelled('comprehension over a symbolic iterable')
        items = list(it)
        if len(items) > 256:
            raise Unmodelled('comprehension over more than 256 items')
        saved = dict(self.env)
        for item in items:
            self.store(g.target, item)
            if all(self.truth(self.ev(c)) for c in g.ifs):
                self._comp(gens, i + 1, emit)
        # comprehension variables do not leak
        for k in list(self.env):
            if k not in saved:
                del self.env[k]

    def _lazy_local(self, name):
        """Value expression of a local that is bound exactly once in the analysed function by a plain assignment
        (a hoisted sub-expression / alias); None otherwise."""
        cache = self.__dict__.setdefault('_lazy_cache', {})
        if name in cache:
            return cache[name]
        from .flow import _stores
        allb = _stores(self.scope_fn).get(name, ())
        binds = [x for x in allb if isinstance(x, ast.Name)] if len(allb) == 1 else list(allb) + [None]
        val = None
        if len(binds) == 1:
            st = binds[0]
            while st is not None and not isinstance(st, ast.stmt):
                st = getattr(st, '_parent', None)
            if isinstance(st, ast.Assign) and len(st.targets) == 1 and st.targets[0] is binds[0] \
                    and not any(isinstance(c, (ast.Yield, ast.Await)) for c in ast.walk(st.value)):
                val = st.value
        cache[name] = val
        return val

    def _safe_ev(self, node):
        try:
            return self.ev(node)
        except Unmodelled:
            return Opaque(ast.unparse(node)[:40])
