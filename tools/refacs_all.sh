#!/bin/sh
# every refactoring in a process of its own; usage: refacs_all.sh [dir-glob]   (default: all of /verif/refactorings)
cd /verif
/venv/bin/python tools/refac_matrix.py --write-base 2>&1 | grep -v "WARNING conda"
ls -d ${1:-/verif/refactorings/*} | xargs -P 14 -I{} sh -c "timeout 2400 /venv/bin/python tools/refac_matrix.py --use-base {} 2>&1 | grep -v 'WARNING conda' | grep -v '^refactorings with issues' || echo '{}: CRASHED-OR-TIMEOUT'"
