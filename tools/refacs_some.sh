#!/bin/sh
# usage: refacs_some.sh <name-glob under /verif/refactorings> [--props=C01,C02]
cd /verif
pat="$1"; shift
ls -d /verif/refactorings/$pat | xargs -P 14 -I{} sh -c "timeout 2400 /venv/bin/python tools/refac_matrix.py --use-base $* {} 2>&1 | grep -v 'WARNING conda' | grep -v '^refactorings with issues'"
