#!/bin/sh
# usage: verify_refacs.sh <refac dir> ...   (each /tmp/wt/Rnn/_refac/<id>): suite unchanged with the patch applied
BASE_FAIL="$(cat /verif/tools/baseline_failed.txt)"
for d in "$@"; do
    wt=$(dirname $(dirname $d))
    [ -f $d/patch.diff ] || continue
    cd $wt && git checkout -q -- .
    git apply $d/patch.diff || { echo "$(basename $d): patch does not apply"; continue; }
    suite=$(timeout 900 /venv/bin/python -m pytest -p no:cacheprovider -q -n 8 2>&1 | grep -v "WARNING conda")
    summary=$(echo "$suite" | tail -1)
    failed=$(echo "$suite" | grep '^FAILED' | sed 's/ - .*//' | sort | md5sum | cut -c1-8)
    git checkout -q -- .
    find $wt -name __pycache__ -type d -prune -exec rm -rf {} + 2>/dev/null
    echo "$(basename $d): suite='$summary' failedset=$failed base=$BASE_FAIL"
done
