#!/bin/sh
# usage: ptree.sh <patch.diff>  -> prints a scratch copy of /repo/xlcalculator with the patch applied (caller removes it)
d=$(mktemp -d /var/tmp/ptree_XXXXXX)
cp -r /repo/xlcalculator $d/xlcalculator
find $d -name __pycache__ -type d -prune -exec rm -rf {} + 2>/dev/null
patch -p1 -s -d $d -i "$1" || { echo "PATCH-FAILED" >&2; rm -rf $d; exit 3; }
echo $d
