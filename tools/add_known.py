"""Development helper (never used by a check): append the CURRENT new violations of a property to
known_findings.json after they were triaged by hand as genuine defects.
usage: add_known.py C07 C07.1=F12 C07.2=F13 ..."""
import importlib, json, os, sys
HERE = os.path.dirname(os.path.dirname(os.path.abspath(__file__)))
sys.path.insert(0, HERE)
from xlsa import report
prop = sys.argv[1]
fmap = dict(a.split('=') for a in sys.argv[2:])
mod = importlib.import_module(f'rules.{prop.lower()}')
code, ctx, new, hits = report.run_property(mod, None, 'quick', write=False, quiet=True)
k = json.load(open(report.KNOWN_FILE))
for i in new:
    if i.rule not in fmap:
        print('SKIP (no finding id given):', i.key(prop)); continue
    k['open'].append({'property': prop, 'rule': i.rule, 'module': i.module, 'qualname': i.qualname,
                      'construct': i.construct, 'finding': fmap[i.rule], 'what_fails': i.why})
    print('added', i.key(prop))
json.dump(k, open(report.KNOWN_FILE, 'w'), indent=1)
