"""Development helper: run a property's rules on the sources of a given /repo commit
(in memory, via overlay) - e.g. the pinned snapshot e88fe60 to see the reverted fixes fire.
usage: on_commit.py <commit> C01 [C02 ...]"""
import os, subprocess, sys
HERE = os.path.dirname(os.path.dirname(os.path.abspath(__file__)))
sys.path.insert(0, HERE)
import importlib
from xlsa import report

def overlay(commit, root='/repo'):
    files = subprocess.run(['git', '-C', root, 'ls-tree', '-r', '--name-only', commit, 'xlcalculator'],
                           capture_output=True, text=True, check=True).stdout.split()
    ov = {}
    for f in files:
        if f.endswith('.py'):
            ov[f] = subprocess.run(['git', '-C', root, 'show', f'{commit}:{f}'], capture_output=True, text=True, check=True).stdout
    return ov

if __name__ == '__main__':
    commit = sys.argv[1]
    ov = overlay(commit)
    # files present now but absent at that commit are not removed (fine for this repo)
    an = report.Analysis(overlay=ov)
    for p in sys.argv[2:]:
        mod = importlib.import_module(f'rules.{p.lower()}')
        report.run_property(mod, an, 'quick', write=False)
