#!/bin/sh
# usage: collect_refacs4.sh R01 R02 ...  - verifies /tmp/wt/Rnn/_refac/{G,H,I} (suite unchanged with the patch) and stores them as refactorings/Ann-X
BASE_FAIL="$(cat /verif/tools/baseline_failed.txt)"
for id in "$@"; do
  wt=/tmp/wt/$id
  for v in L M N; do
    d=$wt/_refac/$v
    [ -f $d/patch.diff ] || { echo "$id/$v: no patch"; continue; }
    cd $wt && git checkout -q -- . && git apply $d/patch.diff || { echo "$id/$v: patch does not apply"; continue; }
    suite=$(timeout 900 /venv/bin/python -m pytest -p no:cacheprovider -q -n 8 2>&1 | grep -v "WARNING conda")
    summary=$(echo "$suite" | tail -1)
    failed=$(echo "$suite" | grep '^FAILED' | sed 's/ - .*//' | sort | md5sum | cut -c1-8)
    git checkout -q -- .
    find $wt -name __pycache__ -type d -prune -exec rm -rf {} + 2>/dev/null
    if [ "$failed" = "$BASE_FAIL" ] && echo "$summary" | grep -q "815 passed"; then
      dst=/verif/refactorings/B${id#S}-$v
      mkdir -p $dst; cp $d/patch.diff $dst/; [ -f $d/notes.md ] && cp $d/notes.md $dst/; [ -f $d/equiv.py ] && cp $d/equiv.py $dst/
      cat > $dst/meta.json <<EOM
{
 "id": "B${id#S}-$v",
 "kind": "behaviour-preserving refactoring (false-alarm corpus), round 5: three substantial restructurings of one area in three different styles",
 "origin": "independent sub-agent given only the area to refactor and a scratch worktree of /repo HEAD c9dd987; it had to keep the suite result and to show equal result digests of its own equivalence script (equiv.py) on the unchanged and the changed tree",
 "confirmed_by_me": {
  "how": "tools/collect_refacs4.sh in the scratch worktree: git apply, full pytest suite, git checkout",
  "suite_with_patch": "$summary",
  "failing_test_set_equals_baseline": true
 },
 "expected": "every property check exits 0 with this patch applied (no VIOLATION, no ANALYSIS-ERROR)"
}
EOM
      echo "$id/$v: collected ($summary)"
    else
      echo "$id/$v: NOT CONFIRMED suite='$summary' failedset=$failed"
    fi
  done
done
