"""Which statements and which outcomes of which decisions of the package do the witness tables of the rules interpret?
usage: branch_coverage.py [--tier quick|thorough] [Cnn ...]   -> /var/tmp/xlsa_coverage.json and a per-function summary

A statement no rule interprets, or a test only ever seen with one outcome, is a place where an edit cannot change any verdict of the
behavioural rules: the list is the to-do list for further witness rows (and is summarised in DESIGN.md 10.6)."""
import ast
import importlib
import json
import os
import sys

HERE = os.path.dirname(os.path.dirname(os.path.abspath(__file__)))
sys.path.insert(0, HERE)
from xlsa import guards, report  # noqa: E402

PROPS = [f'C{i:02d}' for i in range(1, 21)]


def main():
    args = sys.argv[1:]
    tier = 'quick'
    if '--tier' in args:
        i = args.index('--tier')
        tier = args[i + 1]
        del args[i:i + 2]
    props = args or PROPS
    guards.COVERAGE = {'lines': {}, 'branches': {}}
    an = report.Analysis()
    for p in props:
        mod = importlib.import_module(f'rules.{p.lower()}')
        code, ctx, new, known = report.run_property(mod, an, tier, write=False, quiet=True)
        print(f'{p}: exit={code}', file=sys.stderr)
    cov = guards.COVERAGE
    guards.COVERAGE = None
    out = {'lines': {}, 'one_sided': {}, 'summary': {}}
    total_stmts = total_hit = total_br = total_both = 0
    for name, m in sorted(an.repo.modules.items()):
        stmts = {}
        tests = {}
        for node in ast.walk(m.tree):
            qual = getattr(node, '_qual', '')
            if isinstance(node, ast.stmt) and not isinstance(node, (ast.FunctionDef, ast.ClassDef, ast.Import, ast.ImportFrom, ast.Global, ast.Pass)):
                if isinstance(node, ast.Expr) and isinstance(node.value, ast.Constant) and isinstance(node.value.value, str):
                    continue        # docstring
                if not any(isinstance(p_, ast.FunctionDef) for p_ in _parents(node)):
                    continue        # module / class level: executed at import
                stmts[node.lineno] = qual
            if isinstance(node, (ast.If, ast.While, ast.IfExp)):
                t = node.test
                tests[(t.lineno, t.col_offset)] = (qual, ast.unparse(t)[:70])
            if isinstance(node, ast.BoolOp):
                for v in node.values:
                    tests.setdefault((v.lineno, v.col_offset), (qual, ast.unparse(v)[:70]))
            if isinstance(node, ast.comprehension):
                for c in node.ifs:
                    tests[(c.lineno, c.col_offset)] = (qual, ast.unparse(c)[:70])
        hit = cov['lines'].get(name, set())
        missing = sorted(ln for ln in stmts if ln not in hit)
        one = []
        both = 0
        for (ln, col), (qual, text) in sorted(tests.items()):
            if not any(isinstance(p_, ast.FunctionDef) for p_ in [1] if qual):
                pass
            seen = cov['branches'].get((name, ln, col), set())
            if len(seen) == 2:
                both += 1
            else:
                one.append({'line': ln, 'function': qual, 'test': text, 'seen': sorted(seen)})
        by_fn = {}
        for ln in missing:
            by_fn.setdefault(stmts[ln], []).append(ln)
        out['lines'][name] = by_fn
        out['one_sided'][name] = one
        out['summary'][name] = {'statements': len(stmts), 'interpreted': len(stmts) - len(missing), 'decisions': len(tests), 'both_outcomes': both}
        total_stmts += len(stmts)
        total_hit += len(stmts) - len(missing)
        total_br += len(tests)
        total_both += both
    out['total'] = {'statements': total_stmts, 'interpreted': total_hit, 'decisions': total_br, 'both_outcomes': total_both}
    json.dump(out, open('/var/tmp/xlsa_coverage.json', 'w'), indent=1)
    for name, sm in out['summary'].items():
        print(f'{name or "__init__":32s} statements {sm["interpreted"]:4d}/{sm["statements"]:4d}   decisions with both outcomes {sm["both_outcomes"]:4d}/{sm["decisions"]:4d}')
    print('TOTAL', out['total'])


def _parents(node):
    p = getattr(node, '_parent', None)
    while p is not None:
        yield p
        p = getattr(p, '_parent', None)


if __name__ == '__main__':
    main()
