#!/bin/sh
# usage: try_patch.sh <patch.diff> [Cnn ...]   (applies to /repo, runs the checks, undoes it)
P="$1"; shift
cd /verif
git -C /repo apply "$P" || { echo "patch does not apply"; exit 3; }
PROPS="$@"; [ -z "$PROPS" ] && PROPS="C01 C02 C03 C04 C05 C06 C07 C08 C09 C10 C11 C12 C13 C14 C15 C16 C17 C18 C19 C20"
for p in $PROPS; do
  [ -f rules/$(echo $p | tr A-Z a-z).py ] || continue
  ./vcheck $p --no-write 2>&1 | grep -v "WARNING conda" | grep -v "^KNOWN-FINDING" | grep -v "^VIOLATION" | grep -v "new=0 errors=0" | cut -c1-330
done
git -C /repo checkout -- .
