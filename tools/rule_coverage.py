"""Which rule has a witness that it can fire?  Runs the sensitivity corpus of every property (seeds, reverted fixes,
mutants) in parallel and prints, per rule id, how many variants it reported.  A rule with 0 is only known to be silent."""
import importlib, json, os, sys
from concurrent.futures import ProcessPoolExecutor
HERE = os.path.dirname(os.path.dirname(os.path.abspath(__file__)))
sys.path.insert(0, HERE)


def one(pid):
    from xlsa import report
    from selftest import corpus
    mod = importlib.import_module(f'rules.{pid.lower()}')
    extra, errors = corpus.validate(pid, mod, report.Analysis())
    return pid, [r[0] for r in mod.RULES], extra['selftest']['sensitivity'], errors


if __name__ == '__main__':
    props = sys.argv[1:] or ['C%02d' % i for i in range(1, 21)]
    with ProcessPoolExecutor(16) as ex:
        for pid, rules, sens, errors in ex.map(one, props):
            cnt = {r: 0 for r in rules}
            for k in sens:
                for r in k.get('by', []):
                    cnt[r] = cnt.get(r, 0) + 1
            print(pid, ' '.join(f'{r.split(".")[1]}:{n}' for r, n in cnt.items()), '| errors:', len(errors))
            for e in errors:
                print('   ', e[:200])
