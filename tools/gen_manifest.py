"""Regenerate /verif/MANIFEST.json from the rule modules that exist (keeps it valid at all times)."""
import importlib
import json
import os
import sys

HERE = os.path.dirname(os.path.dirname(os.path.abspath(__file__)))
sys.path.insert(0, HERE)

BASELINE_OFF = ("cd /repo && /venv/bin/python -m pytest -ra -q -p no:cacheprovider --timeout=900 "
                "--continue-on-collection-errors")

ENGINES = {
    'E1': 'spec-table agreement (constant folding of tables, relation against a specification table)',
    'E2': 'decision-table extraction (partial evaluation of loop-free guards over a finite abstract domain)',
    'E3': 'effects / aliasing / scope over resolved callees (who-may-read, who-may-write, identity flow)',
    'E4': 'intraprocedural control/data flow (guard dominance with kills, must-pass-through, pairing, slices)',
    'E5': 'error discipline (raise/handler tables, partial operations)',
    'E6': 'sibling cross-check',
}

TECH = {
    'C01': 'static analysis: constant-folded precedence table; decision tables of the pop guard, the prefix switch and the percent branch by partial evaluation; effect analysis of stores on formula nodes; operator trees interpreted twice on changed operand values (constant propagation over the real node classes)',
    'C02': 'static analysis: three-valued path-condition analysis of token-text inspections, must-analysis of bounded reads with kills, token-kind producer/consumer tables, white-space decision table, witness formulas propagated through FormulaParser.tokenize / the tokenizer / OperandNode.eval',
    'C03': 'static analysis: decision tables by partial evaluation on witnesses ($-remover, XLFormula terms per sheet, resolve_ranges on witness rectangles, reader on an abstract workbook, build_code with a recording parser), loop-exit control dependence of range materialisation, address resolution of one node under several contexts',
    'C04': 'static analysis: who-may-read/write over the evaluation call graph with semantic cell-state exclusion, memo-scope analysis, effect analysis of stores on formula nodes, Evaluator.evaluate interpreted on witness models (state restored after failed / successful evaluations), sibling agreement of set/get/evaluate',
    'C05': 'static analysis: write-set and retention analysis of the evaluation path, memoising-decorator rules incl. provable key kinds at every call site, nondeterminism-source reachability, global-state rules, default-argument objects changed in place ; whole witness workbooks evaluated in several orders / evaluators / models in one process, and the steady-state footprint of everything that outlives an evaluation',
    'C06': 'static analysis: the recursion Evaluator.evaluate -> formula tree -> eval_cell interpreted on witness models (cycles reported on re-entry, diamonds evaluate, evaluator state restored), handler message construction on every function an exception travels through, address resolution per evaluation',
    'C07': 'static analysis: registration discipline, error-discipline tables (swallowing handlers, partial operations), decision tables of the error inspectors on real error/value instances, wrapper contract dataflow, operator trees interpreted on error-capable operands',
    'C08': 'static analysis: annotation resolution against the cast table for every registered parameter, conversion-totality table through the MRO, import-graph reachability, name canonicalisation witnesses, two evaluators constructed around a registration (constructor interpreted, shared world)',
    'C09': 'static analysis: the full comparison table over representative values of every class pair computed on the real comparison methods (dunder dispatch, casts, blank conversion) by constant propagation and compared with one total order; structure of overrides and wrappers; constant-cell kinds',
    'C10': 'static analysis: partial evaluation of FunctionNode.eval and of IF/AND/OR/NOT on recording thunk models (which thunk is called, how often, for each abstract truth value / blank / array), default typing, error checks of thunk results ; IF on value-class instances; evaluator state after a failed branch',
    'C11': 'static analysis: partial evaluation of the reader on an abstract workbook model (sheets, cells with formula/cached value/plain value, defined names): which keys and fields each returned map receives, normalisation of name targets over witness spellings, build order ; whole workbooks loaded through the reader path by interpretation (ignore lists, hidden sheets, names scoped to sheets, laid-out formulas, two loads in one process) against hand-computed values ; sibling agreement of the replacement openpyxl reader with the constructor call of openpyxl itself, read from the installed source',
    'C12': 'static analysis: writer and reader interpreted over a file system in memory (names -> bytes; open / os.open / gzip with their truncation and position rules) and a document registry standing for jsonpickle: keys, attributes, options, compression by extension, file histories (what is restored is what was persisted last), reconstructibility contract of stored value and error classes ; effect analysis of stores on persisted formula nodes; __getstate__/__setstate__ round trip interpreted on witnesses',
    'C13': 'static analysis: partial evaluation of ModelCompiler.extract on abstract models (chain, diamond, tree, range terms, defined names) with an identity-preserving model of copy.deepcopy: closure, range handling, aliasing with the original, focus handling ; blank references and names in formulas; terms per sheet',
    'C14': 'static analysis: partial evaluation of the aggregate bodies on abstract item tables (numbers, texts, blanks, booleans) and array shapes: what reaches the fold, empty-fold guards, SUMPRODUCT shape decisions; origin analysis of the range array ; aggregates through the registered wrapper (validate_args interpreted as written) on witness argument lists',
    'C15': 'static analysis: backward slices (parameter influence on returned values), criteria table and regex alphabet, CHOOSE decision table ; criteria closures interpreted on witness criteria x cell values through the real operator wrappers ; MATCH / VLOOKUP / COUNTIF(S) witness workbooks against linear scans',
    'C16': 'static analysis: partial evaluation of each function body at the critical points of its domain (library calls modelled, not executed), rounding-mode decision tables through a model of _round, decimal routing, argument binding ; rounding family and POWER through the registered wrapper with decimal arithmetic folded',
    'C17': 'static analysis: affine index forms of slices, raise/no-raise decision tables over a (length, position, count) grid and witness texts by partial evaluation, annotation coercion, simple-map shapes ; text constants through tokenizer and operand node',
    'C18': 'static analysis: the serial <-> datetime conversions interpreted at critical serials and times of day, epoch guards, WEEKDAY rotation tables, calendar rows around year ends of ordinary / leap / century years, call sequences in one process, sibling truncation ; DATEDIF through the registered wrapper on anniversaries +-1 day (calendar arithmetic folded)',
    'C19': 'static analysis: table coherence by constant folding, wrapper/table cross-check, guard decision tables at window boundaries, origin/destination role dataflow ; digit-string witnesses with the real truth value of Text',
    'C20': 'static analysis: library-binding argument dataflow, backward slices (parameter influence), reflected-operator hazard typing, guard dominance ; NPV/SLN through the registered wrapper on witness cash flows',
}


def main():
    checks = []
    na = []
    for i in range(1, 21):
        pid = 'C%02d' % i
        try:
            mod = importlib.import_module(f'rules.{pid.lower()}')
        except ModuleNotFoundError:
            na.append({'property_id': pid, 'reason': 'check not built yet in this session (rules module missing); see DESIGN.md section 4 for the planned static rules'})
            continue
        checks.append({
            'property_id': pid,
            'quick_cmd': f'./vcheck {pid} --tier quick',
            'thorough_cmd': f'./vcheck {pid} --tier thorough',
            'evidence_file': f'/verif/evidence/{pid}.json',
            'replay_cmd_template': f'./vcheck {pid} --replay {{path}}',
            'engine': 'xlsa',
            'level_claimed': {
                'category': 'other',
                'text': ('Static analysis of /repo\'s current source (never imports or runs the library). A pass means the '
                         'structural NECESSARY conditions of the property hold at every enumerated site: '
                         + mod.EXPLANATION + ' NOT decided (runtime quantities, not claimed): ' + mod.NOT_DECIDED + '. '
                         'This is the right level because these clauses are visible in the shape of the code on every path and '
                         'quantify over all registered functions/operators/token kinds/paths at once, which the sampled tests cannot; '
                         'the value-level remainder cannot be bounded by a sound static argument in reach and is left undecided.'),
                'design_ref': f'DESIGN.md section 4 ({pid}) and section 10',
            },
            'level_note': ('Trusted: python ast; the hand-written resolver / constant folder / flow and decision-table helpers in '
                           '/verif/xlsa; the specification tables transcribed from the property statement; '
                           + '; '.join(getattr(mod, 'TRUSTED', [])) + '. Known genuine defects are listed in '
                           '/verif/known_findings.json and printed as KNOWN-FINDING lines.'),
            'technique': TECH[pid],
        })
    manifest = {
        'version': 1,
        'setup_cmd': './vcheck --selfcheck',
        'hooks': {
            'guard': 'XLCALCULATOR_VERIF',
            'enable': 'none needed: the checks read source files only; no hook was added to /repo (XLCALCULATOR_VERIF is unused)',
            'baseline_off_cmd': BASELINE_OFF,
            'source_commits': [],
            'add_only': True,
        },
        'engines': [{
            'name': 'xlsa',
            'path': '/verif/xlsa',
            'serves_properties': [c['property_id'] for c in checks],
            'kind_free_text': 'repository-specific static analyser on python ast (stdlib only): ' + '; '.join(f'{k}: {v}' for k, v in ENGINES.items()),
        }],
        'checks': checks,
        'notes': ('All checks are static analyses of /repo/xlcalculator/**/*.py as found on disk at run time. Exit 0: every structural '
                  'obligation holds or is a listed known finding (printed as KNOWN-FINDING); exit 1 + VIOLATION line: a construct '
                  'violates a rule and is not listed; exit 2 + ANALYSIS-ERROR: anchor vanished / shape unmodelled / instance count '
                  'below the hand-confirmed floor (never a silent pass). thorough = quick + checker self-validation (mutation '
                  'sensitivity and behaviour-preserving-transform stability on the current tree).'),
        'not_applicable': na,
    }
    with open(os.path.join(HERE, 'MANIFEST.json'), 'w') as fh:
        json.dump(manifest, fh, indent=1)
    print(f'MANIFEST.json: {len(checks)} checks, {len(na)} not applicable')


if __name__ == '__main__':
    main()
