"""Run property checks against a raw patch applied to a scratch copy (outside /repo and /verif).
usage: try_raw.py <patch.diff> [Cnn ...]"""
import importlib, os, shutil, sys
HERE = os.path.dirname(os.path.dirname(os.path.abspath(__file__)))
sys.path.insert(0, HERE)
sys.path.insert(0, os.path.join(HERE, 'tools'))
from xlsa import report
from seed_matrix import patched_tree, PROPS

patch = sys.argv[1]
props = sys.argv[2:] or PROPS
tmp = patched_tree(patch)
try:
    an = report.Analysis(root=tmp)
    for p in props:
        mod = importlib.import_module(f'rules.{p.lower()}')
        code, ctx, new, known = report.run_property(mod, an, 'quick', write=False, quiet=True)
        print(f'{p}: exit={code} new={len(new)} errors={len(ctx.errors) if ctx else "?"}')
        for i in new[:6]:
            print('   ', i.rule, i.construct[:90], '|', str(i.why)[:160])
        for e in (ctx.errors if ctx else [])[:3]:
            print('    ERR', e[:250])
finally:
    shutil.rmtree(tmp)
