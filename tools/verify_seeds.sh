#!/bin/sh
# usage: [VARIANTS='C D'] verify_seeds.sh C01 S02 ...   verifies /tmp/wt/<id>/_seed/{A,B}: demo PASS clean, FAIL patched, suite unchanged
BASE_FAIL="$(cat /verif/tools/baseline_failed.txt)"
for id in "$@"; do
  wt=/tmp/wt/$id
  for v in ${VARIANTS:-A B}; do
    d=$wt/_seed/$v
    [ -f $d/patch.diff ] || { echo "$id/$v: no patch"; continue; }
    cd $wt && git checkout -q -- . 
    clean=$(timeout 600 /venv/bin/python $d/demo.py 2>&1 | grep -v "WARNING conda" | tail -1); cleanrc=$?
    timeout 600 /venv/bin/python $d/demo.py >/dev/null 2>&1; cleanrc=$?
    git apply $d/patch.diff || { echo "$id/$v: patch does not apply"; continue; }
    timeout 600 /venv/bin/python $d/demo.py > $d/demo_patched.out 2>&1; prc=$?
    suite=$(timeout 900 /venv/bin/python -m pytest -p no:cacheprovider -q -n 8 2>&1 | grep -v "WARNING conda")
    summary=$(echo "$suite" | tail -1)
    failed=$(echo "$suite" | grep '^FAILED' | sed 's/ - .*//' | sort | md5sum | cut -c1-8)
    git checkout -q -- .
    find $wt -name __pycache__ -type d -prune -exec rm -rf {} + 2>/dev/null
    echo "$id/$v: clean_rc=$cleanrc patched_rc=$prc suite='$summary' failedset=$failed base=$BASE_FAIL"
  done
done
