"""Copy verified seeds from /tmp/wt/<id>/_seed/{A,B} into /verif/seeded/<id>-<A|B>/ with meta.json.
usage: collect_seeds.py <verify log> C01 S02 ...   (worktree Snn = round 2 of property Cnn, variants C/D; Tnn = round 3, variants E/F)"""
import json, os, re, shutil, sys
log = open(sys.argv[1]).read()
res = {}
for m in re.finditer(r"^([CSTUVW]\d\d)/([A-O]): clean_rc=(\d+) patched_rc=(\d+) suite='([^']*)' failedset=(\w+) base=(\w+)", log, re.M):
    res[(m.group(1), m.group(2))] = m.groups()[2:]
for wt in sys.argv[2:]:
    pid = 'C' + wt[1:]
    for v in {'C': 'AB', 'S': 'CD', 'T': 'EF', 'U': 'JK', 'V': 'LM', 'W': 'NO'}[wt[0]]:
        src = f'/tmp/wt/{wt}/_seed/{v}'
        if (wt, v) not in res or not os.path.exists(src + '/patch.diff'):
            print('skip', pid, v); continue
        clean_rc, patched_rc, suite, fs, base = res[(wt, v)]
        ok = clean_rc == '0' and patched_rc == '1' and fs == base and '815 passed' in suite and '12 failed' in suite
        if not ok:
            print('NOT CONFIRMED', pid, v, res[(wt, v)]); continue
        dst = f'/verif/seeded/{pid}-{v}'
        os.makedirs(dst, exist_ok=True)
        for f in ('patch.diff', 'demo.py', 'notes.md'):
            if os.path.exists(f'{src}/{f}'):
                shutil.copy(f'{src}/{f}', f'{dst}/{f}')
        notes = open(f'{src}/notes.md').read() if os.path.exists(f'{src}/notes.md') else ''
        meta = {
            'id': f'{pid}-{v}', 'property': pid,
            'origin': 'independent sub-agent given only the property text and a scratch worktree of /repo' + ({'T': ' HEAD b1cfd31', 'U': ' HEAD 4b20d70', 'V': ' HEAD c9dd987', 'W': ' HEAD dd38410'}.get(wt[0], ' HEAD 4965b20')),
            'needs_to_manifest': 'see notes.md (written by the sub-agent): ' + ' '.join(notes.split())[:600],
            'confirmed_by_me': {
                'how': f'tools/verify_seeds.sh in the scratch worktree /tmp/wt/{wt}: demo.py on the clean tree, git apply patch.diff, demo.py again, full pytest suite, git checkout',
                'demo_exit_clean_tree': int(clean_rc), 'demo_exit_with_patch': int(patched_rc),
                'suite_with_patch': suite, 'failing_test_set_equals_baseline': fs == base,
            },
            'detected_by': [],
        }
        json.dump(meta, open(f'{dst}/meta.json', 'w'), indent=1)
        print('collected', dst)
