#!/bin/sh
# every seed in a process of its own (a crashed or hanging interpretation cannot stall the others)
# usage: seeds_all.sh [--update] [--own]
cd /verif
ls seeded | xargs -P 14 -I{} sh -c "timeout 1500 /venv/bin/python tools/seed_matrix.py $* {} 2>&1 | grep -v 'WARNING conda' | grep -E '^C[0-9]+-[A-Z]:' || echo '{}: CRASHED-OR-TIMEOUT'" | sort
