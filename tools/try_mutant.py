"""Run one self-validation variant (mutant or reverted fix) of a property by a substring of its label.
usage: try_mutant.py Cnn '<label substring>'"""
import os
import sys
HERE = os.path.dirname(os.path.dirname(os.path.abspath(__file__)))
sys.path.insert(0, HERE)
from xlsa import report  # noqa: E402
from selftest import corpus, mutants  # noqa: E402

prop, needle = sys.argv[1], sys.argv[2]
an = report.Analysis()
tasks = []
for label, fn in mutants.for_property(prop):
    if needle in label:
        try:
            src = fn(dict(an.repo.sources()))
        except mutants.NotApplicable as exc:
            print(label, 'NOT APPLICABLE', exc)
            continue
        tasks.append((prop, label, 'overlay', src))
for label, diff, reverse in corpus.revert_variants(prop):
    if needle in label:
        tasks.append((prop, label, 'patch', (diff, reverse)))
for t in tasks:
    r = corpus._worker(t)
    print(r['label'], '| applied', r['applied'], '| analysis_error', r.get('analysis_error'))
    for n in r.get('new', [])[:5]:
        print('   NEW', n[1], n[2][:90], '|', n[3][:120])
    for e in r.get('errors', [])[:4]:
        print('   ERR', e[:300])
