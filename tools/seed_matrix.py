"""Run every property check against every seeded patch (applied to a scratch copy outside /repo and /verif),
record which rules report it. usage: seed_matrix.py [--update] [seed ids...]"""
import importlib, json, os, shutil, subprocess, sys, tempfile
HERE = os.path.dirname(os.path.dirname(os.path.abspath(__file__)))
sys.path.insert(0, HERE)
from xlsa import report

def patched_tree(patch):
    tmp = tempfile.mkdtemp(prefix='seedtree_', dir='/var/tmp')
    shutil.copytree('/repo/xlcalculator', os.path.join(tmp, 'xlcalculator'), ignore=shutil.ignore_patterns('__pycache__'))
    r = subprocess.run(['patch', '-p1', '-s', '-d', tmp, '-i', patch], capture_output=True, text=True)
    if r.returncode != 0:
        shutil.rmtree(tmp); raise RuntimeError(f'patch failed: {r.stdout} {r.stderr}')
    return tmp

PROPS = ['C%02d' % i for i in range(1, 21)]


def one(sname):
    mods = {}
    for p in PROPS:
        try:
            mods[p] = importlib.import_module(f'rules.{p.lower()}')
        except ModuleNotFoundError:
            pass
    d = os.path.join(HERE, 'seeded', sname)
    meta = json.load(open(os.path.join(d, 'meta.json')))
    try:
        tmp = patched_tree(os.path.join(d, 'patch.diff'))
    except RuntimeError as exc:
        return sname, meta, [], [f'DOES-NOT-APPLY: {str(exc)[:80]}']
    hits, errs = [], []
    if '--own' in sys.argv:
        mods = {p: m for p, m in mods.items() if p == meta['property']}
    try:
        an = report.Analysis(root=tmp)
        for p, mod in mods.items():
            code, ctx, new, known = report.run_property(mod, an, 'quick', write=False, quiet=True)
            for i in new:
                hits.append(f'{p}:{i.rule} [{i.construct}]')
            if ctx is not None and ctx.errors:
                errs.append(f'{p}: {ctx.errors[0][:100]}')
    finally:
        shutil.rmtree(tmp)
    return sname, meta, hits, errs


def main():
    import multiprocessing
    args = [a for a in sys.argv[1:] if not a.startswith('--')]
    update = '--update' in sys.argv
    seeds = sorted(os.listdir(os.path.join(HERE, 'seeded')))
    if args:
        seeds = [s for s in seeds if s in args]
    with multiprocessing.Pool(14) as pool:
        results = pool.map(one, seeds)
    missed = []
    for s, meta, hits, errs in results:
        d = os.path.join(HERE, 'seeded', s)
        own = [h for h in hits if h.startswith(meta['property'] + ':')]
        status = 'OWN' if own else ('OTHER' if hits else ('ERRONLY' if errs else 'MISSED'))
        print(f'{s}: {status} own={len(own)} all={len(hits)} ' + ('; '.join(sorted({h.split(" [")[0] for h in hits}))) + (f' errors={errs}' if errs else ''))
        if not own:
            missed.append(s)
        if update:
            meta['detected_by'] = sorted({h.split(' [')[0] for h in hits})
            meta['detected_constructs'] = hits[:12]
            json.dump(meta, open(os.path.join(d, 'meta.json'), 'w'), indent=1)
    print('not detected by own property check:', missed)


if __name__ == '__main__':
    main()
