"""Run every property check against behaviour-preserving refactorings (false-alarm hunting).
usage: refac_matrix.py <dir with */patch.diff> ..."""
import importlib, json, os, shutil, subprocess, sys, tempfile, glob
HERE = os.path.dirname(os.path.dirname(os.path.abspath(__file__)))
sys.path.insert(0, HERE)
from xlsa import report

def patched_tree(patch):
    tmp = tempfile.mkdtemp(prefix='refactree_', dir='/var/tmp')
    shutil.copytree('/repo/xlcalculator', os.path.join(tmp, 'xlcalculator'), ignore=shutil.ignore_patterns('__pycache__'))
    r = subprocess.run(['patch', '-p1', '-s', '-d', tmp, '-i', patch], capture_output=True, text=True)
    if r.returncode != 0:
        shutil.rmtree(tmp); raise RuntimeError(f'patch failed: {r.stdout} {r.stderr}')
    return tmp

props = ['C%02d' % i for i in range(1, 21)]
args_ = [a for a in sys.argv[1:] if a.startswith('--props=')]
if args_:
    props = args_[0].split('=')[1].split(',')
    sys.argv = [a for a in sys.argv if not a.startswith('--props=')]
mods = {p: importlib.import_module(f'rules.{p.lower()}') for p in props}
BASE_FILE = '/var/tmp/refac_base.json'
base = {}
if '--use-base' in sys.argv and os.path.exists(BASE_FILE):
    base = {k: tuple(v) for k, v in json.load(open(BASE_FILE)).items()}
    sys.argv = [a for a in sys.argv if a != '--use-base']
else:
    sys.argv = [a for a in sys.argv if a != '--use-base']
    an0 = report.Analysis()
    for p, m in mods.items():
        code, ctx, new, hits = report.run_property(m, an0, 'quick', write=False, quiet=True)
        base[p] = (code, len(hits))
    if '--write-base' in sys.argv:
        json.dump(base, open(BASE_FILE, 'w'))
        sys.exit(0)
def one(d):
    patch = os.path.join(d, 'patch.diff')
    if not os.path.exists(patch):
        return None
    name = os.path.basename(d.rstrip('/'))
    try:
        tmp = patched_tree(patch)
    except RuntimeError as e:
        return name, [f'  PATCH FAILED {str(e)[:100]}']
    issues = []
    try:
        an = report.Analysis(root=tmp)
        for p, m in mods.items():
            code, ctx, new, hits = report.run_property(m, an, 'quick', write=False, quiet=True)
            for i in new:
                issues.append(f'  FALSE-ALARM {p} {i.rule} {i.file}:{i.line} [{i.construct}] {i.why[:140]}')
            for e in (ctx.errors if ctx else []):
                issues.append(f'  ANALYSIS-ERROR {p} {e[:200]}')
            if ctx and len(hits) < base[p][1]:
                issues.append(f'  KNOWN-LOST {p}: {base[p][1] - len(hits)} known finding(s) no longer matched')
    finally:
        shutil.rmtree(tmp)
    return name, issues


if __name__ == '__main__':
    import multiprocessing
    dirs = sorted(x for a in sys.argv[1:] for x in glob.glob(a))
    with multiprocessing.Pool(14) as pool:
        results = [r for r in pool.map(one, dirs) if r]
    bad = 0
    for name, issues in results:
        print(name, 'clean' if not issues else f'{len(issues)} issue(s)')
        for i in issues:
            print(i)
        bad += bool(issues)
    print('refactorings with issues:', bad)
