import sys, pathlib
root = pathlib.Path(sys.argv[1])
only = set(sys.argv[2:])  # optional subset of fix ids
def sub(fid, path, old, new, count=1):
    if only and fid not in only: return
    p = root / path
    s = p.read_text()
    assert s.count(old) == count, (fid, path, s.count(old))
    p.write_text(s.replace(old, new))
    print('applied', fid, path)

# F03 literal opacity
sub('F03', 'xlcalculator/parser.py',
    "                if type(token.tvalue) == str:\n",
    "                if type(token.tvalue) == str and token.tsubtype != 'text':\n")
# F04 bounded read
sub('F04', 'xlcalculator/tokenizer.py',
    'while ((currentChar() in (" ", "\\n")) and (not EOF())):',
    'while ((not EOF()) and (currentChar() in (" ", "\\n"))):')
# F05 strip $ in coordinates
sub('F05', 'xlcalculator/utils.py',
    "def resolve_address(addr):",
    "def strip_absolute(addr):\n"
    "    \"\"\"Remove the absolute markers ($) from the coordinates of a reference.\"\"\"\n"
    "    sheet, sep, coord = addr.rpartition('!')\n"
    "    return sheet + sep + coord.replace('$', '')\n\n\n"
    "def resolve_address(addr):")
sub('F05', 'xlcalculator/ast_nodes.py',
    "            addr = f'{context.sheet}!{addr}'\n        return addr\n",
    "            addr = f'{context.sheet}!{addr}'\n        return utils.strip_absolute(addr)\n")
sub('F05', 'xlcalculator/xltypes.py',
    "                term = token.tvalue\n",
    "                term = utils.strip_absolute(token.tvalue)\n")
# F07 names bound to ranges
sub('F07', 'xlcalculator/model.py',
    "                    name: defn.address\n",
    "                    name: (defn.address_str\n"
    "                           if isinstance(defn, xltypes.XLRange)\n"
    "                           else defn.address)\n")
# F08 set_cell_value with XLCell address
sub('F08', 'xlcalculator/model.py',
    "                self.cells[address.address] = xltypes.XLCell\n                (address.address, value)\n",
    "                self.cells[address.address] = xltypes.XLCell(\n                    address.address, value)\n")
# F09 F10 F11 evaluator
sub('F09', 'xlcalculator/evaluator.py',
    "import sys\nfrom functools import lru_cache\n", "import sys\n")
sub('F09', 'xlcalculator/evaluator.py',
    "        self.evaluator = evaluator\n",
    "        self.evaluator = evaluator\n        self._cell_values = {}\n")
sub('F09', 'xlcalculator/evaluator.py',
    "    @lru_cache(maxsize=None)\n    def eval_cell(self, addr):\n"
    "        # Check for a cycle.\n"
    "        if addr in self.seen:\n"
    "            raise RuntimeError(\n"
    "                f'Cycle detected for {addr}:\\n- ' + '\\n- '.join(self.seen))\n"
    "        self.seen.append(addr)\n\n"
    "        return self.evaluator.evaluate(addr, None)\n",
    "    def eval_cell(self, addr):\n"
    "        # Memoize per context, so the values die with the context.\n"
    "        if addr not in self._cell_values:\n"
    "            self.seen.append(addr)\n"
    "            self._cell_values[addr] = self.evaluator.evaluate(addr, None)\n"
    "        return self._cell_values[addr]\n")
sub('F10', 'xlcalculator/evaluator.py',
    "        self.cache_count = 0\n",
    "        self.cache_count = 0\n        self._eval_stack = []\n")
sub('F10', 'xlcalculator/evaluator.py',
    "        context = context if context is not None else self._get_context(addr)\n"
    "        try:\n"
    "            value = cell.formula.ast.eval(context)\n"
    "        except Exception as err:\n"
    "            raise RuntimeError(\n"
    "                f\"Problem evaluating cell {addr} formula \"\n"
    "                f\"{cell.formula.formula}: {repr(err)}\"\n"
    "            ).with_traceback(sys.exc_info()[2])\n",
    "        context = context if context is not None else self._get_context(addr)\n"
    "        # Check for a cycle.\n"
    "        if addr in self._eval_stack:\n"
    "            raise RuntimeError(\n"
    "                f'Cycle detected for {addr}:\\n- '\n"
    "                + '\\n- '.join(self._eval_stack))\n"
    "        self._eval_stack.append(addr)\n"
    "        try:\n"
    "            value = cell.formula.ast.eval(context)\n"
    "        except Exception as err:\n"
    "            raise RuntimeError(\n"
    "                f\"Problem evaluating cell {addr} formula \"\n"
    "                f\"{cell.formula.formula}: {type(err).__name__}: {err}\"\n"
    "            ).with_traceback(sys.exc_info()[2])\n"
    "        finally:\n"
    "            self._eval_stack.pop()\n")
# F12 validate_args
sub('F12a', 'xlcalculator/xlfunctions/operator.py',
    "@xl.register()\ndef OP_EQ(", "@xl.register()\n@xl.validate_args\ndef OP_EQ(")
sub('F12a', 'xlcalculator/xlfunctions/operator.py',
    "@xl.register()\ndef OP_NE(", "@xl.register()\n@xl.validate_args\ndef OP_NE(")
sub('F12b', 'xlcalculator/xlfunctions/financial.py',
    "@xl.register()\ndef PMT(", "@xl.register()\n@xl.validate_args\ndef PMT(")
sub('F12b', 'xlcalculator/xlfunctions/financial.py',
    "@xl.register()\ndef SLN(", "@xl.register()\n@xl.validate_args\ndef SLN(")
# F16 engineering import
sub('F16', 'xlcalculator/__init__.py',
    "    date,\n    financial,", "    date,\n    engineering,\n    financial,")
# F18 blank
sub('F18', 'xlcalculator/xlfunctions/func_xltypes.py',
    "    def _sort_key(self, other):\n        return other.__Blank__()._sort_key(self)\n",
    "    def _sort_key(self, other):\n"
    "        if isinstance(other, Blank):\n"
    "            return Number(0)._sort_key(self)\n"
    "        return other.__Blank__()._sort_key(self)\n")
sub('F18b', 'xlcalculator/xlfunctions/func_xltypes.py',
    "    def __DateTime__(self):\n        return self\n\n    def __Blank__(self):\n        return None\n",
    "    def __DateTime__(self):\n        return self\n\n    def __Blank__(self):\n        return Number(0)\n")
# F19 IF defaults
sub('F19', 'xlcalculator/xlfunctions/logical.py',
    "        value_if_true: func_xltypes.XlExpr = True,\n        value_if_false: func_xltypes.XlExpr = False\n",
    "        value_if_true: func_xltypes.XlExpr = func_xltypes.ValueExpr(True),\n"
    "        value_if_false: func_xltypes.XlExpr = func_xltypes.ValueExpr(False)\n")
# F21 defined names of ignored sheets
sub('F21', 'xlcalculator/reader.py',
    "from . import patch, xltypes\n", "from . import patch, utils, xltypes\n")
sub('F21', 'xlcalculator/reader.py',
    "            if defn.hidden is None and defn.value != '#REF!'\n",
    "            if defn.hidden is None and defn.value != '#REF!'\n"
    "            and utils.resolve_sheet(\n"
    "                defn.value.rpartition('!')[0]) not in ignore_sheets\n")
# F22 getnewargs
sub('F22', 'xlcalculator/xlfunctions/func_xltypes.py',
    "        inst.value = value\n        return inst\n\n    @classmethod\n    def cast(cls, value):",
    "        inst.value = value\n        return inst\n\n"
    "    def __getnewargs__(self):\n        return (self.value,)\n\n"
    "    @classmethod\n    def cast(cls, value):")
# F25 AVERAGE
sub('F25', 'xlcalculator/xlfunctions/statistics.py',
    "    numbers = xl.flatten(numbers)\n\n    # If no non numeric cells, return zero (is what excel does)\n    if len(numbers) < 1:\n        return 0\n\n    return sum(numbers) / len(numbers)",
    "    numbers = list(filter(\n        func_xltypes.Number.is_type, xl.flatten(numbers)))\n\n    # If no non numeric cells, return zero (is what excel does)\n    if len(numbers) < 1:\n        return 0\n\n    return sum(numbers) / len(numbers)")
# F27 VLOOKUP
sub('F27', 'xlcalculator/xlfunctions/lookup.py',
    "    return table_array.loc[lookup_value].values[0]\n",
    "    if col_index_num == 1:\n        return lookup_value\n\n"
    "    return table_array.loc[lookup_value].values[col_index_num - 2]\n")
# F31 ATAN2
sub('F31', 'xlcalculator/xlfunctions/math.py',
    "    return np.arctan2(float(x_num), float(y_num))", "    return np.arctan2(float(y_num), float(x_num))")
# F34 leap threshold
sub('F34', 'xlcalculator/xlfunctions/utils.py',
    "    offset = 2 if value > 58 else 1", "    offset = 2 if value > 59 else 1")
# F36 epoch guards
sub('F36', 'xlcalculator/xlfunctions/date.py', "    if result <= utils.EXCEL_EPOCH:", "    if result < utils.EXCEL_EPOCH:")
sub('F36', 'xlcalculator/xlfunctions/date.py', "    if edate <= utils.EXCEL_EPOCH:", "    if edate < utils.EXCEL_EPOCH:", count=2)
