"""Failing inputs for the findings of DESIGN.md section 5 (triage only).

Run from the root of the tree to examine, e.g.
    cd /repo && /venv/bin/python /verif/triage/failing_inputs.py
"""
import datetime
import os
import sys
import tempfile
import warnings

warnings.filterwarnings("ignore")
sys.path.insert(0, os.getcwd())

import xlcalculator  # noqa: E402
from xlcalculator import ModelCompiler, Evaluator, Model, xltypes  # noqa: E402
from xlcalculator.xlfunctions import (  # noqa: E402
    xl, func_xltypes as ft, xlerrors, utils)

print('tree:', xlcalculator.__file__)
F = xl.FUNCTIONS


def call(name, *a):
    try:
        return repr(F[name](*a))
    except BaseException as ex:
        return 'EXC %s: %s' % (type(ex).__name__, str(ex)[:100])


def ev(d, cell='Sheet1!Z1'):
    try:
        m = ModelCompiler().read_and_parse_dict(d)
        return repr(Evaluator(m).evaluate(cell))
    except BaseException as ex:
        return 'EXC %s: %s' % (type(ex).__name__, str(ex)[:160])


def show(fid, what, got):
    print('%-4s %-42s -> %s' % (fid, what, got))


show('F01', '=2^(A1)%  A1=50 (want 2^0.5)', ev({'A1': 50, 'Z1': '=2^(A1)%'}))
show('F01', '=A1%', ev({'A1': 1, 'Z1': '=A1%'}))
show('F02', '=10E+2 (want 1000)', ev({'Z1': '=10E+2'}))
show('F02', '=0.5E+3 (want 500)', ev({'Z1': '=0.5E+3'}))
show('F03', '=A1&": "&B1', ev({'A1': 1, 'B1': 2, 'Z1': '=A1&": "&B1'}))
show('F03', '=":x"', ev({'Z1': '=":x"'}))
show('F03', '="a:OFFSET"&A1', ev({'A1': 1, 'Z1': '="a:OFFSET"&A1'}))
show('F04', "'=A1+1 ' (trailing blank)", ev({'A1': 1, 'Z1': '=A1+1 '}))
show('F05', '=$A$1*2  A1=5', ev({'A1': 5, 'Z1': '=$A$1*2'}))
show('F06', '=SUM(A1:DZ1) only DY1=5', ev({'DY1': 5, 'Z9': '=SUM(A1:DZ1)'},
                                           'Sheet1!Z9'))
m = ModelCompiler().read_and_parse_dict({'A1': 1})
m.set_cell_value(xltypes.XLCell('Sheet1!B7'), 5)
show('F08', 'set_cell_value(XLCell(B7), 5)', m.cells['Sheet1!B7'])
show('F12', 'OP_EQ(#DIV/0!, 1)', call('OP_EQ', xlerrors.DivZeroExcelError(), 1))
show('F12', 'SLN(#DIV/0!,1,1)', call('SLN', xlerrors.DivZeroExcelError(), 1, 1))
show('F12', 'PMT(#N/A,1,1)', call('PMT', xlerrors.NaExcelError(), 1, 1))
show('F13', '=SUM(1,#N/A)', ev({'Z1': '=SUM(1,#N/A)'}))
show('F13', '=10/0&"x"', ev({'Z1': '=10/0&"x"'}))
show('F14', '=0^-1', ev({'Z1': '=0^-1'}))
show('F15', 'AVERAGE("1",2)', call('AVERAGE', '1', 2))
show('F15', 'MID("abc","x",1)', call('MID', 'abc', 'x', 1))
show('F16', "'DEC2BIN' in FUNCTIONS / count", ('DEC2BIN' in F, len(F)))
show('F17', '="1"<5 , =5>"1"', (ev({'Z1': '="1"<5'}), ev({'Z1': '=5>"1"'})))
show('F18', '=A1=B1 (both empty)', ev({'Z1': '=A1=B1'}))
try:
    r = ft.BLANK == ft.DateTime(datetime.datetime(2020, 1, 1))
except BaseException as ex:
    r = 'EXC %s' % type(ex).__name__
show('F18', 'BLANK == DateTime', r)
show('F19', '=IF(A1,5)  A1=FALSE', ev({'A1': False, 'Z1': '=IF(A1,5)'}))
show('F20', '=IF(1/0,1,2)', ev({'Z1': '=IF(1/0,1,2)'}))
show('F20', '=AND(1/0,TRUE)', ev({'Z1': '=AND(1/0,TRUE)'}))
show('F20', '=OR(#N/A,FALSE)', ev({'Z1': '=OR(#N/A,FALSE)'}))
show('F20', '=NOT(#N/A)', ev({'Z1': '=NOT(#N/A)'}))


def extract_chain():
    m = ModelCompiler().read_and_parse_dict(
        {'A1': 1, 'A2': '=A1+1', 'A3': '=A2+1', 'A4': '=A3+1'})
    x = ModelCompiler.extract(m, ['Sheet1!A4'])
    return (Evaluator(x).evaluate('Sheet1!A4'),
            Evaluator(m).evaluate('Sheet1!A4'))


def extract_range():
    m = ModelCompiler().read_and_parse_dict(
        {'A1': 1, 'A2': 2, 'A3': '=SUM(A1:A2)'})
    x = ModelCompiler.extract(m, ['Sheet1!A3'])
    return Evaluator(x).evaluate('Sheet1!A3')


for fid, what, fn in (('F23', 'extract chain (extracted, original)',
                       extract_chain),
                      ('F24', 'extract formula over a range', extract_range)):
    try:
        show(fid, what, fn())
    except BaseException as ex:
        show(fid, what, 'EXC %s: %s' % (type(ex).__name__, ex))

show('F25', '=AVERAGE(A1:A3) A2 empty', ev({'A1': 1, 'A3': 3,
                                            'Z1': '=AVERAGE(A1:A3)'}))
show('F26', 'MIN("a")', call('MIN', 'a'))
show('F27', '=VLOOKUP(2,A1:C2,3) (want 200)', ev(
    {'A1': 1, 'B1': 10, 'C1': 100, 'A2': 2, 'B2': 20, 'C2': 200,
     'Z1': '=VLOOKUP(2,A1:C2,3)'}))
show('F28', '=COUNTIF(A1:A3,">-5") -10,-1,3', ev(
    {'A1': -10, 'A2': -1, 'A3': 3, 'Z1': '=COUNTIF(A1:A3,">-5")'}))
for name, args in (('LN', (0,)), ('LOG', (0,)), ('LOG10', (0,)),
                   ('ACOS', (2,)), ('MOD', (5, 0)), ('POWER', (10.5, 400)),
                   ('EXP', (1000,)), ('COSH', (1000,))):
    show('F29', '%s%r' % (name, args), call(name, *args))
show('F30', 'TRUNC(1.13,2) FLOOR(.3,.1) CEILING(2.1,.1)',
     (call('TRUNC', 1.13, 2), call('FLOOR', 0.3, 0.1),
      call('CEILING', 2.1, 0.1)))
show('F31', 'ATAN2(1,2) (want 1.1071)', call('ATAN2', 1, 2))
show('F32', 'RIGHT("abc",0)', call('RIGHT', 'abc', 0))
show('F32', 'REPLACE("abab",1,2,"x")', call('REPLACE', 'abab', 1, 2, 'x'))
show('F33', 'LEFT("abc",-1)', call('LEFT', 'abc', -1))
show('F33', 'REPLACE("abcd",0,1,"x")', call('REPLACE', 'abcd', 0, 1, 'x'))
show('F33', 'FIND("a","banana",-2)', call('FIND', 'a', 'banana', -2))
show('F34', 'DAY(59), MONTH(59)', (call('DAY', 59), call('MONTH', 59)))
show('F35', 'datetime_to_number(2000-01-01 12:00)',
     utils.datetime_to_number(datetime.datetime(2000, 1, 1, 12)))
show('F36', 'DATE(1900,1,1)', call('DATE', 1900, 1, 1))

# F22: persist after evaluation
m = ModelCompiler().read_and_parse_dict({'A1': 1, 'A2': '=A1+1'})
Evaluator(m).evaluate('Sheet1!A2')
with tempfile.TemporaryDirectory() as tmp:
    fname = os.path.join(tmp, 'm.json')
    m.persist_to_json_file(fname)
    m2 = Model()
    m2.construct_from_json_file(fname, build_code=True)
show('F22', 'persist/restore value of A2', repr(m2.cells['Sheet1!A2'].value))

# F07, F21, F37 need a workbook file
try:
    import openpyxl
    from openpyxl.workbook.defined_name import DefinedName
    with tempfile.TemporaryDirectory() as tmp:
        wb = openpyxl.Workbook()
        ws = wb.active
        ws.title = 'Sheet1'
        ws2 = wb.create_sheet('Other Sheet')
        ws['A1'], ws['A2'], ws['B1'] = 1, 2, '=SUM(myrange)'
        ws2['A1'], ws2['A2'] = 5, 6
        wb.defined_names['myrange'] = DefinedName(
            'myrange', attr_text='Sheet1!$A$1:$A$2')
        wb.defined_names['orange'] = DefinedName(
            'orange', attr_text="'Other Sheet'!$A$1:$A$2")
        wb.defined_names['ocell'] = DefinedName(
            'ocell', attr_text="'Other Sheet'!$A$1")
        fname = os.path.join(tmp, 't.xlsx')
        wb.save(fname)
        m = ModelCompiler().read_and_parse_archive(fname)
        show('F07', '=SUM(myrange) (want 3)',
             Evaluator(m).evaluate('Sheet1!B1'))
        show('F37', "'ocell' in defined_names (want True)",
             'ocell' in m.defined_names)
        try:
            m = ModelCompiler().read_and_parse_archive(
                fname, ignore_sheets=['Other Sheet'])
            show('F21', 'load ignoring Other Sheet', sorted(m.cells))
        except BaseException as ex:
            show('F21', 'load ignoring Other Sheet',
                 'EXC %s: %s' % (type(ex).__name__, ex))
except ImportError:
    print('openpyxl not importable: F07/F21/F37 skipped')

# F09-F11 are resource defects: run the cycle in a subprocess with a timeout.
import subprocess  # noqa: E402
probe = os.path.join(os.path.dirname(os.path.abspath(__file__)),
                     'cycle_probe.py')
try:
    out = subprocess.run([sys.executable, probe], capture_output=True,
                         text=True, timeout=45)
    r = out.stdout.strip().splitlines()[-1] if out.stdout.strip() else (
        'exit %s %s' % (out.returncode, out.stderr.strip()[-80:]))
except subprocess.TimeoutExpired:
    r = 'no result within 45 s (killed)'
show('F10', 'A1:=B1 B1:=A1 (type, msg len, cycle?, s)', r)
