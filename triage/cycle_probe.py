"""Evaluate a two-cell cycle (triage only; run from the tree root)."""
import sys, os, time
sys.path.insert(0, os.getcwd())
import warnings; warnings.filterwarnings('ignore')
t=time.time()
from xlcalculator import ModelCompiler, Evaluator
print('import', round(time.time()-t,1))
m = ModelCompiler().read_and_parse_dict({'A1':'=B1','B1':'=A1'})
t=time.time()
try:
    Evaluator(m).evaluate('Sheet1!A1')
except BaseException as ex:
    s = str(ex); print(type(ex).__name__, len(s), 'cycle' in s.lower(), round(time.time()-t,2))
