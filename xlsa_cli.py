"""Command line of the static checks:  ./vcheck Cnn [--tier quick|thorough] [--replay FILE]"""
import argparse
import importlib
import json
import os
import sys

HERE = os.path.dirname(os.path.abspath(__file__))
sys.path.insert(0, HERE)

from xlsa import AnalysisError  # noqa: E402
from xlsa import report  # noqa: E402

PROPS = ['C%02d' % i for i in range(1, 21)]


def load_rules(prop):
    return importlib.import_module(f'rules.{prop.lower()}')


def selfcheck():
    ok = True
    for p in PROPS:
        try:
            m = load_rules(p)
            assert m.PROPERTY == p and m.RULES
        except Exception as exc:
            print(f'selfcheck: rules for {p} not loadable: {type(exc).__name__}: {exc}')
            ok = False
    try:
        report.Analysis()
    except AnalysisError as exc:
        print(f'selfcheck: cannot load sources: {exc}')
        ok = False
    print('selfcheck', 'ok' if ok else 'FAILED')
    return 0 if ok else 2


def main(argv=None):
    ap = argparse.ArgumentParser()
    ap.add_argument('prop', nargs='?')
    ap.add_argument('--tier', default=os.environ.get('VERIF_TIER') or 'quick',
                    choices=['quick', 'thorough'])
    ap.add_argument('--replay')
    ap.add_argument('--selfcheck', action='store_true')
    ap.add_argument('--all', action='store_true')
    ap.add_argument('--no-write', action='store_true')
    args = ap.parse_args(argv)
    if args.selfcheck:
        return selfcheck()
    if args.all:
        worst = 0
        an = report.Analysis()
        for p in PROPS:
            code, *_ = report.run_property(load_rules(p), an, args.tier, write=not args.no_write)
            worst = max(worst, code)
        return worst
    if not args.prop:
        ap.error('property id required')
    prop = args.prop.upper()
    try:
        propmod = load_rules(prop)
    except ModuleNotFoundError:
        print(f'ANALYSIS-ERROR property={prop} no rules module')
        return 2
    if args.replay:
        with open(args.replay) as fh:
            rec = json.load(fh)
        code, ctx, new, hits = report.run_property(propmod, None, args.tier, write=False, quiet=True)
        if ctx is None:
            print(f'ANALYSIS-ERROR property={prop} cannot analyse tree')
            return 2
        still = [i for i in ctx.instances if i.verdict == 'violated' and i.key(prop) == rec['key']]
        if still:
            i = still[0]
            print(f'{i.file}:{i.line}: {i.rule} in {i.qualname} [{i.construct}]: {i.why}')
            print(f'VIOLATION property={prop} replay={args.replay}')
            return 1
        print(f'replay: finding {rec["key"]} no longer reported on the current tree')
        return 0
    if args.tier == 'thorough':
        from selftest import thorough
        return thorough.run(prop, propmod)
    code, *_ = report.run_property(propmod, None, args.tier, write=not args.no_write)
    return code


if __name__ == '__main__':
    try:
        sys.exit(main())
    except SystemExit:
        raise
    except BaseException as exc:  # a traceback must never look like a violation
        print(f'ANALYSIS-ERROR internal {type(exc).__name__}: {exc}')
        sys.exit(2)
