"""Behaviour-preserving source transforms (equivalence corpus). Each maps {path: source} -> {path: source}."""
import ast
import builtins
import copy


class NotApplicable(Exception):
    pass


def _map(sources, fn, only=None):
    out = {}
    for path, src in sources.items():
        if only and not any(path.endswith(o) for o in only):
            out[path] = src
            continue
        tree = ast.parse(src)
        new = fn(tree, path)
        ast.fix_missing_locations(new)
        out[path] = ast.unparse(new) + '\n'
    return out


def roundtrip(sources):
    """Formatting, comments, quotes, line numbers: ast.unparse of every module."""
    return _map(sources, lambda t, p: t)


def renumber_precedence(sources):
    """Multiply every precedence of the operator table by 10 and add 3 (order preserved)."""
    def fn(tree, path):
        class T(ast.NodeTransformer):
            def visit_Call(self, n):
                self.generic_visit(n)
                if isinstance(n.func, ast.Name) and n.func.id == 'Operator' and len(n.args) == 3 \
                        and isinstance(n.args[1], ast.Constant) and isinstance(n.args[1].value, int):
                    n.args[1] = ast.Constant(n.args[1].value * 10 + 3)
                return n
        return T().visit(tree)
    return _map(sources, fn, only=['parser.py'])


def reverse_dict_literals(sources):
    """Reverse the entry order of every module-level dict literal."""
    def fn(tree, path):
        for stmt in tree.body:
            if isinstance(stmt, ast.Assign) and isinstance(stmt.value, ast.Dict):
                stmt.value.keys = list(reversed(stmt.value.keys))
                stmt.value.values = list(reversed(stmt.value.values))
        return tree
    return _map(sources, fn)


def reorder_functions(sources):
    """Reverse the order of the top-level function definitions of every module (imports/assignments stay first)."""
    def fn(tree, path):
        funcs = [s for s in tree.body if isinstance(s, ast.FunctionDef)]
        if len(funcs) < 2:
            return tree
        # keep functions that are used at import time by later module-level statements in place
        used_at_import = set()
        for s in tree.body:
            if not isinstance(s, (ast.FunctionDef, ast.ClassDef)):
                used_at_import |= {n.id for n in ast.walk(s) if isinstance(n, ast.Name)}
            else:
                for d in s.decorator_list:
                    used_at_import |= {n.id for n in ast.walk(d) if isinstance(n, ast.Name)}
                if isinstance(s, ast.ClassDef):
                    for b in s.body:
                        if not isinstance(b, ast.FunctionDef):
                            used_at_import |= {n.id for n in ast.walk(b) if isinstance(n, ast.Name)}
                if isinstance(s, ast.FunctionDef):
                    for d in s.args.defaults + s.args.kw_defaults:
                        if d is not None:
                            used_at_import |= {n.id for n in ast.walk(d) if isinstance(n, ast.Name)}
        movable = [f for f in funcs if f.name not in used_at_import]
        slots = [i for i, s in enumerate(tree.body) if s in movable]
        for i, f in zip(slots, reversed(movable)):
            tree.body[i] = f
        return tree
    return _map(sources, fn)


_BUILTINS = set(dir(builtins))


def rename_locals(sources):
    """Rename every local variable (not parameters, not globals) of every function: x -> x_rn."""
    def fn(tree, path):
        module_names = {n.id for s in tree.body for n in ast.walk(s) if isinstance(n, ast.Name) and isinstance(n.ctx, ast.Store)
                        and not _inside_function(tree, n)}
        for node in ast.walk(tree):
            if isinstance(node, (ast.FunctionDef,)) and _is_outermost_function(tree, node):
                _rename_in(node, module_names)
        return tree
    return _map(sources, fn)


_parent_cache = {}


def _parents(tree):
    key = id(tree)
    if key not in _parent_cache:
        par = {}
        for n in ast.walk(tree):
            for c in ast.iter_child_nodes(n):
                par[id(c)] = n
        _parent_cache.clear()
        _parent_cache[key] = par
    return _parent_cache[key]


def _inside_function(tree, node):
    par = _parents(tree)
    p = par.get(id(node))
    while p is not None:
        if isinstance(p, (ast.FunctionDef, ast.Lambda)):
            return True
        p = par.get(id(p))
    return False


def _is_outermost_function(tree, node):
    par = _parents(tree)
    p = par.get(id(node))
    while p is not None:
        if isinstance(p, (ast.FunctionDef, ast.Lambda)):
            return False
        p = par.get(id(p))
    return True


def _rename_in(func, module_names):
    params = set()
    for f in ast.walk(func):
        if isinstance(f, (ast.FunctionDef, ast.Lambda)):
            a = f.args
            for x in a.posonlyargs + a.args + a.kwonlyargs:
                params.add(x.arg)
            if a.vararg:
                params.add(a.vararg.arg)
            if a.kwarg:
                params.add(a.kwarg.arg)
    declared_global = {n for g in ast.walk(func) if isinstance(g, (ast.Global,)) for n in g.names}
    assigned = set()
    for n in ast.walk(func):
        if isinstance(n, ast.Name) and isinstance(n.ctx, ast.Store):
            assigned.add(n.id)
        elif isinstance(n, ast.ExceptHandler) and n.name:
            assigned.add(n.name)
        elif isinstance(n, (ast.FunctionDef,)) and n is not func:
            assigned.add(n.name)
    locals_ = assigned - params - declared_global - _BUILTINS
    # names used as keyword arguments / attributes are unaffected (they are not Name nodes)
    mapping = {n: n + '_rn' for n in locals_}
    for n in ast.walk(func):
        if isinstance(n, ast.Name) and n.id in mapping:
            n.id = mapping[n.id]
        elif isinstance(n, ast.ExceptHandler) and n.name in mapping:
            n.name = mapping[n.name]
        elif isinstance(n, ast.FunctionDef) and n is not func and n.name in mapping:
            n.name = mapping[n.name]
        elif isinstance(n, ast.Nonlocal):
            n.names = [mapping.get(x, x) for x in n.names]


def swap_equality_sides(sources):
    """a == CONST  ->  CONST == a  (and !=) for every comparison with a constant on the right."""
    def fn(tree, path):
        class T(ast.NodeTransformer):
            def visit_Compare(self, n):
                self.generic_visit(n)
                if len(n.ops) == 1 and isinstance(n.ops[0], (ast.Eq, ast.NotEq)) and isinstance(n.comparators[0], ast.Constant) \
                        and not isinstance(n.left, ast.Constant):
                    n.left, n.comparators = n.comparators[0], [n.left]
                return n
        return T().visit(tree)
    return _map(sources, fn)


def hoist_if_tests(sources):
    """if <compound test>: ...  ->  cond_h = <test>; if cond_h: ...   for plain `if` statements whose test has no call
    with side effects on the tested names (only applied to tests made of comparisons/boolean operators on names and attributes)."""
    def pure(e):
        return all(isinstance(x, (ast.Compare, ast.BoolOp, ast.Name, ast.Attribute, ast.Constant, ast.And, ast.Or, ast.Not,
                                  ast.UnaryOp, ast.Load, ast.Eq, ast.NotEq, ast.Lt, ast.LtE, ast.Gt, ast.GtE, ast.In, ast.NotIn,
                                  ast.Is, ast.IsNot)) for x in ast.walk(e))

    def fn(tree, path):
        counter = [0]

        class T(ast.NodeTransformer):
            def _block(self, stmts):
                out = []
                for s in stmts:
                    s = self.visit(s)
                    if isinstance(s, ast.If) and isinstance(s.test, ast.BoolOp) and pure(s.test) and not _is_elif_chain(s):
                        counter[0] += 1
                        name = f'cond_h{counter[0]}'
                        out.append(ast.Assign(targets=[ast.Name(id=name, ctx=ast.Store())], value=s.test))
                        s.test = ast.Name(id=name, ctx=ast.Load())
                    out.append(s)
                return out

            def visit_FunctionDef(self, n):
                n.body = self._block(n.body)
                return n
        return T().visit(tree)
    return _map(sources, fn)


def _is_elif_chain(s):
    return len(s.orelse) == 1 and isinstance(s.orelse[0], ast.If)


def add_docstrings_and_pass(sources):
    """Insert a docstring into every function that has none and a trailing no-op comment-like expression."""
    def fn(tree, path):
        for n in ast.walk(tree):
            if isinstance(n, ast.FunctionDef):
                if not (n.body and isinstance(n.body[0], ast.Expr) and isinstance(n.body[0].value, ast.Constant)
                        and isinstance(n.body[0].value.value, str)):
                    n.body.insert(0, ast.Expr(ast.Constant(f'{n.name}: documentation added by the equivalence corpus.')))
        return tree
    return _map(sources, fn)


ALL = [
    ('unparse round trip (formatting, comments, line numbers)', roundtrip),
    ('renumber the precedence table (x10+3)', renumber_precedence),
    ('reverse module-level dict literals', reverse_dict_literals),
    ('reverse the order of top-level functions', reorder_functions),
    ('rename every local variable', rename_locals),
    ('swap the sides of ==/!= comparisons with constants', swap_equality_sides),
    ('hoist compound if-tests into a local', hoist_if_tests),
    ('add docstrings to every function', add_docstrings_and_pass),
]
