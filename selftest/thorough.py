"""Thorough tier: the quick rules on the current tree, then validation of the checker itself
against the current tree (seeded breaks must be reported, behaviour-preserving transforms must not
change the verdict). Extended in selftest/corpus.py."""
import time

from xlsa import report


def run(prop, propmod):
    t0 = time.time()
    an = report.Analysis()
    extra = {}
    try:
        from selftest import corpus
        extra, selfcheck_errors = corpus.validate(prop, propmod, an)
    except ImportError:
        extra, selfcheck_errors = {'selftest': 'corpus not built yet'}, []
    extra = dict(extra)
    extra['selftest_wall_s'] = round(time.time() - t0, 2)
    code, ctx, new, hits = report.run_property(propmod, an, 'thorough', write=True, extra=extra)
    for e in selfcheck_errors:
        print(f'ANALYSIS-ERROR property={prop} selftest: {e}')
    if selfcheck_errors and code == 0:
        code = 2
    return code
