"""Validation of the checker itself against the CURRENT tree (thorough tier).

* equivalence corpus  - behaviour-preserving source transforms: the verdict of the property's rules must not change
                        (no new violation, no analysis error, every known finding still matched)
* sensitivity corpus  - breaks that must be reported by the property's own rules:
                          - the independent seeded changes kept under /verif/seeded (applied to a scratch copy),
                          - the repairs recorded as `fixed:` in known_findings.json, reverted on a scratch copy,
                          - AST-computed mutants of the anchored constructs (selftest/mutants.py)
All variants are analysed in memory / in a scratch directory under /var/tmp that is removed right away; nothing is
ever written to /repo. A checker that lost sensitivity or stability fails the thorough run with exit 2: that says
nothing about the property, only that the check can no longer be trusted.
"""
import ast
import json
import os
import re
import shutil
import subprocess
import tempfile

from xlsa import report, AnalysisError
from selftest import transforms, mutants

VERIF = report.VERIF


def _run(propmod, analysis):
    # variants are analysed with the tables of the quick tier; the full tables run once, on the tree itself
    code, ctx, new, hits = report.run_property(propmod, analysis, 'quick', write=False, quiet=True)
    return code, ctx, new, hits


def _overlay_analysis(sources):
    return report.Analysis(overlay=sources)


def _scratch_tree():
    tmp = tempfile.mkdtemp(prefix='xlsa_selftest_', dir='/var/tmp')
    shutil.copytree(os.path.join(report.Analysis().repo.root, 'xlcalculator'), os.path.join(tmp, 'xlcalculator'),
                    ignore=shutil.ignore_patterns('__pycache__'))
    return tmp


def _apply_patch(tmp, patch_text, reverse=False):
    args = ['patch', '-p1', '-s', '-f', '-d', tmp]
    if reverse:
        args.insert(1, '-R')
    r = subprocess.run(args, input=patch_text, capture_output=True, text=True)
    return r.returncode == 0


def seed_variants(prop):
    out = []
    sd = os.path.join(VERIF, 'seeded')
    if not os.path.isdir(sd):
        return out
    for name in sorted(os.listdir(sd)):
        meta_p = os.path.join(sd, name, 'meta.json')
        if not os.path.exists(meta_p):
            continue
        meta = json.load(open(meta_p))
        if meta.get('property') != prop:
            continue
        out.append((f'seed {name}', open(os.path.join(sd, name, 'patch.diff')).read(), False))
    return out


def revert_variants(prop):
    out = []
    known = report.load_known()
    root = report.Analysis().repo.root
    for line in known.get('fixed', []):
        m = re.match(r'fixed: property=(C\d+) (\w+) (F\d+)', line)
        if not m:
            continue
        # a fix is relevant to every property whose rule is named in the record
        rules = set(re.findall(r'C\d\d(?=\.\d)', line)) | {m.group(1)}
        if prop not in rules:
            continue
        try:
            diff = subprocess.run(['git', '-C', root, 'show', '--format=', m.group(2), '--', 'xlcalculator'],
                                  capture_output=True, text=True, check=True).stdout
        except Exception:
            continue
        if diff.strip():
            out.append((f'revert of fix {m.group(3)} ({m.group(2)})', diff, True))
    return out


def _worker(task):
    """One variant in a process of its own: (label, kind, payload) -> summary of the property's verdict on it."""
    import importlib
    prop, label, kind, payload = task
    propmod = importlib.import_module(f'rules.{prop.lower()}')
    tmp = None
    try:
        if kind == 'overlay':
            an = _overlay_analysis(payload)
        else:
            diff, reverse = payload
            tmp = _scratch_tree()
            if not _apply_patch(tmp, diff, reverse):
                return {'label': label, 'applied': False}
            an = report.Analysis(root=tmp)
        code, ctx, new, hits = _run(propmod, an)
        return {'label': label, 'applied': True, 'analysis_error': None,
                'new': [(i.key(prop), i.rule, i.construct, i.why[:160]) for i in new],
                'errors': list(ctx.errors), 'hits': len(hits), 'instances': len(ctx.instances)}
    except AnalysisError as exc:
        return {'label': label, 'applied': True, 'analysis_error': str(exc), 'new': [], 'errors': [], 'hits': 0, 'instances': 0}
    finally:
        if tmp is not None:
            shutil.rmtree(tmp, ignore_errors=True)


def _child(task, conn):
    try:
        conn.send(_worker(task))
    except BaseException as exc:      # noqa: BLE001 - reported to the parent, which decides
        try:
            conn.send({'label': task[1], 'applied': True, 'analysis_error': f'{type(exc).__name__}: {exc}', 'new': [], 'errors': [], 'hits': 0,
                       'instances': 0})
        except Exception:             # noqa: BLE001
            pass
    finally:
        conn.close()


def _run_all(tasks):
    """Every variant in a process of its own (at most 14 at a time): a process that dies - a crash under analysis-induced
    recursion, the OOM killer - or hangs is noticed and reported for that variant alone."""
    import multiprocessing
    import time
    if not tasks:
        return {}
    ctxm = multiprocessing.get_context('fork')
    jobs = max(1, min(14, (os.cpu_count() or 2) - 1, len(tasks)))
    results = {}
    queue = list(tasks)
    running = []        # (process, parent_conn, task, started)

    def died(task, why):
        return {'label': task[1], 'applied': True, 'analysis_error': why, 'new': [], 'errors': [], 'hits': 0, 'instances': 0}
    while queue or running:
        while queue and len(running) < jobs:
            t = queue.pop(0)
            parent, child = ctxm.Pipe(duplex=False)
            pr = ctxm.Process(target=_child, args=(t, child), daemon=True)
            pr.start()
            child.close()
            running.append((pr, parent, t, time.time()))
        still = []
        for pr, conn, t, t0 in running:
            if conn.poll(0):
                try:
                    r = conn.recv()
                    results[r['label']] = r
                except (EOFError, OSError):
                    results[t[1]] = died(t, 'the process analysing this variant died')
                pr.join(5)
                conn.close()
            elif not pr.is_alive():
                results[t[1]] = died(t, f'the process analysing this variant died (exit code {pr.exitcode})')
                conn.close()
            elif time.time() - t0 > 1800:
                pr.kill()
                results[t[1]] = died(t, 'the analysis of this variant did not finish within 30 minutes')
                conn.close()
            else:
                still.append((pr, conn, t, t0))
        running = still
        if running:
            time.sleep(0.05)
    return results


def validate(prop, propmod, analysis):
    """Returns (extra evidence dict, list of error strings). Every variant is analysed in a worker process (the checks may use all cores)."""
    errors = []
    base_code, base_ctx, base_new, base_hits = _run(propmod, analysis)
    base_new_keys = {b.key(prop) for b in base_new}
    sources = analysis.repo.sources()
    tasks = []
    equiv_order, kill_order = [], []
    skipped = {}
    # ---- equivalence corpus -------------------------------------------------------------
    for name, fn in transforms.ALL:
        label = f'transform {name}'
        try:
            new_sources = fn(dict(sources))
        except transforms.NotApplicable as exc:
            skipped[label] = f'skipped: {exc}'
            equiv_order.append((label, name))
            continue
        tasks.append((prop, label, 'overlay', new_sources))
        equiv_order.append((label, name))
    rdir = os.path.join(VERIF, 'refactorings')
    if os.path.isdir(rdir):
        for name in sorted(os.listdir(rdir)):
            patch_p = os.path.join(rdir, name, 'patch.diff')
            if not os.path.exists(patch_p):
                continue
            label = f'refactoring {name}'
            tasks.append((prop, label, 'patch', (open(patch_p).read(), False)))
            equiv_order.append((label, label))
    # ---- sensitivity corpus -------------------------------------------------------------
    for label, diff, reverse in seed_variants(prop) + revert_variants(prop):
        tasks.append((prop, label, 'patch', (diff, reverse)))
        kill_order.append(label)
    for label, fn in mutants.for_property(prop):
        mlabel = f'mutant {label}'
        try:
            new_sources = fn(dict(sources))
        except mutants.NotApplicable as exc:
            skipped[mlabel] = f'skipped: {exc}'
            kill_order.append(mlabel)
            continue
        tasks.append((prop, mlabel, 'overlay', new_sources))
        kill_order.append(mlabel)
    results = _run_all(tasks)
    equiv = []
    for label, shown in equiv_order:
        if label in skipped:
            equiv.append({'transform': shown, 'result': skipped[label]})
            continue
        r = results[label]
        if not r['applied']:
            equiv.append({'transform': shown, 'result': 'skipped: does not apply to the current tree'})
            continue
        if r['analysis_error']:
            errors.append(f'{label}: analysis failed: {r["analysis_error"]}')
            continue
        fresh = [n for n in r['new'] if n[0] not in base_new_keys]
        res = 'stable'
        if fresh:
            res = f'FALSE ALARM: {fresh[0][1]} [{fresh[0][2]}]'
            errors.append(f'{label} (behaviour-preserving) is reported: {fresh[0][1]} [{fresh[0][2]}] {fresh[0][3][:120]}')
        elif r['errors'] and not base_ctx.errors:
            res = f'ANALYSIS ERROR: {r["errors"][0][:100]}'
            errors.append(f'{label} (behaviour-preserving) makes the analysis give up: {r["errors"][0][:160]}')
        elif r['hits'] < len(base_hits):
            res = f'known findings matched {r["hits"]} vs {len(base_hits)}'
            errors.append(f'{label}: {len(base_hits) - r["hits"]} known finding(s) no longer matched')
        equiv.append({'transform': shown, 'result': res, 'instances': r['instances']})
    kills = []
    for label in kill_order:
        if label in skipped:
            kills.append({'variant': label, 'result': skipped[label]})
            continue
        r = results[label]
        if not r['applied']:
            kills.append({'variant': label, 'result': 'skipped: does not apply to the current tree'})
            continue
        if r['analysis_error']:
            kills.append({'variant': label, 'result': f'analysis error: {r["analysis_error"]}'})
            errors.append(f'{label}: analysis failed instead of reporting: {r["analysis_error"]}')
            continue
        fresh = [n for n in r['new'] if n[0] not in base_new_keys]
        if fresh:
            kills.append({'variant': label, 'result': 'reported', 'by': sorted({n[1] for n in fresh}), 'construct': fresh[0][2]})
        elif r['errors'] and label.startswith('mutant '):
            kills.append({'variant': label, 'result': f'analysis error only: {r["errors"][0][:80]}'})
            errors.append(f'{label}: only an analysis error, no violation: {r["errors"][0][:120]}')
        else:
            kills.append({'variant': label, 'result': 'INSENSITIVE'})
            errors.append(f'{label} is not reported by the rules of {prop}: the check lost sensitivity')
    extra = {
        'selftest': {
            'equivalence_transforms': equiv,
            'sensitivity': kills,
            'reported': sum(1 for k in kills if k['result'] == 'reported'),
            'variants': len(kills),
            'stable_transforms': sum(1 for e in equiv if e['result'] == 'stable'),
            'transforms': len(equiv),
        }
    }
    return extra, errors
