"""Validation of the checker itself against the CURRENT tree (thorough tier).

* equivalence corpus  - behaviour-preserving source transforms: the verdict of the property's rules must not change
                        (no new violation, no analysis error, every known finding still matched)
* sensitivity corpus  - breaks that must be reported by the property's own rules:
                          - the independent seeded changes kept under /verif/seeded (applied to a scratch copy),
                          - the repairs recorded as `fixed:` in known_findings.json, reverted on a scratch copy,
                          - AST-computed mutants of the anchored constructs (selftest/mutants.py)
All variants are analysed in memory / in a scratch directory under /var/tmp that is removed right away; nothing is
ever written to /repo. A checker that lost sensitivity or stability fails the thorough run with exit 2: that says
nothing about the property, only that the check can no longer be trusted.
"""
import ast
import json
import os
import re
import shutil
import subprocess
import tempfile

from xlsa import report, AnalysisError
from selftest import transforms, mutants

VERIF = report.VERIF


def _run(propmod, analysis):
    # variants are analysed with the tables of the quick tier; the full tables run once, on the tree itself
    code, ctx, new, hits = report.run_property(propmod, analysis, 'quick', write=False, quiet=True)
    return code, ctx, new, hits


def _overlay_analysis(sources):
    return report.Analysis(overlay=sources)


def _scratch_tree():
    tmp = tempfile.mkdtemp(prefix='xlsa_selftest_', dir='/var/tmp')
    shutil.copytree(os.path.join(report.Analysis().repo.root, 'xlcalculator'), os.path.join(tmp, 'xlcalculator'),
                    ignore=shutil.ignore_patterns('__pycache__'))
    return tmp


def _apply_patch(tmp, patch_text, reverse=False):
    args = ['patch', '-p1', '-s', '-f', '-d', tmp]
    if reverse:
        args.insert(1, '-R')
    r = subprocess.run(args, input=patch_text, capture_output=True, text=True)
    return r.returncode == 0


def seed_variants(prop):
    out = []
    sd = os.path.join(VERIF, 'seeded')
    if not os.path.isdir(sd):
        return out
    for name in sorted(os.listdir(sd)):
        meta_p = os.path.join(sd, name, 'meta.json')
        if not os.path.exists(meta_p):
            continue
        meta = json.load(open(meta_p))
        if meta.get('property') != prop:
            continue
        out.append((f'seed {name}', open(os.path.join(sd, name, 'patch.diff')).read(), False))
    return out


def revert_variants(prop):
    out = []
    known = report.load_known()
    root = report.Analysis().repo.root
    for line in known.get('fixed', []):
        m = re.match(r'fixed: property=(C\d+) (\w+) (F\d+)', line)
        if not m:
            continue
        # a fix is relevant to every property whose rule is named in the record
        rules = set(re.findall(r'C\d\d(?=\.\d)', line)) | {m.group(1)}
        if prop not in rules:
            continue
        try:
            diff = subprocess.run(['git', '-C', root, 'show', '--format=', m.group(2), '--', 'xlcalculator'],
                                  capture_output=True, text=True, check=True).stdout
        except Exception:
            continue
        if diff.strip():
            out.append((f'revert of fix {m.group(3)} ({m.group(2)})', diff, True))
    return out


def validate(prop, propmod, analysis):
    """Returns (extra evidence dict, list of error strings)."""
    errors = []
    base_code, base_ctx, base_new, base_hits = _run(propmod, analysis)
    base_known = {h[0].key(prop) for h in base_hits}
    sources = analysis.repo.sources()
    # ---- equivalence corpus -------------------------------------------------------------
    equiv = []
    for name, fn in transforms.ALL:
        try:
            new_sources = fn(dict(sources))
        except transforms.NotApplicable as exc:
            equiv.append({'transform': name, 'result': f'skipped: {exc}'})
            continue
        try:
            an = _overlay_analysis(new_sources)
            code, ctx, new, hits = _run(propmod, an)
        except AnalysisError as exc:
            errors.append(f'equivalence transform "{name}": analysis failed: {exc}')
            continue
        res = 'stable'
        if new and not base_new:
            res = f'FALSE ALARM: {new[0].rule} [{new[0].construct}]'
            errors.append(f'equivalence transform "{name}" changes the verdict: new violation {new[0].rule} [{new[0].construct}] {new[0].why[:120]}')
        elif ctx.errors and not base_ctx.errors:
            res = f'ANALYSIS ERROR: {ctx.errors[0][:100]}'
            errors.append(f'equivalence transform "{name}" makes the analysis give up: {ctx.errors[0][:160]}')
        elif len(hits) != len(base_hits):
            res = f'known findings matched {len(hits)} vs {len(base_hits)}'
            if len(hits) < len(base_hits):
                errors.append(f'equivalence transform "{name}": {len(base_hits) - len(hits)} known finding(s) no longer matched')
        equiv.append({'transform': name, 'result': res, 'instances': len(ctx.instances)})
    # ---- refactoring corpus: independent behaviour-preserving refactorings kept under /verif/refactorings ----------
    rdir = os.path.join(VERIF, 'refactorings')
    if os.path.isdir(rdir):
        for name in sorted(os.listdir(rdir)):
            patch_p = os.path.join(rdir, name, 'patch.diff')
            if not os.path.exists(patch_p):
                continue
            tmp = _scratch_tree()
            try:
                if not _apply_patch(tmp, open(patch_p).read()):
                    equiv.append({'transform': f'refactoring {name}', 'result': 'skipped: does not apply to the current tree'})
                    continue
                an = report.Analysis(root=tmp)
                code, ctx, new, hits = _run(propmod, an)
            except AnalysisError as exc:
                errors.append(f'refactoring {name}: analysis failed: {exc}')
                continue
            finally:
                shutil.rmtree(tmp, ignore_errors=True)
            res = 'stable'
            fresh = [i for i in new if i.key(prop) not in {b.key(prop) for b in base_new}]
            if fresh:
                res = f'FALSE ALARM: {fresh[0].rule} [{fresh[0].construct}]'
                errors.append(f'refactoring {name} (behaviour-preserving) is reported: {fresh[0].rule} [{fresh[0].construct}] {fresh[0].why[:120]}')
            elif ctx.errors and not base_ctx.errors:
                res = f'ANALYSIS ERROR: {ctx.errors[0][:100]}'
                errors.append(f'refactoring {name} (behaviour-preserving) makes the analysis give up: {ctx.errors[0][:160]}')
            elif len(hits) < len(base_hits):
                res = f'known findings matched {len(hits)} vs {len(base_hits)}'
                errors.append(f'refactoring {name}: {len(base_hits) - len(hits)} known finding(s) no longer matched')
            equiv.append({'transform': f'refactoring {name}', 'result': res, 'instances': len(ctx.instances)})
    # ---- sensitivity corpus -------------------------------------------------------------
    kills = []
    variants = seed_variants(prop) + revert_variants(prop)
    for label, diff, reverse in variants:
        tmp = _scratch_tree()
        try:
            if not _apply_patch(tmp, diff, reverse):
                kills.append({'variant': label, 'result': 'skipped: does not apply to the current tree'})
                continue
            an = report.Analysis(root=tmp)
            code, ctx, new, hits = _run(propmod, an)
        except AnalysisError as exc:
            kills.append({'variant': label, 'result': f'analysis error: {exc}'})
            errors.append(f'{label}: analysis failed instead of reporting: {exc}')
            continue
        finally:
            shutil.rmtree(tmp, ignore_errors=True)
        fresh = [i for i in new if i.key(prop) not in {b.key(prop) for b in base_new}]
        if fresh:
            kills.append({'variant': label, 'result': 'reported', 'by': sorted({i.rule for i in fresh}),
                          'construct': fresh[0].construct})
        else:
            kills.append({'variant': label, 'result': 'INSENSITIVE'})
            errors.append(f'{label} is not reported by the rules of {prop}: the check lost sensitivity')
    for label, fn in mutants.for_property(prop):
        try:
            new_sources = fn(dict(sources))
        except mutants.NotApplicable as exc:
            kills.append({'variant': f'mutant {label}', 'result': f'skipped: {exc}'})
            continue
        try:
            an = _overlay_analysis(new_sources)
            code, ctx, new, hits = _run(propmod, an)
        except AnalysisError as exc:
            kills.append({'variant': f'mutant {label}', 'result': f'analysis error: {exc}'})
            errors.append(f'mutant {label}: analysis failed instead of reporting: {exc}')
            continue
        fresh = [i for i in new if i.key(prop) not in {b.key(prop) for b in base_new}]
        if fresh:
            kills.append({'variant': f'mutant {label}', 'result': 'reported', 'by': sorted({i.rule for i in fresh})})
        elif ctx.errors:
            kills.append({'variant': f'mutant {label}', 'result': f'analysis error only: {ctx.errors[0][:80]}'})
            errors.append(f'mutant {label}: only an analysis error, no violation: {ctx.errors[0][:120]}')
        else:
            kills.append({'variant': f'mutant {label}', 'result': 'INSENSITIVE'})
            errors.append(f'mutant {label} is not reported by the rules of {prop}: the check lost sensitivity')
    extra = {
        'selftest': {
            'equivalence_transforms': equiv,
            'sensitivity': kills,
            'reported': sum(1 for k in kills if k['result'] == 'reported'),
            'variants': len(kills),
            'stable_transforms': sum(1 for e in equiv if e['result'] == 'stable'),
            'transforms': len(equiv),
        }
    }
    return extra, errors
