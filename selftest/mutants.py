"""AST-computed mutants of the anchored constructs (sensitivity corpus).

Each mutant is a realistic small break of one property; it is computed on the CURRENT sources (so it follows refactorings)
and raises NotApplicable when its anchor is not found. for_property(prop) -> [(label, fn(sources) -> sources)].
"""
import ast


class NotApplicable(Exception):
    pass


def _edit(sources, suffix, transformer_factory):
    path = next((p for p in sources if p.endswith(suffix)), None)
    if path is None:
        raise NotApplicable(f'{suffix} not found')
    tree = ast.parse(sources[path])
    tr = transformer_factory()
    new = tr.visit(tree)
    if not getattr(tr, 'hits', 0):
        raise NotApplicable(f'anchor not found in {suffix}')
    ast.fix_missing_locations(new)
    sources[path] = ast.unparse(new) + '\n'
    return sources


class _T(ast.NodeTransformer):
    hits = 0


def _in_function(name):
    """Decorator-ish helper: transformer active only inside the function/method called `name`."""
    class Scoped(_T):
        depth = 0

        def visit_FunctionDef(self, n):
            if n.name == name:
                self.depth += 1
                self.generic_visit(n)
                self.depth -= 1
                return self.on_function(n)
            self.generic_visit(n)
            return n

        def on_function(self, n):
            return n
    return Scoped


# ---------------------------------------------------------------- C01 / C02
def m_swap_precedence(a, b):
    def fn(sources):
        class T(_T):
            def visit_Dict(self, n):
                ks = [k.value if isinstance(k, ast.Constant) else None for k in n.keys]
                if a in ks and b in ks and all(isinstance(v, ast.Call) and getattr(v.func, 'id', '') == 'Operator' for v in n.values):
                    ia, ib = ks.index(a), ks.index(b)
                    n.values[ia].args[1], n.values[ib].args[1] = n.values[ib].args[1], n.values[ia].args[1]
                    self.hits += 1
                return n
        return _edit(sources, 'parser.py', T)
    return fn


def m_assoc(op, assoc):
    def fn(sources):
        class T(_T):
            def visit_Dict(self, n):
                for k, v in zip(n.keys, n.values):
                    if isinstance(k, ast.Constant) and k.value == op and isinstance(v, ast.Call) and getattr(v.func, 'id', '') == 'Operator':
                        v.args[2] = ast.Constant(assoc)
                        self.hits += 1
                return n
        return _edit(sources, 'parser.py', T)
    return fn


def m_pop_guard_strict(sources):
    S = _in_function('shunting_yard')

    class T(S):
        def visit_Compare(self, n):
            if self.depth and len(n.ops) == 1 and isinstance(n.ops[0], ast.LtE) and 'precedence' in ast.unparse(n):
                n.ops = [ast.Lt()]
                self.hits += 1
            return n
    return _edit(sources, 'parser.py', T)


def m_swap_left_right_build(sources):
    S = _in_function('build_ast')

    class T(S):
        def visit_Attribute(self, n):
            if self.depth and isinstance(n.ctx, ast.Store) and n.attr in ('left', 'right'):
                n.attr = 'left' if n.attr == 'right' else 'right'
                self.hits += 1
            return n
    return _edit(sources, 'parser.py', T)


def m_infix_map(op, func):
    def fn(sources):
        class T(_T):
            def visit_Assign(self, n):
                if any(isinstance(t, ast.Name) and t.id == 'INFIX_OP_TO_FUNC' for t in n.targets) and isinstance(n.value, ast.Dict):
                    for i, k in enumerate(n.value.keys):
                        if isinstance(k, ast.Constant) and k.value == op:
                            n.value.values[i] = ast.parse(func, mode='eval').body
                            self.hits += 1
                return n
        return _edit(sources, 'ast_nodes.py', T)
    return fn


def m_op_body(fname, new_expr):
    def fn(sources):
        class T(_T):
            def visit_FunctionDef(self, n):
                if n.name == fname and isinstance(n.body[-1], ast.Return):
                    n.body[-1].value = ast.parse(new_expr, mode='eval').body
                    self.hits += 1
                return n
        return _edit(sources, 'operator.py', T)
    return fn


def m_prefix_context_drop(sources):
    """Remove `subexpression stop` from the infix contexts of '-' (then `(a)-b` treats - as prefix)."""
    S = _in_function('getTokens')

    class T(S):
        def visit_If(self, n):
            self.generic_visit(n)
            if self.depth and "tvalue == '-'" in ast.unparse(n.test) and not self.hits:
                # the elif with the big `or` chain
                for sub in ast.walk(n):
                    if isinstance(sub, ast.BoolOp) and isinstance(sub.op, ast.Or) and len(sub.values) == 4:
                        sub.values = [v for v in sub.values if 'TOK_TYPE_SUBEXPR' not in ast.unparse(v)]
                        self.hits += 1
                        break
            return n
    return _edit(sources, 'tokenizer.py', T)


def m_ws_loop_order(sources):
    """Test the character before EOF() again (the repaired F04)."""
    S = _in_function('getTokens')

    class T(S):
        def visit_While(self, n):
            self.generic_visit(n)
            if self.depth and isinstance(n.test, ast.BoolOp) and isinstance(n.test.op, ast.And) and len(n.test.values) == 2 \
                    and 'EOF' in ast.unparse(n.test.values[0]) and 'currentChar' in ast.unparse(n.test.values[1]):
                n.test.values = n.test.values[::-1]
                self.hits += 1
            return n
    return _edit(sources, 'tokenizer.py', T)


def m_error_literal_drop(sources):
    S = _in_function('getTokens')

    class T(S):
        def visit_Constant(self, n):
            if self.depth and isinstance(n.value, str) and '#NUM!' in n.value and '#N/A' in n.value:
                n.value = n.value.replace('#NUM!,', '')
                self.hits += 1
            return n
    return _edit(sources, 'tokenizer.py', T)


def m_string_upper(sources):
    """Upper-case the characters of a string literal while accumulating."""
    S = _in_function('getTokens')

    class T(S):
        def visit_If(self, n):
            if self.depth and isinstance(n.test, ast.Name) and n.test.id.startswith('inString') and not self.hits:
                for sub in ast.walk(n):
                    if isinstance(sub, ast.AugAssign) and isinstance(sub.value, ast.Call) and getattr(sub.value.func, 'id', '').startswith('currentChar'):
                        sub.value = ast.Call(func=ast.Attribute(value=sub.value, attr='upper', ctx=ast.Load()), args=[], keywords=[])
                        self.hits += 1
                        break
            self.generic_visit(n)
            return n
    return _edit(sources, 'tokenizer.py', T)


def m_create_node_text_as_range(sources):
    S = _in_function('create_node')

    class T(S):
        def visit_List(self, n):
            if self.depth and any(isinstance(e, ast.Constant) and e.value == 'pointer' for e in n.elts):
                n.elts.append(ast.Constant('text'))
                self.hits += 1
            return n
    return _edit(sources, 'parser.py', T)


# ---------------------------------------------------------------- C03 .. C06
def m_full_address_unsanitised(sources):
    S = _in_function('full_address')

    class T(S):
        def on_function(self, n):
            last = n.body[-1]
            if isinstance(last, ast.Return) and isinstance(last.value, ast.Call) and last.value.args:
                last.value = last.value.args[0]
                self.hits += 1
            return n
    return _edit(sources, 'ast_nodes.py', T)


def m_pass_context_down(sources):
    S = _in_function('eval_cell')

    class T(S):
        def visit_Call(self, n):
            self.generic_visit(n)
            if self.depth and isinstance(n.func, ast.Attribute) and n.func.attr == 'evaluate' and len(n.args) == 2:
                n.args[1] = ast.Name(id='self', ctx=ast.Load())
                self.hits += 1
            return n
    return _edit(sources, 'evaluator.py', T)


def m_range_cols_reversed(sources):
    S = _in_function('resolve_ranges')

    class T(S):
        def visit_Call(self, n):
            self.generic_visit(n)
            if self.depth and isinstance(n.func, ast.Name) and n.func.id == 'sorted' and not n.keywords and not self.hits \
                    and 'row_cells' in ast.unparse(n):
                n.keywords = [ast.keyword(arg='reverse', value=ast.Constant(True))]
                self.hits += 1
            return n
    return _edit(sources, 'utils.py', T)


def m_need_update_shortcut(sources):
    """Return the stored value when need_update is false."""
    S = _in_function('evaluate')

    class T(S):
        def on_function(self, n):
            for i, s in enumerate(n.body):
                if isinstance(s, ast.Assign) and 'self.model.cells[' in ast.unparse(s.value):
                    new = ast.parse('if not getattr(cell, "need_update", True):\n    return cell.value').body[0]
                    n.body.insert(i + 1, new)
                    self.hits += 1
                    break
            return n
    return _edit(sources, 'evaluator.py', T)


def m_evaluator_cache(sources):
    """A coherent evaluator-level memo of computed values that nothing ever clears."""
    path = next((p for p in sources if p.endswith('evaluator.py')), None)
    edits = [("        self._eval_stack = []\n", "        self._eval_stack = []\n        self._memo = {}\n"),
             ("        cell = self.model.cells[addr]\n", "        cell = self.model.cells[addr]\n        if addr in self._memo:\n            return self._memo[addr]\n"),
             ("        cell.need_update = False\n", "        cell.need_update = False\n        self._memo[addr] = value\n")]
    if path is None or any(old not in sources[path] for old, _ in edits):
        raise NotApplicable('text anchors of the evaluator memo not found')
    for old, new_ in edits:
        sources[path] = sources[path].replace(old, new_, 1)
    ast.parse(sources[path])
    return sources


def m_set_value_on_name_object(sources):
    S = _in_function('set_cell_value')

    class T(S):
        def on_function(self, n):
            if n.args.args and n.args.args[0].arg == 'self' and len(n.args.args) == 3 and 'defined_names' in ast.unparse(n):
                pre = ast.parse('if address in self.defined_names:\n    self.defined_names[address].value = value\n    return').body[0]
                idx = 1 if isinstance(n.body[0], ast.Expr) else 0
                n.body.insert(idx, pre)
                self.hits += 1
            return n
    return _edit(sources, 'model.py', T)


def m_lru_cache_back(sources):
    def fn(src):
        path = next(p for p in src if p.endswith('evaluator.py'))
        tree = ast.parse(src[path])
        hit = False
        for n in ast.walk(tree):
            if isinstance(n, ast.FunctionDef) and n.name == 'eval_cell':
                n.decorator_list.append(ast.parse('functools.lru_cache(maxsize=None)', mode='eval').body)
                hit = True
        if not hit:
            raise NotApplicable('eval_cell')
        tree.body.insert(0, ast.parse('import functools').body[0])
        src[path] = ast.unparse(tree) + '\n'
        return src
    return fn(sources)


def m_namespace_shared(sources):
    S = _in_function('__init__')

    class T(S):
        def visit_Call(self, n):
            self.generic_visit(n)
            if self.depth and isinstance(n.func, ast.Attribute) and n.func.attr == 'copy' and 'FUNCTIONS' in ast.unparse(n.func.value):
                self.hits += 1
                return n.func.value
            return n
    return _edit(sources, 'evaluator.py', T)


def m_finally_to_else(sources):
    S = _in_function('evaluate')

    class T(S):
        def visit_Try(self, n):
            self.generic_visit(n)
            if self.depth and n.finalbody and 'pop' in ast.unparse(n.finalbody[0]):
                n.orelse = n.finalbody
                n.finalbody = []
                self.hits += 1
            return n
    return _edit(sources, 'evaluator.py', T)


def m_stack_per_call(sources):
    """Re-create the evaluation stack in every evaluate() call."""
    S = _in_function('evaluate')

    class T(S):
        def on_function(self, n):
            n.body.insert(0, ast.parse('self._eval_stack = []').body[0])
            self.hits += 1
            return n
    return _edit(sources, 'evaluator.py', T)


def m_repr_rewrap(sources):
    S = _in_function('evaluate')

    class T(S):
        def visit_JoinedStr(self, n):
            if self.depth:
                for v in n.values:
                    if isinstance(v, ast.FormattedValue) and isinstance(v.value, ast.Name) and v.value.id == 'err':
                        v.conversion = ord('r')
                        self.hits += 1
            return n
    return _edit(sources, 'evaluator.py', T)


# ---------------------------------------------------------------- C07 .. C10
def m_drop_validate(fname, suffix):
    def fn(sources):
        class T(_T):
            def visit_FunctionDef(self, n):
                if n.name == fname:
                    before = len(n.decorator_list)
                    n.decorator_list = [d for d in n.decorator_list if 'validate_args' not in ast.unparse(d)]
                    if len(n.decorator_list) != before:
                        self.hits += 1
                return n
        return _edit(sources, suffix, T)
    return fn


def m_swap_decorators(fname, suffix):
    def fn(sources):
        class T(_T):
            def visit_FunctionDef(self, n):
                if n.name == fname and len(n.decorator_list) == 2:
                    n.decorator_list = n.decorator_list[::-1]
                    self.hits += 1
                return n
        return _edit(sources, suffix, T)
    return fn


def m_validate_returns_last_error(sources):
    """Collect errors and return the last one instead of the first."""
    S = _in_function('validate')

    class T(S):
        def visit_For(self, n):
            if self.depth and isinstance(n.body[0], ast.If) and 'isinstance' in ast.unparse(n.body[0].test):
                n.iter = ast.Call(func=ast.Name(id='reversed', ctx=ast.Load()), args=[n.iter], keywords=[])
                self.hits += 1
            return n
    return _edit(sources, 'xl.py', T)


def m_iserr_includes_na(sources):
    S = _in_function('ISERR')

    class T(S):
        def visit_BoolOp(self, n):
            if self.depth and isinstance(n.op, ast.And) and len(n.values) == 2:
                self.hits += 1
                return n.values[0]
            return n
    return _edit(sources, 'information.py', T)


def m_annotation_to_class(fname, suffix, pname):
    def fn(sources):
        class T(_T):
            def visit_FunctionDef(self, n):
                if n.name == fname:
                    for a in n.args.args:
                        if a.arg == pname and a.annotation is not None and 'XlNumber' in ast.unparse(a.annotation):
                            a.annotation = ast.parse(ast.unparse(a.annotation).replace('XlNumber', 'Number'), mode='eval').body
                            self.hits += 1
                return n
        return _edit(sources, suffix, T)
    return fn


def m_cast_table_swap(sources):
    class T(_T):
        def visit_Assign(self, n):
            if any(isinstance(t, ast.Name) and t.id == 'TYPE_TO_CAST' for t in n.targets) and isinstance(n.value, ast.Dict):
                for i, k in enumerate(n.value.keys):
                    if ast.unparse(k).endswith('XlBoolean'):
                        n.value.values[i] = ast.parse('func_xltypes.Number.cast', mode='eval').body
                        self.hits += 1
            return n
    return _edit(sources, 'xl.py', T)


def m_no_upper(sources):
    S = _in_function('eval')

    class T(S):
        def visit_Call(self, n):
            self.generic_visit(n)
            if self.depth and isinstance(n.func, ast.Attribute) and n.func.attr == 'upper' and 'tvalue' in ast.unparse(n.func.value):
                self.hits += 1
                return n.func.value
            return n
    return _edit(sources, 'ast_nodes.py', T)


def m_drop_engineering_import(sources):
    path = next((p for p in sources if p.endswith('xlcalculator/__init__.py')), None)
    if path is None or 'engineering' not in sources[path]:
        raise NotApplicable('engineering import')
    tree = ast.parse(sources[path])
    for n in ast.walk(tree):
        if isinstance(n, ast.ImportFrom):
            n.names = [a for a in n.names if a.name != 'engineering']
    sources[path] = ast.unparse(tree) + '\n'
    return sources


def m_drop_wraps(sources):
    S = _in_function('validate')

    class T(S):
        def on_function(self, n):
            before = len(n.decorator_list)
            n.decorator_list = [d for d in n.decorator_list if 'wraps' not in ast.unparse(d)]
            if len(n.decorator_list) != before:
                self.hits += 1
            return n
    return _edit(sources, 'xl.py', T)


def m_sort_precedence(cls, value):
    def fn(sources):
        class T(_T):
            def visit_ClassDef(self, n):
                if n.name == cls:
                    for s in n.body:
                        if isinstance(s, ast.Assign) and getattr(s.targets[0], 'id', '') == 'sort_precedence':
                            s.value = ast.Constant(value)
                            self.hits += 1
                self.generic_visit(n)
                return n
        return _edit(sources, 'func_xltypes.py', T)
    return fn


def m_cmp_dunder(name, op):
    def fn(sources):
        class T(_T):
            def visit_ClassDef(self, n):
                if n.name == 'ExcelType':
                    for s in n.body:
                        if isinstance(s, ast.FunctionDef) and s.name == name:
                            for c in ast.walk(s):
                                if isinstance(c, ast.Compare):
                                    c.ops = [op()]
                                    self.hits += 1
                return n
        return _edit(sources, 'func_xltypes.py', T)
    return fn


def m_blank_base_case_removed(sources):
    class T(_T):
        def visit_ClassDef(self, n):
            if n.name == 'Blank':
                for s in n.body:
                    if isinstance(s, ast.FunctionDef) and s.name == '_sort_key':
                        before = len(s.body)
                        s.body = [b for b in s.body if not isinstance(b, ast.If)]
                        if len(s.body) != before:
                            self.hits += 1
            return n
    return _edit(sources, 'func_xltypes.py', T)


def m_if_eager(sources):
    """IF evaluates both branches before choosing."""
    class T(_T):
        def visit_FunctionDef(self, n):
            if n.name == 'IF':
                n.body[-1] = ast.parse('t, f = value_if_true(), value_if_false()\n').body[0]
                n.body.append(ast.parse('return t if logical_test() else f').body[0])
                self.hits += 1
            return n
    return _edit(sources, 'logical.py', T)


def m_if_swapped(sources):
    class T(_T):
        def visit_FunctionDef(self, n):
            if n.name == 'IF' and isinstance(n.body[-1], ast.Return) and isinstance(n.body[-1].value, ast.IfExp):
                e = n.body[-1].value
                e.body, e.orelse = e.orelse, e.body
                self.hits += 1
            return n
    return _edit(sources, 'logical.py', T)


def m_and_precompute(sources):
    class T(_T):
        def visit_FunctionDef(self, n):
            if n.name == 'AND':
                for i, s in enumerate(n.body):
                    if isinstance(s, ast.For):
                        pre = ast.parse('vals = [logical() for logical in logicals]').body[0]
                        s.iter = ast.Name(id='vals', ctx=ast.Load())
                        for sub in ast.walk(s):
                            if isinstance(sub, ast.Assign) and isinstance(sub.value, ast.Call) and getattr(sub.value.func, 'id', '') == 'logical':
                                sub.value = ast.Name(id='logical', ctx=ast.Load())
                        n.body.insert(i, pre)
                        self.hits += 1
                        break
            return n
    return _edit(sources, 'logical.py', T)


def m_if_default_plain(sources):
    class T(_T):
        def visit_FunctionDef(self, n):
            if n.name == 'IF' and n.args.defaults:
                n.args.defaults = [ast.Constant(True), ast.Constant(False)][:len(n.args.defaults)]
                self.hits += 1
            return n
    return _edit(sources, 'logical.py', T)


def m_force_thunk(sources):
    S = _in_function('eval')

    class T(S):
        def visit_Call(self, n):
            self.generic_visit(n)
            if self.depth and 'Expr' in ast.unparse(n.func) and n.args and isinstance(n.args[0], ast.Attribute) and n.args[0].attr == 'eval' \
                    and not self.hits:
                # Expr(pvalue.eval, (context,)) -> ValueExpr(pvalue.eval(context))
                self.hits += 1
                return ast.parse(f'func_xltypes.ValueExpr({ast.unparse(n.args[0])}(context))', mode='eval').body
            return n
    return _edit(sources, 'ast_nodes.py', T)


# ---------------------------------------------------------------- C11 .. C13
def m_ignore_guard_removed(sources):
    S = _in_function('read_cells')

    class T(S):
        def visit_For(self, n):
            self.generic_visit(n)
            if self.depth:
                before = len(n.body)
                n.body = [s for s in n.body if not (isinstance(s, ast.If) and 'ignore_sheets' in ast.unparse(s.test))]
                if len(n.body) != before:
                    self.hits += 1
            return n
    return _edit(sources, 'reader.py', T)


def m_value_not_cvalue(sources):
    S = _in_function('read_cells')

    class T(S):
        def visit_Attribute(self, n):
            if self.depth and n.attr == 'cvalue':
                n.attr = 'value'
                self.hits += 1
            return n
    return _edit(sources, 'reader.py', T)


def m_persist_drop_key(sources):
    S = _in_function('persist_to_json_file')

    class T(S):
        def visit_Dict(self, n):
            if self.depth and len(n.keys) == 4:
                n.keys, n.values = n.keys[:3], n.values[:3]
                self.hits += 1
            return n
    return _edit(sources, 'model.py', T)


def m_restore_swapped(sources):
    S = _in_function('construct_from_json_file')

    class T(S):
        def visit_Constant(self, n):
            if self.depth and n.value == 'ranges':
                n.value = 'formulae'
                self.hits += 1
            elif self.depth and n.value == 'formulae':
                n.value = 'ranges'
                self.hits += 1
            return n
    return _edit(sources, 'model.py', T)


def m_keys_option(sources):
    S = _in_function('construct_from_json_file')

    class T(S):
        def visit_keyword(self, n):
            if self.depth and n.arg == 'keys':
                n.value = ast.Constant(False)
                self.hits += 1
            return n
    return _edit(sources, 'model.py', T)


def m_getnewargs_removed(sources):
    class T(_T):
        def visit_ClassDef(self, n):
            before = len(n.body)
            n.body = [s for s in n.body if not (isinstance(s, ast.FunctionDef) and s.name == '__getnewargs__')]
            if len(n.body) != before:
                self.hits += 1
            return n
    return _edit(sources, 'func_xltypes.py', T)


def m_deepcopy_removed(sources):
    S = _in_function('extract')

    class T(S):
        def visit_Call(self, n):
            self.generic_visit(n)
            if self.depth and ast.unparse(n.func) == 'copy.deepcopy' and not self.hits:
                self.hits += 1
                return n.args[0]
            return n
    return _edit(sources, 'model.py', T)


def m_extract_mutates_original(sources):
    S = _in_function('extract')

    class T(S):
        def on_function(self, n):
            n.body.insert(1, ast.parse('model.ranges.update({"extracted": True})').body[0])
            self.hits += 1
            return n
    return _edit(sources, 'model.py', T)


# ---------------------------------------------------------------- C14 .. C20
def m_remove_number_filter(fname):
    def fn(sources):
        class T(_T):
            def visit_FunctionDef(self, n):
                if n.name == fname:
                    class U(ast.NodeTransformer):
                        hit = 0

                        def visit_Call(s, c):
                            s.generic_visit(c)
                            if isinstance(c.func, ast.Name) and c.func.id == 'filter' and 'is_type' in ast.unparse(c.args[0]):
                                s.hit += 1
                                return c.args[1]
                            return c
                    u = U()
                    u.visit(n)
                    self.hits += u.hit
                return n
        return _edit(sources, 'statistics.py', T)
    return fn


def m_shape_to_size(sources):
    S = _in_function('SUMPRODUCT')

    class T(S):
        def visit_Attribute(self, n):
            if self.depth and n.attr == 'shape':
                n.attr = 'size'
                self.hits += 1
            return n
    return _edit(sources, 'math.py', T)


def m_count_predicate(sources):
    S = _in_function('COUNT')

    class T(S):
        def visit_Attribute(self, n):
            if self.depth and n.attr == 'is_type':
                n.value = ast.parse('func_xltypes.Text', mode='eval').body
                self.hits += 1
            return n
    return _edit(sources, 'statistics.py', T)


def m_vlookup_fixed_column(sources):
    S = _in_function('VLOOKUP')

    class T(S):
        def visit_Subscript(self, n):
            self.generic_visit(n)
            if self.depth and 'col_index_num' in ast.unparse(n.slice) and isinstance(n.ctx, ast.Load):
                n.slice = ast.Constant(0)
                self.hits += 1
            return n

        def visit_If(self, n):
            self.generic_visit(n)
            if self.depth and 'col_index_num == 1' in ast.unparse(n.test):
                self.hits += 1
                return None
            return n
    return _edit(sources, 'lookup.py', T)


def m_criteria_swap(sources):
    class T(_T):
        def visit_Assign(self, n):
            if any(getattr(t, 'id', '') == 'CRITERIA_OPERATORS' for t in n.targets) and isinstance(n.value, ast.Dict):
                ks = [k.value for k in n.value.keys]
                i, j = ks.index('<'), ks.index('<=')
                n.value.values[i], n.value.values[j] = n.value.values[j], n.value.values[i]
                self.hits += 1
            return n
    return _edit(sources, 'xlcriteria.py', T)


def m_choose_bound(sources):
    S = _in_function('CHOOSE')

    class T(S):
        def visit_Compare(self, n):
            if self.depth and isinstance(n.ops[0], ast.LtE) and not self.hits:
                n.ops = [ast.Lt()]
                self.hits += 1
            return n
    return _edit(sources, 'lookup.py', T)


def m_match_offset(sources):
    S = _in_function('MATCH')

    class T(S):
        def visit_Return(self, n):
            if self.depth and n.value is not None and ast.unparse(n.value) == 'i + 1':
                n.value = ast.Name(id='i', ctx=ast.Load())
                self.hits += 1
            return n
    return _edit(sources, 'lookup.py', T)


def m_guard_cmp(fname, suffix, old, new):
    def fn(sources):
        S = _in_function(fname)

        class T(S):
            def visit_Compare(self, n):
                if self.depth and len(n.ops) == 1 and isinstance(n.ops[0], old) and not self.hits:
                    n.ops = [new()]
                    self.hits += 1
                return n
        return _edit(sources, suffix, T)
    return fn


def m_rounding_mode(fname, old, new):
    def fn(sources):
        S = _in_function(fname)

        class T(S):
            def visit_Attribute(self, n):
                if self.depth and n.attr == old and not self.hits:
                    n.attr = new
                    self.hits += 1
                return n
        return _edit(sources, 'math.py', T)
    return fn


def m_round_float(sources):
    S = _in_function('_round')

    class T(S):
        def visit_Call(self, n):
            self.generic_visit(n)
            if self.depth and ast.unparse(n.func) == 'decimal.Decimal' and isinstance(n.args[0], ast.Call) and getattr(n.args[0].func, 'id', '') == 'str':
                n.args[0] = ast.Call(func=ast.Name(id='float', ctx=ast.Load()), args=n.args[0].args, keywords=[])
                self.hits += 1
            return n
    return _edit(sources, 'math.py', T)


def m_atan2_swap(sources):
    S = _in_function('ATAN2')

    class T(S):
        def visit_Call(self, n):
            self.generic_visit(n)
            if self.depth and 'arctan2' in ast.unparse(n.func):
                n.args = n.args[::-1]
                self.hits += 1
            return n
    return _edit(sources, 'math.py', T)


def m_left_offset(sources):
    S = _in_function('LEFT')

    class T(S):
        def visit_Slice(self, n):
            if self.depth and n.upper is not None:
                n.upper = ast.BinOp(left=n.upper, op=ast.Add(), right=ast.Constant(1))
                self.hits += 1
            return n
    return _edit(sources, 'text.py', T)


def m_mid_offset(sources):
    S = _in_function('MID')

    class T(S):
        def visit_Assign(self, n):
            if self.depth and ast.unparse(n.value) == 'start_num - 1':
                n.value = ast.Name(id='start_num', ctx=ast.Load())
                self.hits += 1
            return n
    return _edit(sources, 'text.py', T)


def m_mid_guard(sources):
    return m_guard_cmp('MID', 'text.py', ast.Lt, ast.LtE)(sources)


def m_upper_lower(sources):
    S = _in_function('UPPER')

    class T(S):
        def visit_Attribute(self, n):
            if self.depth and n.attr == 'upper':
                n.attr = 'title'
                self.hits += 1
            return n
    return _edit(sources, 'text.py', T)


def m_leap_threshold(sources):
    S = _in_function('number_to_datetime')

    class T(S):
        def visit_Constant(self, n):
            if self.depth and n.value == 59:
                n.value = 61
                self.hits += 1
            return n
    return _edit(sources, 'xlfunctions/utils.py', T)


def m_leap_threshold_inverse(sources):
    S = _in_function('datetime_to_number')

    class T(S):
        def visit_Constant(self, n):
            if self.depth and n.value == 58:
                n.value = 59
                self.hits += 1
            return n
    return _edit(sources, 'xlfunctions/utils.py', T)


def m_weekday_tuple(sources):
    S = _in_function('WEEKDAY')

    class T(S):
        def visit_Tuple(self, n):
            vals = [e.value for e in n.elts if isinstance(e, ast.Constant)]
            if self.depth and vals == [7, 1, 2, 3, 4, 5, 6]:
                n.elts = [ast.Constant(v) for v in (6, 7, 1, 2, 3, 4, 5)]
                self.hits += 1
            return n
    return _edit(sources, 'date.py', T)


def m_epoch_guard(sources):
    return m_guard_cmp('EDATE', 'date.py', ast.Lt, ast.LtE)(sources)


def m_no_int_truncation(sources):
    S = _in_function('MONTH')

    class T(S):
        def visit_Call(self, n):
            self.generic_visit(n)
            if self.depth and getattr(n.func, 'id', '') == 'int' and 'serial_number' in ast.unparse(n):
                self.hits += 1
                return n.args[0]
            return n
    return _edit(sources, 'date.py', T)


def m_yearfrac_basis(sources):
    S = _in_function('YEARFRAC')

    class T(S):
        def visit_Constant(self, n):
            if self.depth and n.value == 360:
                n.value = 365
                self.hits += 1
            return n
    return _edit(sources, 'date.py', T)


def m_bounds_entry(sources):
    class T(_T):
        def visit_BinOp(self, n):
            if isinstance(n.op, ast.Pow) and isinstance(n.right, ast.Constant) and n.right.value == 29 and not self.hits:
                n.right = ast.Constant(30)
                self.hits += 1
            return n
    return _edit(sources, 'engineering.py', T)


def m_wrapper_swapped(sources):
    S = _in_function('OCT2HEX')

    class T(S):
        def visit_Call(self, n):
            if self.depth and 'convert_bases' in ast.unparse(n.func):
                n.args[1], n.args[2] = n.args[2], n.args[1]
                self.hits += 1
            return n
    return _edit(sources, 'engineering.py', T)


def m_window_closed(sources):
    S = _in_function('conversion')

    class T(S):
        def visit_Compare(self, n):
            if self.depth and len(n.ops) == 2 and isinstance(n.ops[1], ast.Lt):
                n.ops[1] = ast.LtE()
                self.hits += 1
            return n
    return _edit(sources, 'engineering.py', T)


def m_places_range(sources):
    S = _in_function('handle_places')

    class T(S):
        def visit_Constant(self, n):
            if self.depth and n.value == 10 and not isinstance(n.value, bool):
                n.value = 11
                self.hits += 1
            return n
    return _edit(sources, 'engineering.py', T)


def m_mask_destination(sources):
    S = _in_function('conversion')

    class T(S):
        def visit_Assign(self, n):
            if self.depth and isinstance(n.value, ast.BinOp) and isinstance(n.value.op, ast.LShift) and 'origin' in ast.unparse(n.value):
                n.value = ast.parse(ast.unparse(n.value).replace('origin', 'destination'), mode='eval').body
                self.hits += 1
            return n
    return _edit(sources, 'engineering.py', T)


def m_pv_swap(sources):
    S = _in_function('PV')

    class T(S):
        def visit_Call(self, n):
            self.generic_visit(n)
            if self.depth and ast.unparse(n.func) == 'npf.pv' and len(n.args) >= 3:
                n.args[1], n.args[2] = n.args[2], n.args[1]
                self.hits += 1
            return n
    return _edit(sources, 'financial.py', T)


def m_npv_exponent(sources):
    S = _in_function('NPV')

    class T(S):
        def visit_BinOp(self, n):
            self.generic_visit(n)
            if self.depth and ast.unparse(n) == 'i + 1':
                self.hits += 1
                return n.left
            return n
    return _edit(sources, 'financial.py', T)


def m_xnpv_360(sources):
    S = _in_function('_xnpv')

    class T(S):
        def visit_Constant(self, n):
            if self.depth and n.value == 365:
                n.value = 360
                self.hits += 1
            return n
    return _edit(sources, 'financial.py', T)


def m_pv_shortcut(sources):
    S = _in_function('PV')

    class T(S):
        def on_function(self, n):
            idx = 1 if isinstance(n.body[0], ast.Expr) else 0
            n.body.insert(idx, ast.parse('if rate == 0:\n    return -float(pmt) * float(nper)').body[0])
            self.hits += 1
            return n
    return _edit(sources, 'financial.py', T)


def m_sln_native_default(sources):
    """SLN gets a native default `life=1` on the right of a division whose left may be native."""
    S = _in_function('SLN')

    class T(S):
        def on_function(self, n):
            n.body[-1] = ast.parse('return 1 / life * (cost - salvage)').body[0]
            self.hits += 1
            return n
    return _edit(sources, 'financial.py', T)


CORPUS = {
    'C01': [
        ('swap precedence of ^ and *', m_swap_precedence('^', '*')),
        ('swap precedence of + and &', m_swap_precedence('+', '&')),
        ('^ right-associative', m_assoc('^', 'right')),
        ('unary minus left-associative', m_assoc('u-', 'left')),
        ('pop guard <= -> <', m_pop_guard_strict),
        ('swap .left/.right in build_ast', m_swap_left_right_build),
        ('">" mapped to OP_GE', m_infix_map('>', 'operator.OP_GE')),
        ('OP_SUB computes right - left', m_op_body('OP_SUB', 'right - left')),
        ('OP_GE computes left > right', m_op_body('OP_GE', 'left > right')),
        ('"-" after ")" becomes prefix', m_prefix_context_drop),
    ],
    'C02': [
        ('whitespace loop reads before EOF()', m_ws_loop_order),
        ('#NUM! missing from the tokenizer error list', m_error_literal_drop),
        ('string literal characters upper-cased', m_string_upper),
        ('text operands become RangeNodes', m_create_node_text_as_range),
        ('"-" after ")" becomes prefix', m_prefix_context_drop),
        ('^ right-associative', m_assoc('^', 'right')),
    ],
    'C03': [
        ('full_address returns the raw text', m_full_address_unsanitised),
        ('nested evaluate receives the caller context', m_pass_context_down),
        ('columns of a range in descending order', m_range_cols_reversed),
    ],
    'C04': [
        ('need_update shortcut', m_need_update_shortcut),
        ('evaluator-level result memo', m_evaluator_cache),
        ('set_cell_value writes the name object', m_set_value_on_name_object),
        ('finally -> else around the stack pop', m_finally_to_else),
    ],
    'C05': [
        ('lru_cache(maxsize=None) on eval_cell', m_lru_cache_back),
        ('evaluator shares the global function table', m_namespace_shared),
        ('evaluator-level result memo', m_evaluator_cache),
    ],
    'C06': [
        ('finally -> else around the stack pop', m_finally_to_else),
        ('evaluation stack re-created per call', m_stack_per_call),
        ('repr of the wrapped exception', m_repr_rewrap),
    ],
    'C07': [
        ('SUM without validate_args', m_drop_validate('SUM', 'math.py')),
        ('LEN without validate_args', m_drop_validate('LEN', 'text.py')),
        ('OP_ADD: validate_args outside register', m_swap_decorators('OP_ADD', 'operator.py')),
        ('validate_args visits arguments in reverse', m_validate_returns_last_error),
        ('ISERR true for #N/A', m_iserr_includes_na),
    ],
    'C08': [
        ('ABS(number: Number)', m_annotation_to_class('ABS', 'math.py', 'number')),
        ('DAY(serial_number: Number)', m_annotation_to_class('DAY', 'date.py', 'serial_number')),
        ('XlBoolean cast with Number.cast', m_cast_table_swap),
        ('function name not upper-cased', m_no_upper),
        ('engineering module not imported', m_drop_engineering_import),
        ('functools.wraps dropped', m_drop_wraps),
    ],
    'C09': [
        ('Text precedence above Boolean', m_sort_precedence('Text', 3)),
        ('Boolean precedence 0', m_sort_precedence('Boolean', 0)),
        ('__le__ uses <', m_cmp_dunder('__le__', ast.Lt)),
        ('Blank vs Blank base case removed', m_blank_base_case_removed),
        ('OP_GE computes left > right', m_op_body('OP_GE', 'left > right')),
    ],
    'C10': [
        ('IF evaluates both branches', m_if_eager),
        ('IF branches swapped', m_if_swapped),
        ('AND pre-computes all arguments', m_and_precompute),
        ('IF defaults plain booleans', m_if_default_plain),
        ('thunk parameter evaluated eagerly', m_force_thunk),
    ],
    'C11': [
        ('ignore guard removed from read_cells', m_ignore_guard_removed),
        ('formula cell stores the formula text as value', m_value_not_cvalue),
    ],
    'C12': [
        ('persist drops the ranges key', m_persist_drop_key),
        ('ranges/formulae restored crosswise', m_restore_swapped),
        ('decode with keys=False', m_keys_option),
        ('__getnewargs__ removed', m_getnewargs_removed),
    ],
    'C13': [
        ('a deepcopy removed from extract', m_deepcopy_removed),
        ('extract mutates the original', m_extract_mutates_original),
        ('set_cell_value writes the name object', m_set_value_on_name_object),
    ],
    'C14': [
        ('AVERAGE without the number filter', m_remove_number_filter('AVERAGE')),
        ('MAX without the number filter', m_remove_number_filter('MAX')),
        ('SUMPRODUCT compares sizes', m_shape_to_size),
        ('COUNT counts texts', m_count_predicate),
    ],
    'C15': [
        ('VLOOKUP ignores the column index', m_vlookup_fixed_column),
        ('criteria < and <= swapped', m_criteria_swap),
        ('CHOOSE accepts index 0', m_choose_bound),
        ('MATCH returns the 0-based position', m_match_offset),
    ],
    'C16': [
        ('SQRT guard < -> <=', m_guard_cmp('SQRT', 'math.py', ast.Lt, ast.LtE)),
        ('ACOSH guard < -> <=', m_guard_cmp('ACOSH', 'math.py', ast.Lt, ast.LtE)),
        ('ROUNDUP uses ROUND_DOWN', m_rounding_mode('ROUNDUP', 'ROUND_UP', 'ROUND_DOWN')),
        ('INT rounds negatives toward zero', m_rounding_mode('INT', 'ROUND_UP', 'ROUND_DOWN')),
        ('_round through Decimal(float(x))', m_round_float),
        ('ATAN2 arguments swapped', m_atan2_swap),
    ],
    'C17': [
        ('LEFT takes n+1 characters', m_left_offset),
        ('MID starts one character late', m_mid_offset),
        ('MID rejects start 1', m_mid_guard),
        ('UPPER uses title()', m_upper_lower),
    ],
    'C18': [
        ('leap threshold 61 in number_to_datetime', m_leap_threshold),
        ('leap threshold 59 in datetime_to_number', m_leap_threshold_inverse),
        ('WEEKDAY type 12 tuple rotated', m_weekday_tuple),
        ('EDATE rejects the epoch', m_epoch_guard),
        ('MONTH does not truncate the serial', m_no_int_truncation),
        ('YEARFRAC basis 2 divides by 365', m_yearfrac_basis),
    ],
    'C19': [
        ('octal bound 2^30', m_bounds_entry),
        ('OCT2HEX origin/destination swapped', m_wrapper_swapped),
        ('window closed at the upper bound', m_window_closed),
        ('places up to 11', m_places_range),
        ('sign mask from the destination width', m_mask_destination),
        ('engineering module not imported', m_drop_engineering_import),
    ],
    'C20': [
        ('PV: nper and pmt swapped', m_pv_swap),
        ('NPV exponent i instead of i+1', m_npv_exponent),
        ('XNPV divides by 360', m_xnpv_360),
        ('PV rate=0 shortcut forgets fv', m_pv_shortcut),
        ('SLN with a native left operand', m_sln_native_default),
    ],
}


def m_replace(suffix, old, new, count=1):
    """Exact source-text replacement (tied to the present spelling: skipped, and recorded as skipped, when it is gone)."""
    def fn(sources):
        path = next((p for p in sources if p.endswith(suffix)), None)
        if path is None or old not in sources[path]:
            raise NotApplicable(f'text anchor not found in {suffix}')
        sources[path] = sources[path].replace(old, new, count)
        ast.parse(sources[path])
        return sources
    return fn


EXTRA = {
    'C01': [
        ('scientific-notation guard accepts no digit at all', m_replace('tokenizer.py', "regexSN = r'^[1-9]{1}(\\.[0-9]+)?[eE]{1}$'", "regexSN = r'^[2-9]{1}(\\.[0-9]+)?[eE]{1}$'")),
    ],
    'C02': [
        ('XLFormula no longer tokenises its text', m_replace('xltypes.py', 'self.tokens = tokenizer.ExcelParser().getTokens(self.formula).items', 'self.tokens = []')),
        ('leading blanks are not removed by the tokenizer', m_replace('tokenizer.py', 'if (formula[0] in (" ", "\\n")):', 'if (formula[0] in ("\\n",)):')),
    ],
    'C03': [
        ('zero-valued cells skipped while a range is materialised',
         m_replace('ast_nodes.py', "                    cell = context.eval_cell(col_addr)\n", "                    cell = context.eval_cell(col_addr)\n                    if cell.value == 0:\n                        continue\n")),
        ('build_code maps names to the definition objects', m_replace('model.py', 'name: defn.address', 'name: defn')),
        ('a missing cell evaluates to 0', m_replace('evaluator.py', "            return func_xltypes.BLANK\n        cell = self.model.cells[addr]", "            return func_xltypes.Number(0)\n        cell = self.model.cells[addr]")),
        ('resolve_address keeps the quotes of the sheet name', m_replace('utils.py', "    sheet = resolve_sheet(sheet_str)\n    coord_match", "    sheet = sheet_str\n    coord_match")),
    ],
    'C05': [
        ('evaluation rewrites the formula text', m_replace('evaluator.py', "        cell.value = value\n        cell.need_update = False", "        cell.value = value\n        cell.formula.formula = str(value)\n        cell.need_update = False")),
        ('ABS consults id()', m_replace('math.py', "    return abs(number)\n", "    return abs(number) if id(number) % 2 == 0 else abs(number)\n")),
    ],
    'C08': [
        ('Boolean has no number conversion', m_replace('func_xltypes.py', "    def __number__(self):\n        return int(self.value)\n", "    def __number__(self):\n        raise NotImplementedError\n")),
    ],
    'C11': [
        ('ranges built before the defined names are linked', m_replace('model.py', "        self.build_defined_names()\n        self.link_cells_to_defined_names()\n        self.build_ranges()", "        self.build_ranges()\n        self.link_cells_to_defined_names()\n        self.build_defined_names()")),
    ],
    'C12': [
        ('restoring never recompiles', m_replace('model.py', "        if build_code:\n            self.build_code()\n\n    def build_code", "        if build_code:\n            pass\n\n    def build_code")),
    ],
    'C13': [
        ('extracted model is not compiled', m_replace('model.py', "        extracted_model.build_code()\n\n        return extracted_model", "        return extracted_model")),
    ],
    'C14': [
        ('flatten converts items and swallows what fails', m_replace('xl.py', "        else:\n            flat.append(value)\n    return flat", "        else:\n            try:\n                flat.append(func_xltypes.Number.cast(value))\n            except xlerrors.ExcelError:\n                pass\n    return flat")),
        ('AVERAGE without the empty guard', m_replace('statistics.py', "    if len(numbers) < 1:\n        return 0\n\n    return sum(numbers) / len(numbers)", "    return sum(numbers) / len(numbers)")),
    ],
    'C15': [
        ('COUNTIF skips falsy cells', m_replace('statistics.py', "return sum([check(val) for val in countRange])", "return sum([check(val) for val in countRange if val])")),
    ],
    'C16': [
        ('_round sets the process-wide decimal context', m_replace('math.py', "    with decimal.localcontext() as dc:\n        dc.rounding = _rounding\n        ans = round(number, int(num_digits))", "    dc = decimal.getcontext()\n    dc.rounding = _rounding\n    ans = round(number, int(num_digits))")),
    ],
    'C20': [
        ('XNPV without the length guard', m_replace('financial.py', "    if len(values) != len(dates):\n        raise xlerrors.NumExcelError(\n            f'`values` range must be the same length as `dates` range '\n            f'in XNPV, {len(values)} != {len(dates)}')\n\n    return _xnpv(rate, values, dates)", "    return _xnpv(rate, values, dates)")),
    ],
}
for _k, _v in EXTRA.items():
    CORPUS.setdefault(_k, []).extend(_v)


def for_property(prop):
    return CORPUS.get(prop, [])
