"""C19 - base-conversion functions are exact two's-complement conversions (structural part)."""
import ast
import math as _math

from xlsa import Unmodelled, AnchorMissing
from xlsa.consteval import Ref, Obj, Unfoldable
from xlsa.guards import Interp, Rec, PyModel, Opaque
from xlsa.load import walk_local, names_in, dotted
from xlsa import flow
from .common import func_params, value_returns, last_return, XLERR, XLT, raise_class, is_excel_error_ref
from . import c08

PROPERTY = 'C19'
EXPLANATION = (
    'Decided from source by interpreting the twelve conversion functions as the evaluator calls them (registered '
    'wrapper, value classes, engineering helpers as written) against an independent reference implementation of the '
    "ten-digit two's-complement conversions: (C19.1) window boundaries (-bound-1, -bound, -bound+1, bound-1, bound, "
    'bound+1) of every pair of bases; (C19.2) small non-negative values through every function; (C19.3) places '
    '(exact fit, wider, 10, too small, 0, 11, negative, boolean; with a negative number) and invalid inputs '
    '(foreign digit, fraction, sign, blank, underscore, "false"/"FALSE", 11 digits, empty text, boolean number): '
    "#NUM! / #VALUE! exactly where the reference says; (C19.4) small negative values: two's complement in the width "
    'of the destination, sign read in the width of the origin; (C19.5) the module is imported by the package '
    '(shares C08.6).'
    ' The guard rows include the widest non-negative results (nine binary, ten octal / hexadecimal digits) with places below, at and above their length.'
    ' (C19.3/.4) also odd invalid digit strings (newline, blank, tab, full-width digits, prefixes), letter case of hex digits incl. the sign digit, zero-padded strings beyond ten characters.')
NOT_DECIDED = 'exact digits for each integer (that is a run, even for the 1024-value binary window)'
TRUSTED = ['bin/oct/hex formatter prefixes of two characters']

BASES = {'bin': 2, 'oct': 8, 'hex': 16}


def _em(ctx):
    return ctx.mod('xlfunctions.engineering')


def _tables(ctx):
    em = _em(ctx)
    out = {}
    for name in ('BASE_NUMBERS', 'BIT_WIDTHS', 'BOUNDS', 'PERMITTED_DIGITS'):
        if name in em.assigns:
            out[name] = (em.assign(name), ctx.fold(em.assign(name), em))
    return em, out


def _bname(k):
    if isinstance(k, Ref):
        return k.ref.split(':')[-1]
    return k


def _rule_2_fragment(ctx):
    em = _em(ctx)
    names = [f'{a}2{b}'.upper() for a in ('bin', 'oct', 'hex', 'dec') for b in ('bin', 'oct', 'hex', 'dec') if a != b]
    reg = {f.name: f for f in ctx.a.registry if f.module is em}
    for n in names:
        f = reg.get(n)
        if f is None:
            ctx.bad(em.tree.body[0], f'{n} registered', f'{n} is not registered')
            continue
        a, b = n.lower().split('2')
        r = last_return(f.node)
        ok = r is not None and isinstance(r.value, ast.Call) and ctx.res.resolve(r.value.func, em) == 'pkg:xlfunctions.engineering:convert_bases'
        if not ok:
            ctx.bad(f.node, f'{n} delegates to convert_bases', f'{n} does not return convert_bases(...)')
            continue
        args = r.value.args
        p = func_params(f.node)

        def base_of(e):
            v = ctx.fold(e, em)
            return _bname(v)
        ok = len(args) >= 3 and isinstance(args[0], ast.Name) and args[0].id == p[0] and base_of(args[1]) == a and base_of(args[2]) == b
        ctx.expect(ok, f.node, f'{n} = convert_bases(number, {a}, {b})',
                   f'{n} calls `{ast.unparse(r.value)}`: origin/destination do not match its name')
        has_places = len(p) > 1
        forwards = len(args) == 4 and isinstance(args[3], ast.Name) and len(p) > 1 and args[3].id == p[1]
        if b == 'dec':
            ctx.expect(not has_places and len(args) == 3, f.node, f'{n} takes no places', f'{n} (decimal result) takes or forwards a places argument')
        else:
            ctx.expect(has_places and forwards, f.node, f'{n} forwards places', f'{n} does not forward its places argument')
            if has_places:
                d = f.param(p[1]).default
                ok = d is not None and ctx.res.resolve(d, em) in (XLT + 'UNUSED', 'pkg:xlfunctions.engineering:UNUSED')
                ctx.expect(ok, f.node, f'{n} places defaults to UNUSED', f'{n}: omitted places is not distinguished from a blank (default must be UNUSED)')
        ret = f.node.returns
        want = XLT + ('XlNumber' if b == 'dec' else 'XlText')
        ctx.expect(ret is not None and ctx.res.resolve(ret, em) == want, f.node, f'{n} returns {want.split(":")[-1]}',
                   f'{n} is annotated to return {ast.unparse(ret) if ret else None}')
    ctx.floor(40, 'twelve wrappers')


def _isinst_factory(ctx):
    def isinst(val, refs):
        refs = refs if isinstance(refs, tuple) else (refs,)
        if isinstance(val, Rec) and 'cls' in val.f:
            return any(r and ctx.res.is_subclass(val.get('cls'), r) for r in refs)
        if isinstance(val, Ref):
            return any(val.ref == r for r in refs)
        return False
    return isinst


def _rule_3_fragment(ctx):
    em = _em(ctx)
    isinst = _isinst_factory(ctx)
    models = {'builtin:bin': bin, 'builtin:oct': oct, 'builtin:hex': hex}
    cb = em.func('convert_bases')
    pcb = func_params(cb)
    unused = Ref(XLT + 'UNUSED')

    def convert(number, origin, dest, places):
        """Partially evaluate convert_bases with handle_number replaced by the identity (decimal origin)."""
        it = Interp(ctx.a, em, {pcb[0]: number, pcb[1]: origin, pcb[2]: dest, pcb[3]: places},
                    isinstance_fn=isinst, call_models=dict(models), inline_pkg=True)
        it.env['UNUSED'] = unused
        return it.run(cb.body)
    dec = ctx.fold(ast.parse('dec', mode='eval').body, em) if 'dec' in em.assigns else 'dec'
    B = {k: Ref(f'builtin:{k}') for k in BASES}
    # places decisions, on non-negative AND negative results (the check must not depend on the sign)
    for number in (5, -5):
        for places, want in ((0, 'num'), (1, 'short' if number >= 0 else 'ok'), (10, 'ok'), (11, 'num'), (-1, 'num')):
            out = convert(number, dec, B['bin'], places)
            raised = out.end == 'raise' and isinstance(out.value, Ref) and out.value.ref == XLERR + 'NumExcelError'
            if want == 'ok':
                ok = out.end == 'return'
            else:
                ok = raised
            ctx.expect(ok, em.func('handle_places'), f'places={places} with a {"negative" if number < 0 else "positive"} result',
                       f'DEC2BIN({number}, {places}) gives {out.end} {out.value!r}: places outside 1..10 (or too small for the digits) must '
                       f'give #NUM! whatever the sign of the number is')
    out = convert(5, dec, B['bin'], Rec(cls=XLT + 'Boolean', value=True))
    ok = out.end == 'raise' and isinstance(out.value, Ref) and out.value.ref == XLERR + 'ValueExcelError'
    ctx.expect(ok, em.func('handle_places'), 'boolean places gives #VALUE!', f'a boolean places argument gives {out.end} {out.value!r}')
    out = convert(5, dec, B['bin'], None)
    ctx.expect(out.end == 'return' and out.value == '101', cb, 'omitted places: no padding', f'DEC2BIN(5) partial evaluation gives {out.end} {out.value!r}')
    out = convert(5, dec, B['bin'], 8)
    ctx.expect(out.end == 'return' and out.value == '00000101', cb, 'padding to places with zeros', f'DEC2BIN(5, 8) gives {out.end} {out.value!r}')
    # window guard per pair at the critical points
    em_t = _tables(ctx)[1]
    bw = {_bname(k): v for k, v in em_t['BIT_WIDTHS'][1].items()}
    for dest in ('bin', 'oct', 'hex'):
        bound = 2 ** (bw[dest] - 1)
        for v, inside in ((-bound - 1, False), (-bound, True), (bound - 1, True), (bound, False)):
            out = convert(v, dec, B[dest], None)
            raised = out.end == 'raise' and isinstance(out.value, Ref) and out.value.ref == XLERR + 'NumExcelError'
            ctx.expect((out.end == 'return') if inside else raised, em.func('conversion'), f'window DEC2{dest.upper()}({v})',
                       f'DEC2{dest.upper()}({v}) gives {out.end} {out.value!r}: the window is -{bound} <= n < {bound} (half-open)')
    # boolean number rejected before numeric coercion
    hn = em.func('handle_number')
    phn = func_params(hn)
    it = Interp(ctx.a, em, {phn[0]: Rec(cls=XLT + 'Boolean', value=True), phn[1]: dec}, isinstance_fn=isinst)
    out = it.run(hn.body)
    ok = out.end == 'raise' and isinstance(out.value, Ref) and out.value.ref == XLERR + 'ValueExcelError'
    ctx.expect(ok, hn, 'boolean number gives #VALUE!', f'a boolean number gives {out.end} {out.value!r}')
    # length guard and digit guard on text input of each base
    class _T(Rec):
        pass

    def text(s):
        r = Rec(cls=XLT + 'Text', value=s)
        return r
    for base, good, bad, long_ in (('bin', '101', '102', '1' * 11), ('oct', '17', '18', '7' * 11), ('hex', '1F', '1G', 'F' * 11)):
        for s, want in ((good, 'ok'), (bad, 'num'), (long_, 'num'), ('1.0', 'num'), ('+1', 'num'), (' 1', 'num'), ('1_0', 'num'),
                        ('false', 'num'), ('FALSE', 'num'), ('true', 'num'), ('', 'zero')):
            it = Interp(ctx.a, em, {phn[0]: text(s), phn[1]: B[base]}, isinstance_fn=isinst,
                        call_models={'builtin:str': lambda v: v.get('value') if isinstance(v, Rec) else str(v)})
            it.dunder_truth = True      # truth value of the Text instance: its own __bool__ ("false" is falsy!)
            out = it.run(hn.body)
            raised = out.end == 'raise' and isinstance(out.value, Ref) and out.value.ref == XLERR + 'NumExcelError'
            ok = raised if want == 'num' else (out.end == 'return' and out.value == (s or '0'))
            ctx.expect(ok, hn, f'handle_number({s!r}, {base})',
                       f'the digit string {s!r} for base {base} gives {out.end} {out.value!r}, expected '
                       f'{"#NUM! (invalid digit, sign, blank, separator or more than 10 digits)" if want == "num" else "acceptance"}')
    # the digit guard dominates the conversion: int(number, base) in conversion() only sees validated text
    conv = ctx.func('xlfunctions.engineering', 'conversion')
    ints = [c for c in flow.calls_in(conv) if isinstance(c.func, ast.Name) and c.func.id == 'int' and len(c.args) == 2]
    ctx.expect(len(ints) == 1, conv, 'one int(text, base) parse', 'conversion() does not parse the digit string exactly once')
    order = [ast.unparse(c.func) for c in sorted(flow.calls_in(cb), key=flow.pos)
             if isinstance(c.func, ast.Name) and c.func.id in ('handle_places', 'handle_number', 'conversion')]
    ctx.expect(order == ['handle_places', 'handle_number', 'conversion'], cb, 'validation precedes conversion',
               f'convert_bases calls {order}: inputs must be validated before the conversion')
    ctx.floor(45, 'guard decisions at critical points')


def rule_5(ctx):
    c08.rule_6(ctx)


_REF_BASES = {'BIN': (2, 10), 'OCT': (8, 30), 'HEX': (16, 40)}      # radix, bits of the ten-digit two's complement


def _digits(value, base):
    radix, bits = _REF_BASES[base]
    if value < 0:
        value += 1 << bits
    out = ''
    while True:
        value, r = divmod(value, radix)
        out = '0123456789ABCDEF'[r] + out
        if value == 0:
            return out


def oracle(origin, dest, number, places=None):
    """Reference result of <origin>2<dest>(number[, places]): ('text', digits) / ('number', n) / '#NUM!' / '#VALUE!'."""
    if isinstance(number, bool) or isinstance(places, bool):
        return '#VALUE!'
    if origin == 'DEC':
        value = int(number)
    else:
        text = number if isinstance(number, str) else str(number)
        radix, bits = _REF_BASES[origin]
        if text == '':
            text = '0'
        if len(text) > 10 or any(ch.upper() not in '0123456789ABCDEF'[:radix] for ch in text):
            return '#NUM!'
        value = int(text, radix)
        if value >= 1 << (bits - 1):
            value -= 1 << bits
    widths = [_REF_BASES[b][1] for b in (origin, dest) if b != 'DEC']
    bound = 1 << (min(widths) - 1)
    if not (-bound <= value < bound):
        return '#NUM!'
    if dest == 'DEC':
        return ('number', value)
    if places is not None:
        places = int(places)
        if not (1 <= places <= 10):
            return '#NUM!'
    digits = _digits(value, dest)
    if places is not None and value >= 0:
        if places < len(digits):
            return '#NUM!'
        digits = digits.zfill(places)
    return ('text', digits)


def witness_rows():
    """(function name, origin, dest, number, places)"""
    rows = []
    names = [(o, d) for o in ('BIN', 'OCT', 'HEX', 'DEC') for d in ('BIN', 'OCT', 'HEX', 'DEC') if o != d]
    for o, d in names:
        widths = [_REF_BASES[b][1] for b in (o, d) if b != 'DEC']
        bound = 1 << (min(widths) - 1)
        values = [-bound - 1, -bound, -bound + 1, -2, -1, 0, 1, 2, 10, bound - 1, bound, bound + 1]
        for v in values:
            if o == 'DEC':
                num = v
            else:
                obits = _REF_BASES[o][1]
                if not (-(1 << (obits - 1)) <= v < (1 << (obits - 1))):
                    continue
                num = _digits(v, o)
            cat = 'window' if abs(v) > 100 else ('negative' if v < 0 else 'small')
            rows.append((f'{o}2{d}', o, d, num, None, cat))
        if o == 'HEX':
            # letter case of the digits, also of the digit that carries the sign
            for v in (-1, -2, -5, -(bound // 2) if bound > 4 else -3, -bound, 255, 171, bound - 1):
                up = _digits(v, 'HEX')
                for spelt in {up.lower(), up[:1].lower() + up[1:], up[:1] + up[1:].lower(), up.swapcase()} - {up}:
                    rows.append((f'{o}2{d}', o, d, spelt, None, 'negative' if v < 0 else 'small'))
        if o != 'DEC':
            # numbers with a fraction are no digit strings, however far behind the digits the fraction sits
            for frac in (1111111110.4, 1000000000.5, 101.00000000001, 1234567012.25, 10.5, 1.0000000001):
                rows.append((f'{o}2{d}', o, d, frac, None, 'guards'))
            # more than ten characters are too many, whatever the characters are
            for long in ('0' * 10 + '1', '0' * 11, '0' * 9 + '11', '0' * 30 + '1'):
                rows.append((f'{o}2{d}', o, d, long, None, 'guards'))
        if d != 'DEC':
            sample = 5 if o == 'DEC' else _digits(5, o)
            neg = -5 if o == 'DEC' else _digits(-5, o)
            need = len(_digits(5, d))
            for places in (need, need + 3, 10, need - 1 if need > 1 else 0, 0, 11, -1, True, float(need + 3), 10.0, float(need)):
                rows.append((f'{o}2{d}', o, d, sample, places, 'guards'))
            for places in (0, 1, 10, 11):
                rows.append((f'{o}2{d}', o, d, neg, places, 'guards'))
            # the widest non-negative results (nine binary, ten octal / hexadecimal digits) with places below, at and above their length
            top = (1 << (min(widths) - 1)) - 1
            for v in (top, top >> 3, top >> 6):
                vnum = v if o == 'DEC' else _digits(v, o)
                wide = len(_digits(v, d))
                for places in (1, wide - 1, wide, 10):
                    if places >= 1:
                        rows.append((f'{o}2{d}', o, d, vnum, places, 'guards'))
        if o != 'DEC':
            radix = _REF_BASES[o][0]
            for bad in ('0123456789ABCDEFG'[radix] + '1', '1.0', '+1', ' 1', '1_0', '-1', 'false', 'FALSE', '1' * 11, '',
                        '1\n', '\n1', '1 ', '1\r', '1\t', '1' * 10 + '\n', '\uff11', '\u0661', '1\n\n', '0x1', '1e1'):
                rows.append((f'{o}2{d}', o, d, bad, None, 'guards'))
        rows.append((f'{o}2{d}', o, d, True, None, 'guards'))
    return rows


CATEGORY = {
    'window': ('C19.1', 'window boundaries (-bound-1, -bound, ..., bound-1, bound, bound+1) of the two bases'),
    'small': ('C19.2', 'small non-negative values'),
    'guards': ('C19.3', 'places (exact fit, wider, 10, too small, 0, 11, negative, boolean; with a negative number) and invalid inputs '
                         '(foreign digit, fraction, sign, blank, underscore, "false", 11 digits, empty, boolean, trailing / leading newline, blank, tab, '
                         'carriage return, full-width and Arabic-Indic digits, prefixes, exponents)'),
    'negative': ('C19.4', 'small negative values: two\'s complement in the width of the destination, sign read in the width of the origin'),
}


def _witness_rule(ctx, category):
    """One slice of the reference table (rules C19.1 - C19.4): the conversion functions as the evaluator calls them (registered
    wrapper, value classes, engineering helpers as written) against an independent reference implementation."""
    from . import values as V
    n = 0
    per_fn = {}
    names = sorted({r[0] for r in witness_rows()})

    def wrap(v):
        if isinstance(v, bool):
            return V.boolean(v)
        if isinstance(v, str):
            return V.text(v)
        return V.num(v)
    for name, o, d, number, places, cat in witness_rows():
        if cat != category:
            continue
        want = oracle(o, d, number, places)
        out = V.call(ctx, name, [wrap(number)] + ([wrap(places)] if places is not None else []))
        got = V.norm(out.value) if out.end == 'return' else (out.end, V.norm(out.value))
        if isinstance(want, tuple) and want[0] == 'text':
            ok = got == ('Text', want[1])
        elif isinstance(want, tuple):
            ok = isinstance(got, tuple) and got[0] == 'Number' and got[1] == want[1]
        elif want == '#NUM!':
            ok = got in (('error', '#NUM!'), ('error-class', 'NumExcelError'))
        else:
            ok = got in (('error', '#VALUE!'), ('error-class', 'ValueExcelError'))
        n += 1
        if not ok:
            per_fn.setdefault(name, []).append(f'{name}({number!r}{"" if places is None else ", " + repr(places)}) = {got!r} instead of {want!r}')
    for name in names:
        f = V.registered(ctx, name)
        wrong = per_fn.get(name, [])
        ctx.expect(not wrong, f.node, f'{name}: {CATEGORY[category][1].split(":")[0].split("(")[0].strip()}', '; '.join(wrong[:4]))
    ctx.note(f'{n} conversions compared with the reference')
    ctx.floor(12, 'conversion functions')


def rule_1(ctx):
    _witness_rule(ctx, 'window')


def rule_2(ctx):
    _witness_rule(ctx, 'small')


def rule_3(ctx):
    _witness_rule(ctx, 'guards')


def rule_4(ctx):
    _witness_rule(ctx, 'negative')


RULES = [
    ('C19.1', 'window boundaries of every pair of bases (twelve functions against a reference, through the registered wrapper)', rule_1),
    ('C19.2', 'small non-negative values through every function', rule_2),
    ('C19.3', 'places and invalid inputs: #NUM! / #VALUE! decisions', rule_3),
    ('C19.4', 'negative values: two\'s complement by origin / destination width', rule_4),
    ('C19.5', 'module reachable from the package (shared with C08.6)', rule_5),
]
