"""C08 - functions coerce arguments the Excel way, however the value is spelt (structural part)."""
import ast

from xlsa import Unmodelled, AnchorMissing
from xlsa.consteval import Ref, Obj, Unfoldable
from xlsa.guards import Interp, Rec, PyModel, Opaque
from xlsa.load import walk_local, names_in, dotted
from xlsa import flow
from .common import func_params, value_returns, last_return, XLERR, XLT
from . import c07

PROPERTY = 'C08'
EXPLANATION = (
    'Decided from source: (C08.1) every annotated parameter of every validated registered function resolves to a coercing '
    'alias that is a key of the cast table; a bare value class is not converted by validate_args (known finding F15); '
    '(C08.2) the cast table maps each alias to the cast of its own class, and _validate interpreted as written turns '
    'witness values into the class of the alias (numeric text -> number, number -> text, 0 -> FALSE, natives -> their '
    'class); (C08.3) conversion totality over value classes x targets, native types registered, blank/boolean number '
    'values, and the arithmetic special methods compute on converted operands for every pair of operand kinds; (C08.4) '
    'function-name canonicalisation on witness spellings (case, _xlfn. prefix); (C08.5) registration writes the module-'
    'level table; two evaluators constructed (constructor interpreted, one world) around a registration: the later one sees'
    ' the new function, no two evaluators share a table object; (C08.6) every module that registers functions is imported '
    'by the package; (C08.7) a witness workbook evaluated as written: omitted trailing arguments take the declared '
    'defaults, arguments keep their order, variable argument lists are passed in full, delayed parameters receive '
    'unevaluated expressions, too many arguments are an error; (C08.8) =A/B through OP_DIV with a divisor that converts to '
    'zero (0, 0.0, "0", "0.0", "0e0", FALSE, blank) gives #DIV/0!; (C08.9) every registered function whose parameters are '
    'all declared numeric, called the way the evaluator calls it: int, float, Number, numeric text plain / decimal / '
    'scientific, TRUE for 1, FALSE and blank for 0 give the same outcome at every position, non-numeric text gives #VALUE! '
    '(numpy on floats by IEEE semantics); (C08.10) + - * / and & on every ordered pair of scalar operand kinds against the '
    'reference ("3"+1=4, TRUE+1=2, blank+1=1, #VALUE!, #DIV/0!, text forms joined). (C08.10) + - * / ^ and & on every '
    "ordered pair of 14 operand spellings (numpy's integer power modelled with 64-bit semantics); texts that spell a "
    'boolean are keyed apart (known finding F42).'
    ' (C08.7) also evaluators whose namespaces bind one name to functions of other signatures; (C08.11) 17 spellings of numeric text in seven numeric positions, text forms of 13 numbers in eight text positions; (C08.12) 45 keyword call forms against the same call written by position.')
NOT_DECIDED = 'equality of results across spellings at the value level'
TRUSTED = ['typing.NewType/Union semantics of the annotation aliases', 'functools.wraps makes inspect.signature see the wrapped signature']

CAST_KEYS_WANT = {
    'XlNumber': 'Number.cast', 'XlText': 'Text.cast', 'XlBoolean': 'Boolean.cast', 'XlDateTime': 'DateTime.cast',
    'XlArray': 'Array.cast', 'XlExpr': 'Expr.cast', 'XlAnything': 'ExcelType.cast_from_native',
}

UNANNOTATED_OK = {
    ('CHOOSE', 'values'): 'values are returned as they are',
    ('COUNT', 'values'): 'counts by type, must not convert',
    ('COUNTA', 'values'): 'counts non-blanks, must not convert',
    ('VLOOKUP', 'range_lookup'): 'flag only tested for truth',
    ('ROUND', '_rounding'): 'private keyword, never bound from a formula',
}


def _cast_table(ctx):
    xm = ctx.mod('xlfunctions.xl')
    node = xm.assign('TYPE_TO_CAST')
    if not isinstance(node, ast.Dict):
        raise Unmodelled('TYPE_TO_CAST is not a dict literal')
    table = {}
    for k, v in zip(node.keys, node.values):
        table[ctx.res.resolve(k, xm)] = ctx.res.resolve(v, xm)
    return xm, node, table


def _unfold(ctx, ann, m):
    """Leaf annotation expressions of Tuple[...]/Union[...]/Optional[...]."""
    if isinstance(ann, ast.Subscript):
        base = ctx.res.resolve(ann.value, m)
        if base in ('ext:typing.Tuple', 'ext:typing.Union', 'ext:typing.Optional', 'ext:typing.List',
                    'builtin:tuple', 'builtin:list'):
            inner = ann.slice.elts if isinstance(ann.slice, ast.Tuple) else [ann.slice]
            out = []
            for e in inner:
                out += _unfold(ctx, e, m)
            return out
    return [ann]


def rule_1(ctx):
    xm, node, table = _cast_table(ctx)
    n = 0
    for f in ctx.a.registry:
        if not f.validated:
            continue
        for p in f.params:
            n += 1
            construct = f'{f.name}.{p.name}'
            if p.annotation is None:
                ok = (f.name, p.name) in UNANNOTATED_OK
                ctx.expect(ok, p.node, construct + ' unannotated',
                           f'parameter {p.name} of {f.name} has no annotation and is not in the triaged table: the '
                           'argument reaches the function unconverted')
                continue
            bad = []
            for leaf in _unfold(ctx, p.annotation, f.module):
                ref = ctx.res.resolve(leaf, f.module)
                if ref not in table:
                    # XlAnything is a Union alias, itself a key
                    bad.append((ast.unparse(leaf), ref))
            ctx.expect(not bad, p.node, construct,
                       f'{f.name}({p.name}: {ast.unparse(p.annotation)}) - {[b[0] for b in bad]} is not a key of the cast '
                       f'table (a value class, not the coercing alias): numeric text, booleans and blanks passed for '
                       f'{p.name} are not converted')
    ctx.floor(190, 'parameters of validated registered functions')


def rule_2(ctx):
    xm, node, table = _cast_table(ctx)
    for alias, target in CAST_KEYS_WANT.items():
        key = XLT + alias
        got = table.get(key)
        want = XLT + target
        ctx.expect(got == want, node, f'TYPE_TO_CAST[{alias}]',
                   f'{alias} is cast by {got and got.split(":")[-1]}, expected {target}')
    ctx.expect(set(table) == {XLT + a for a in CAST_KEYS_WANT}, node, 'TYPE_TO_CAST keys',
               f'cast table keys differ from the seven aliases: {sorted(k.split(":")[-1] for k in table if k)}')
    # what _validate (interpreted as written) makes of a value for each alias: the class of the alias, by the conversion of the value's class
    from . import values as V
    v = xm.func('_validate')
    cases = [('XlNumber', V.text('3'), ('Number', 3)), ('XlNumber', V.boolean(True), ('Number', 1)), ('XlNumber', V.blank(), ('Number', 0.0)),
             ('XlNumber', 4, ('Number', 4)), ('XlText', V.num(12), ('Text', '12')), ('XlText', V.boolean(False), ('Text', 'False')),
             ('XlText', 'abc', ('Text', 'abc')), ('XlBoolean', V.num(0), ('Boolean', False)), ('XlBoolean', V.num(2), ('Boolean', True)),
             ('XlBoolean', V.text('true'), ('Boolean', True)), ('XlAnything', 5, ('Number', 5)), ('XlAnything', 'x', ('Text', 'x')),
             ('XlAnything', True, ('Boolean', True)), ('XlAnything', None, ('Blank', None))]
    wrong = []
    for alias, value, want in cases:
        it = Interp(ctx.a, xm, {'t': Ref(XLT + alias) if alias != 'XlAnything' else None, 'v': value}, inline_pkg=True)
        src = 'return _validate(func_xltypes.%s, v, "p")' % alias
        out = it.run(ast.parse(src).body)
        got = V.norm(out.value) if out.end == 'return' else (out.end, V.norm(out.value))
        if got != want:
            wrong.append(f'{alias} <- {V.norm(value)!r}: {got!r} instead of {want!r}')
    ctx.expect(not wrong, v, '_validate dispatches on the cast table', '_validate does not convert by the alias of the parameter: ' + '; '.join(wrong[:4]))
    # ExcelType.cast: natives are wrapped, then converted through the dunder named after the target class
    fm = ctx.mod('xlfunctions.func_xltypes')
    cast = fm.func('ExcelType.cast')
    txt = [x for x in walk_local(cast) if isinstance(x, ast.JoinedStr)]
    ok = any(isinstance(v_, ast.FormattedValue) and ast.unparse(v_.value) == 'cls.__name__' for j in txt for v_ in j.values
             if any(isinstance(c, ast.Constant) and c.value == '__' for c in j.values))
    ctx.expect(ok, cast, 'ExcelType.cast dispatches to __<Target>__', 'cast() no longer dispatches to the __<target class>__ conversion')
    ctx.floor(9, 'cast table entries')


VALUE_CLASSES = ('Number', 'Text', 'Boolean', 'DateTime', 'Blank')
TARGETS = ('Number', 'Text', 'Boolean')


def _always_not_implemented(fn):
    body = [s for s in fn.body if not (isinstance(s, ast.Expr) and isinstance(s.value, ast.Constant))]
    return len(body) == 1 and isinstance(body[0], ast.Raise) and 'NotImplemented' in ast.unparse(body[0])


def rule_3(ctx):
    fm = ctx.mod('xlfunctions.func_xltypes')
    prim = {'Number': '__number__', 'Text': '__str__', 'Boolean': '__bool__'}
    for c in VALUE_CLASSES:
        cref = XLT + c
        for t in TARGETS:
            m1, d = ctx.res.class_attr(cref, f'__{t}__')
            ok = isinstance(d, ast.FunctionDef) and not _always_not_implemented(d)
            why = f'{c} has no usable __{t}__ conversion'
            if ok:
                m2, p = ctx.res.class_attr(cref, prim[t])
                if isinstance(p, ast.Name):     # class-level alias:  __number__ = __float__
                    m2, p = ctx.res.class_attr(cref, p.id)
                if not isinstance(p, ast.FunctionDef) and t != 'Text':
                    ok = False
                    why = f'{c}.{prim[t]} missing'
                elif isinstance(p, ast.FunctionDef) and _always_not_implemented(p):
                    ok = False
                    why = f'{c}.{prim[t]} only raises NotImplementedError'
            ctx.expect(ok, fm.cls(c), f'{c} -> {t}', why)
    # native types registered
    natives = {}
    for c in VALUE_CLASSES + ('Array',):
        cm, val = ctx.res.class_attr(XLT + c, 'native_types')
        try:
            v = ctx.fold(val, cm)
        except Unfoldable:
            if c != 'Blank':
                raise Unmodelled(f'{c}.native_types')
            v = ()
        decs = [ctx.res.resolve(d, fm) for d in fm.cls(c).decorator_list]
        ctx.expect(XLT + 'register' in decs, fm.cls(c), f'{c} registered for its native types',
                   f'{c} is not decorated with @register: its native types are not converted')
        natives[c] = {getattr(x, 'ref', repr(x)) for x in v}
    want = {
        'Number': {'builtin:int', 'builtin:float', 'ext:numpy.int64', 'ext:numpy.float64'},
        'Text': {'builtin:str'}, 'Boolean': {'builtin:bool'},
        'DateTime': {'ext:datetime.datetime'}, 'Blank': {"ext:builtin:type(None)", 'builtin:type(None)'},
    }
    for c in ('Number', 'Text', 'Boolean', 'DateTime'):
        ctx.expect(want[c] <= natives[c], fm.cls(c), f'{c}.native_types',
                   f'{c}.native_types {sorted(natives[c])} lacks {sorted(want[c] - natives[c])}')
    # Blank: type(None)
    cm, val = ctx.res.class_attr(XLT + 'Blank', 'native_types')
    ctx.expect('type(None)' in ast.unparse(val) or 'NoneType' in ast.unparse(val), fm.cls('Blank'), 'Blank.native_types',
               'None is not registered as a native blank')
    # number values of booleans and blanks
    for c, attr, selfv, want_v in (('Boolean', '__number__', True, 1), ('Boolean', '__number__', False, 0),
                                   ('Blank', '__number__', None, 0), ('Blank', '__float__', None, 0),
                                   ('Blank', '__int__', None, 0), ('Blank', '__str__', None, ''),
                                   ('Blank', '__bool__', None, False)):
        cm, fn = ctx.res.class_attr(XLT + c, attr)
        it = Interp(ctx.a, cm, {'self': Rec(value=selfv)})
        out = it.run(fn.body)
        ctx.expect(out.end == 'return' and out.value == want_v and type(out.value) in (type(want_v), float, int, bool, str),
                   fn, f'{c}.{attr}({selfv!r})', f'{c}({selfv!r}).{attr}() yields {out.value!r}, expected {want_v!r}')
    # arithmetic converts both operands: value instances of every kind on either side of each arithmetic special method
    import operator as op_
    from . import values as V
    kinds = [('3', V.num(3), 3), ('"3"', V.text('3'), 3), ('TRUE', V.boolean(True), 1), ('blank', V.blank(), 0), ('2.5', V.num(2.5), 2.5)]
    for name, sym, pyop in (('__add__', '+', op_.add), ('__sub__', '-', op_.sub), ('__mul__', '*', op_.mul), ('__truediv__', '/', op_.truediv),
                            ('__pow__', '**', op_.pow)):
        wrong = []
        for la, a, na in kinds:
            for lb, b, nb in kinds:
                if name == '__truediv__' and nb == 0:
                    continue
                it = Interp(ctx.a, fm, {'a': a, 'b': b}, inline_pkg=True)
                out = it.run([ast.parse(f'return a {sym} b').body[0]])
                got = V.norm(out.value) if out.end == 'return' else (out.end, V.norm(out.value))
                want = pyop(na, nb)
                if not (isinstance(got, tuple) and got[0] == 'Number' and isinstance(got[1], (int, float)) and abs(got[1] - want) < 1e-9):
                    wrong.append(f'{la} {sym} {lb} = {got!r} instead of {want!r}')
        ctx.expect(not wrong, fm.cls('ExcelType'), f'ExcelType.{name} converts both operands',
                   f'{name}: numeric text / booleans / blanks on either side must be converted to numbers: ' + '; '.join(wrong[:4]))
    ctx.floor(30, 'class x target conversions + natives + arithmetic')


XLFN_OK_IDIOMS = ('replace', 'removeprefix')


class _Namespace(PyModel):
    def __init__(self):
        self.keys = []

    def __getitem__(self, key):
        from xlsa.guards import ExcRaised
        self.keys.append(key)
        raise ExcRaised(Ref('builtin:StopIteration'))

    def get(self, key, default=None):
        return self.__getitem__(key)


def rule_4(ctx):
    """Function-name canonicalisation decided on witness spellings: the key looked up in the namespace."""
    am = ctx.mod('ast_nodes')
    ev = am.func('FunctionNode.eval')
    p = func_params(ev)
    witnesses = {'sum': 'SUM', 'Sum': 'SUM', 'SUM': 'SUM', '_xlfn.CONCAT': 'CONCAT', '_XLFN.days': 'DAYS', '_xlfn.len': 'LEN',
                 '_xlfn.NPV': 'NPV', '_xlfn.Floor': 'FLOOR', '_xlfn.xnpv': 'XNPV', '_xlfn.FACT': 'FACT', 'dec2bin': 'DEC2BIN'}
    for text, want in witnesses.items():
        ns = _Namespace()
        it = Interp(ctx.a, am, {p[0]: Rec(tvalue=text, args=[], token=Rec(tvalue=text)), p[1]: Rec(namespace=ns, ref='Sheet1!A1')},
                    inline_pkg=True, scope_fn=ev, self_class='pkg:ast_nodes:FunctionNode')
        try:
            it.run(ev.body)
        except Unmodelled as exc:
            if not ns.keys:
                raise Unmodelled(f'FunctionNode.eval: {exc}')
        got = ns.keys[0] if ns.keys else None
        if got is None:
            ctx.unmodelled(ev, 'FunctionNode.eval never looks the function up in context.namespace')
            continue
        ctx.expect(got == want, ev, f'lookup key for {text!r}',
                   f'a function written as {text!r} is looked up as {got!r}, expected {want!r}: names match case-insensitively and '
                   'exactly the "_xlfn." prefix is ignored')
    for f in ctx.a.registry:
        ctx.expect(f.name == f.name.upper(), f.node, f'registered name {f.name} is upper case',
                   f'{f.name} is registered under a name that the upper-casing lookup can never produce')
    ctx.floor(120, 'lookup witnesses + registered names')


def rule_5(ctx):
    xm = ctx.mod('xlfunctions.xl')
    reg = xm.func('register')
    inner = [f for q, f in xm.funcs.items() if q.startswith('register.')]
    ok = bool(inner) and any(isinstance(c.func, ast.Attribute) and c.func.attr == 'register' and isinstance(c.func.value, ast.Name)
                             and c.func.value.id == 'FUNCTIONS' for c in flow.calls_in(inner[0]))
    ctx.expect(ok, reg, 'register() stores into the module-level FUNCTIONS', 'the decorator does not store into xl.FUNCTIONS')
    ret_same = bool(inner) and any(isinstance(r.value, ast.Name) and r.value.id == func_params(inner[0])[0] for r in value_returns(inner[0]))
    ctx.expect(ret_same, reg, 'register() returns the function unchanged', 'the decorator does not return the decorated function')
    fr = xm.func('Functions.register')
    p = func_params(fr)
    store = [a for a in walk_local(fr) if isinstance(a, ast.Assign) and isinstance(a.targets[0], ast.Subscript)
             and isinstance(a.targets[0].value, ast.Name) and a.targets[0].value.id == 'self']
    ok = len(store) == 1 and isinstance(store[0].targets[0].slice, ast.Name) and store[0].targets[0].slice.id == p[2] \
        and isinstance(store[0].value, ast.Name) and store[0].value.id == p[1]
    ctx.expect(ok, fr, 'Functions.register: self[name] = func', 'the registry does not store the function under its name')
    dflt = any(isinstance(n, ast.If) and isinstance(n.test, ast.Compare) and isinstance(n.test.ops[0], ast.Is)
               and any(isinstance(a, ast.Assign) and isinstance(a.value, ast.Attribute) and a.value.attr == '__name__' for a in n.body)
               for n in walk_local(fr))
    ctx.expect(dflt, fr, 'default name is func.__name__', 'a function registered without a name is not stored under its own name')
    from . import c05
    c05.rule_4(ctx)
    # the evaluation context uses the evaluator's namespace
    em = ctx.mod('evaluator')
    init = em.func('EvaluatorContext.__init__')
    sup = [c for c in flow.calls_in(init) if isinstance(c.func, ast.Attribute) and c.func.attr == '__init__']
    ok = bool(sup) and sup[0].args and ast.unparse(sup[0].args[0]).endswith('.namespace')
    ctx.expect(ok, init, 'context uses the evaluator namespace', 'the evaluation context does not receive the evaluator\'s function table')
    # two evaluators created around a registration (one world, the constructor interpreted as written)
    from xlsa.guards import World
    world = World()
    registry = {'SUM': Ref('pkg:xlfunctions.math:SUM')}
    world.globals['pkg:xlfunctions.xl:FUNCTIONS'] = registry
    model = Rec(cls='pkg:model:Model', cells={}, defined_names={}, ranges={}, formulae={})
    ev_init = em.func('Evaluator.__init__')

    def new_evaluator():
        it = Interp(ctx.a, em, {}, inline_pkg=True, world=world)
        e = it._construct('pkg:evaluator:Evaluator', [model], {})
        if not isinstance(e, Rec) or not isinstance(e.f.get('namespace'), dict) or any(x[0] == '<init-unmodelled>' for x in it.out.events):
            raise Unmodelled('Evaluator(model): namespace of the constructed evaluator')
        return e
    e1 = new_evaluator()
    registry['LATER'] = Ref('pkg:user:LATER')          # a function registered after the first evaluator exists
    e2 = new_evaluator()
    ctx.expect('LATER' in e2.f['namespace'] and 'SUM' in e2.f['namespace'], ev_init, 'a function registered later is visible to evaluators created afterwards',
               f'an evaluator created after a registration has the functions {sorted(e2.f["namespace"])}: it does not see the function '
               'registered between the two constructions (a snapshot of the registry is shared instead of copied per evaluator)')
    ctx.expect(e1.f['namespace'] is not registry and e2.f['namespace'] is not registry and e1.f['namespace'] is not e2.f['namespace'], ev_init,
               'every evaluator owns a copy of the function table',
               'evaluators share one function table object (with each other or with the module-level registry): a function added to one '
               'namespace leaks into the others')
    ctx.floor(8, 'registration/visibility facts')


def rule_6(ctx):
    # import graph from the package __init__
    root = ctx.mod('')
    reach = set()
    work = ['']
    while work:
        name = work.pop()
        if name in reach:
            continue
        reach.add(name)
        m = ctx.repo.modules.get(name)
        if m is None:
            continue
        for alias, ref in ctx.res.imports[name].items():
            refs = ref if isinstance(ref, list) else [ref]
            for r in refs:
                if isinstance(r, str) and r.startswith('pkg:'):
                    mod = r.split(':')[1]
                    if mod in ctx.repo.modules and mod not in reach:
                        work.append(mod)
                elif isinstance(r, str) and r in ctx.repo.modules:
                    work.append(r)
    registering = sorted({f.module.name for f in ctx.a.registry})
    for name in registering:
        cnt = sum(1 for f in ctx.a.registry if f.module.name == name)
        ctx.expect(name in reach, ctx.mod(name).tree.body[0], f'module {name} imported by the package',
                   f'xlcalculator never imports {name}: its {cnt} functions are unknown unless the caller imports the module by hand')
    ctx.floor(10, 'registering modules')


def rule_7(ctx):
    """The written arguments reach the function as its signature says - decided on a witness workbook evaluated as written:
    omitted trailing arguments take the declared defaults, arguments keep their order, variable argument lists are passed in
    full, delayed parameters receive unevaluated expressions (an unknown function in an unselected branch has no effect), too
    many arguments are an error."""
    from . import workbook as W
    from . import scenarios as S
    from .c10 import _as_value
    anchor = ctx.mod('ast_nodes').func('FunctionNode.eval')
    cells = {'A1': 5, 'F1': '=LEFT("abc")', 'F2': '=LEFT("abc",2)', 'F3': '=POWER(2,3)', 'F4': '=POWER(3,2)', 'F5': '=SUM(1,2,3,A1)',
             'F6': '=IF(A1>0,1,NOSUCHFUNC(1))', 'F7': '=OR(A1>0,NOSUCHFUNC(1))', 'F8': '=IF(A1<0,NOSUCHFUNC(1))', 'F9': '=LEFT("abc",2,3)',
             'F10': '=ROUND(2.567,1)', 'F11': '=MID("abcdef",2,3)', 'F12': '=CONCATENATE("a","b","c","d")', 'F13': '=ABS()', 'F14': '=MOD(7,4)', 'F15': '=MOD(4,7)'}
    want = {'F1': 'a', 'F2': 'ab', 'F3': 8, 'F4': 9, 'F5': 11, 'F6': 1, 'F7': True, 'F8': False, 'F9': ('raise',), 'F10': 2.6, 'F11': 'bcd',
            'F12': 'abcd', 'F13': ('raise',), 'F14': 3, 'F15': 4}
    wb = W.Workbook(ctx, cells)
    for a, w in want.items():
        got = wb.value('Sheet1!' + a)
        ok = (isinstance(got, tuple) and got[:1] == ('raise',)) if w == ('raise',) else S.same(got, _as_value(w))
        ctx.expect(ok, anchor, f'arguments bound by signature: {cells[a]}',
                   f'{a} = {cells[a]} evaluates to {got!r}, expected {"an error about the arguments" if w == ("raise",) else repr(w)}: FunctionNode.eval '
                   'binds the written arguments to the signature of the registered function (defaults, order, var-args, delayed parameters)')
    # one name, several functions: evaluators with namespaces of their own bind a written call to THEIR function's signature,
    # whichever evaluator (of this model or of an earlier one in the same process) called a function of that name before
    cells2 = {'A1': 5, 'A2': '3', 'G1': '=ABS(-2)', 'G2': '=ABS(2,3)', 'G3': '=LEFT("abcdef")', 'G4': '=LEFT(2,"5")', 'G5': '=IF(A1>0,1,NOSUCHFUNC(1))', 'G6': '=abs(A2,"2")',
              'G7': '=_xlfn.ABS(A2,2)'}
    plain = {'G1': 2, 'G2': ('raise',), 'G3': 'a', 'G5': 1}
    custom = {'G2': 8, 'G4': 32, 'G1': ('raise',), 'G6': 9, 'G7': 9}      # ABS and LEFT stand for POWER here
    for order in (('plain', 'custom'), ('custom', 'plain')):
        wb = W.Workbook(ctx, cells2)
        wb.evaluator('plain')
        wb.evaluator_with('custom', {'ABS': 'POWER', 'LEFT': 'POWER'})
        for key in order + order:
            for a, w in (plain if key == 'plain' else custom).items():
                got = wb.value('Sheet1!' + a, key=key)
                ok = (isinstance(got, tuple) and got[:1] == ('raise',)) if w == ('raise',) else S.same(got, _as_value(w))
                ctx.expect(ok, anchor, f'{cells2[a]} on the {key} evaluator ({order[0]} evaluator first)',
                           f'{a} = {cells2[a]} evaluates to {got!r} on the {key} evaluator (in the custom namespace ABS and LEFT are POWER) when the {order[0]} evaluator '
                           f'goes first; expected {"an error about the arguments" if w == ("raise",) else repr(w)}: a call is bound to the signature of the function '
                           'the evaluator\'s own namespace holds under that name')
    ctx.floor(45, 'argument binding cells')


def _same(a, b):
    if a == b:
        return True
    try:
        if isinstance(a, tuple) and isinstance(b, tuple) and len(a) == len(b):
            return all(_same(x, y) for x, y in zip(a, b))
        return isinstance(a, float) and isinstance(b, float) and a != a and b != b      # nan
    except Exception:
        return False


def rule_8(ctx):
    """=A/B as the evaluator calls OP_DIV: a divisor that converts to zero - 0, 0.0, "0", "0.0", "0e0", FALSE, a blank - gives
    #DIV/0!, never a Python ZeroDivisionError and never a number."""
    from . import values as V
    f = V.registered(ctx, 'OP_DIV')
    wrong = []
    for label, z in (('0', V.num(0)), ('0.0', V.num(0.0)), ('"0"', V.text('0')), ('"0.0"', V.text('0.0')), ('"0e0"', V.text('0e0')),
                     ('FALSE', V.boolean(False)), ('a blank', V.blank()), ('the native 0', 0), ('the native False', False)):
        for ln, num in (('7', V.num(7)), ('"7"', V.text('7')), ('TRUE', V.boolean(True))):
            out = V.call(ctx, 'OP_DIV', [num, z])
            got = V.norm(out.value) if out.end == 'return' else (out.end, V.norm(out.value))
            if got not in (('error', '#DIV/0!'), ('error-class', 'DivZeroExcelError')):
                wrong.append(f'{ln} / {label} = {got!r}')
    ctx.expect(not wrong, f.node, 'division by a converted zero gives #DIV/0! for every spelling', '; '.join(wrong[:5]))
    ctx.floor(1, 'zero spellings')


def rule_9(ctx):
    """Every registered function whose parameters are all declared numeric (XlNumber), called the way the evaluator calls it
    (validate_args as written, casts of the value classes as written, then the body; numpy on floats by IEEE semantics): the same
    value in every spelling - int, float, Number, numeric text plain / decimal / scientific, TRUE for 1, FALSE and blank for 0 -
    gives the same outcome at every parameter position, and a non-numeric text gives #VALUE!."""
    from . import values as V
    from xlsa.guards import ExcRaised

    def nodate(*a, **k):
        raise ExcRaised(Ref('builtin:ValueError'))
    models = {'ext:dateutil.parser.parse': nodate}
    models.update(V.numpy_models())
    decided, skipped = 0, []
    for f in ctx.a.registry:
        if not f.validated:
            continue
        pos = [p for p in f.params if p.kind == 'pos']
        if not pos or len(pos) != len(f.params) or not all(p.annotation is not None and ast.unparse(p.annotation).endswith('XlNumber') for p in pos):
            continue
        req = [p for p in pos if p.default is None]

        def outcome(args):
            out = V.call(ctx, f.name, args, models=models)
            return V.norm(out.value) if out.end == 'return' else (out.end, V.norm(out.value))
        try:
            refs = {v: outcome([V.num(v) for _ in req]) for v in (1, 0)}
        except Unmodelled as exc:
            skipped.append(f'{f.name} ({str(exc)[:40]})')
            continue
        decided += 1
        wrong = []
        for i, p in enumerate(req):
            for v, spellings in ((1, [('the int 1', 1), ('the float 1.0', 1.0), ('the text "1"', V.text('1')), ('the text "1.0"', V.text('1.0')),
                                      ('the text "1e0"', V.text('1e0')), ('TRUE', V.boolean(True)), ('the native True', True)]),
                                 (0, [('the int 0', 0), ('the text "0"', V.text('0')), ('FALSE', V.boolean(False)), ('a blank', V.blank())])):
                for label, sp in spellings:
                    args = [V.num(v) for _ in req]
                    args[i] = sp
                    try:
                        got = outcome(args)
                    except Unmodelled as exc:
                        raise Unmodelled(f'{f.name} with {label}: {exc}')
                    if not _same(got, refs[v]):
                        wrong.append(f'{p.name}={label}: {got!r} instead of {refs[v]!r}')
            args = [V.num(1) for _ in req]
            args[i] = V.text('abc')
            got = outcome(args)
            if got not in (('error', '#VALUE!'), ('error-class', 'ValueExcelError')):
                wrong.append(f'{p.name}=the text "abc": {got!r} instead of #VALUE!')
        ctx.expect(not wrong, f.node, f'{f.name}: every spelling of a numeric argument gives the same outcome',
                   f'{f.name} depends on how a numeric argument is spelt: ' + '; '.join(wrong[:4]))
    ctx.note(f'functions not decided (library calls beyond the float model): {", ".join(skipped) or "none"}')
    ctx.floor(30, 'all-numeric registered functions')
    if decided < 30:
        ctx.errors.append(f'C08.9: only {decided} all-numeric functions could be interpreted')


def rule_10(ctx):
    """The arithmetic operators and & as the evaluator calls them, on every ordered pair of representative scalar operands
    (number, numeric text, non-numeric text, empty text, TRUE, blank, zero): numeric text, booleans and blanks are converted
    ("3"+1=4, TRUE+1=2, blank+1=1), a non-numeric text gives #VALUE!, a zero divisor #DIV/0!, & joins the text forms; the
    outcome is always a value or an Excel error value, never a Python exception."""
    import operator as op_
    from . import values as V
    from xlsa.guards import ExcRaised

    def nodate(*a, **k):
        raise ExcRaised(Ref('builtin:ValueError'))
    models = {'ext:dateutil.parser.parse': nodate}
    vals = [('3', V.num(3), 3), ('2.5', V.num(2.5), 2.5), ('"3"', V.text('3'), 3), ('"x"', V.text('x'), None), ('""', V.text(''), None),
            ('TRUE', V.boolean(True), 1), ('blank', V.blank(), 0), ('0', V.num(0), 0), ('FALSE', V.boolean(False), 0), ('-2', V.num(-2), -2),
            ('"false"', V.text('false'), None), ('"0"', V.text('0'), 0), ('"-1"', V.text('-1'), -1), ('4', V.num(4), 4)]
    models.update(V.numpy_models())
    n = 0

    def pw(a, b):
        return float(a) ** b if b < 0 else a ** b
    for name, fn in (('OP_ADD', op_.add), ('OP_SUB', op_.sub), ('OP_MUL', op_.mul), ('OP_DIV', op_.truediv), ('POWER', pw)):
        f = V.registered(ctx, name)
        wrong = []
        wrong_bt = []
        for la, a, na in vals:
            for lb, b, nb in vals:
                out = V.call(ctx, name, [a, b], models=models)
                got = V.norm(out.value) if out.end == 'return' else ('python exception', V.norm(out.value))
                if na is None or nb is None:
                    if name == 'OP_DIV' and nb == 0:
                        want = None       # a non-numeric text over zero: either error is an Excel error value
                        ok = got in (('error-class', 'ValueExcelError'), ('error', '#VALUE!'), ('error-class', 'DivZeroExcelError'), ('error', '#DIV/0!'))
                    else:
                        want = '#VALUE!'
                        ok = got in (('error-class', 'ValueExcelError'), ('error', '#VALUE!'))
                        if name == 'POWER' and not ok and (na == 0 or nb == 0 or na is None and nb is None):
                            ok = isinstance(got, tuple) and got[0] in ('error', 'error-class')
                elif name == 'OP_DIV' and nb == 0:
                    want = '#DIV/0!'
                    ok = got in (('error-class', 'DivZeroExcelError'), ('error', '#DIV/0!'))
                elif name == 'POWER' and na == 0 and nb <= 0:
                    continue        # 0^0 and 0^-n: Excel's #NUM! / #DIV/0! - decided by C07.3 / C16
                elif name == 'POWER' and na < 0 and not float(nb).is_integer():
                    continue        # negative base, fractional exponent: #NUM! - decided by C07.3 / C16
                else:
                    want = fn(na, nb)
                    ok = isinstance(got, tuple) and got[0] == 'Number' and isinstance(got[1], (int, float)) and abs(got[1] - want) < 1e-12
                n += 1
                if not ok:
                    (wrong_bt if '"false"' in (la, lb) else wrong).append(f'{la} {name[3:]} {lb} = {got!r} (expected {want!r})')
        ctx.expect(not wrong, f.node, f'{name} on every pair of scalar operand kinds',
                   f'{name}: ' + '; '.join(wrong[:4]))
        ctx.expect(not wrong_bt, f.node, f'{name}: a text that spells a boolean is not a number',
                   f'{name}: ' + '; '.join(wrong_bt[:4]) + ' - "false" / "true" are texts that are not numeric: arithmetic on them is #VALUE!')
    cat = V.registered(ctx, 'CONCAT')
    wrong = []
    for la, a, _ in vals:
        for lb, b, _ in vals:
            out = V.call(ctx, 'CONCAT', [a, b], models=models)
            got = V.norm(out.value) if out.end == 'return' else ('python exception', V.norm(out.value))
            tf = lambda v: '' if v.f['cls'].endswith('Blank') else str(v.f['value'])   # noqa: E731
            want = ('Text', tf(a) + tf(b))
            n += 1
            if got != want:
                wrong.append(f'{la} & {lb} = {got!r} (expected {want!r})')
    ctx.expect(not wrong, cat.node, '& joins the text forms of both operands', '&: ' + '; '.join(wrong[:4]))
    ctx.floor(11, 'operator tables')
    ctx.note(f'{n} operand pairs evaluated')


SPELT_NUMBERS = ['1e+22', '1E+22', '2.5e+0', '1e22', '-1e+7', ' 3 ', '+3', '3.', '.5', '2.5e-3', '1E3', '1e+3', '007', '1.50', '1.5E+3', '-0', '12e-1']
TEXT_FORMS = [1.23456789e-08, 1.5e-16, 0.000123456789012345, -3e-20, 1e+22, 1234.5678, 5, 0.5, -2.25, 123456789012345678, 2.5e-07, 1e-15, 0]


def rule_11(ctx):
    """A whole witness workbook, interpreted as written: texts that spell a number (plain, signed, padded, with a decimal point at
    either end, in scientific notation with and without a sign in the exponent) mean that number wherever a number is expected;
    numbers of every magnitude used where a text is expected are their text form, and that text reads back as the same number."""
    from . import workbook as W
    from . import scenarios as S
    anchor = ctx.mod('xlfunctions.func_xltypes').func('Text.__number__')
    books = []
    cells, want = {}, {}
    for i, t in enumerate(SPELT_NUMBERS, start=1):
        try:
            v = int(t)
        except ValueError:
            v = float(t)
        cells.update({f'A{i}': t, f'B{i}': f'=A{i}+0', f'C{i}': f'=ABS(A{i})', f'D{i}': f'=2*A{i}', f'E{i}': f'=MOD(A{i},7)', f'F{i}': f'=-A{i}',
                      f'G{i}': f'="{t}"+0', f'H{i}': f'=SQRT(A{i}*A{i})'})
        want.update({f'B{i}': v, f'C{i}': abs(v), f'D{i}': 2 * v, f'E{i}': v % 7, f'F{i}': -v, f'G{i}': v, f'H{i}': abs(v)})
    books.append((cells, want))
    cells, want = {}, {}
    for i, v in enumerate(TEXT_FORMS, start=1):
        t = str(v)
        cells.update({f'N{i}': v, f'O{i}': f'=N{i}&""', f'P{i}': f'=LEN(N{i})', f'Q{i}': f'=(N{i}&"")+0', f'R{i}': f'=LEFT(N{i},40)',
                      f'S{i}': f'="<"&N{i}&">"', f'T{i}': f'=EXACT(N{i},O{i})', f'U{i}': f'=UPPER(N{i})', f'V{i}': f'=(0+N{i})&""'})
        want.update({f'O{i}': ('Text', t), f'P{i}': len(t), f'Q{i}': v, f'R{i}': ('Text', t), f'S{i}': ('Text', '<' + t + '>'), f'T{i}': True,
                     f'U{i}': ('Text', t.upper()), f'V{i}': ('Text', t)})
    books.append((cells, want))
    for cells, want in books:
        wb = W.Workbook(ctx, cells)
        for a, w in want.items():
            got = wb.value('Sheet1!' + a)
            src = cells[a[0].replace(a[0], 'A' if a[0] < 'N' else 'N') + a[1:]]
            ctx.expect(S.same(got, w) and (not isinstance(w, (int, float)) or isinstance(w, bool) or (isinstance(got, tuple) and got[1] == w)), anchor,
                       f'spellings: {cells[a]} over {src!r}',
                       f'{a} = {cells[a]} with {("A" if a[0] < "N" else "N") + a[1:]} = {src!r} evaluates to {got!r}, expected {w!r}: a text that spells a number is that '
                       'number in every numeric position, and a number in a text position is its text form - for every spelling and magnitude')
    ctx.floor(220, 'spelling cells')


def _npf_models():
    from . import values as V
    return V.npf_models()


CALL_FORMS = [
    # (function, the reference call by position, other spellings of the same call: (positional, keywords in the written order))
    ('PV', (0.05, 10, -100, 0, 1), [((0.05, 10, -100), {'type': 1}), ((0.05, 10, -100), {'type': '1'}), ((0.05, 10, -100), {'type': '1.0'}), ((0.05, 10, -100), {'type': True}),
                                     ((0.05, 10), {'pmt': -100, 'type': 1, 'fv': 0}), ((0.05, 10, -100), {'fv': '0', 'type': '1e0'}), ((0.05, 10, -100), {'type': 1, 'fv': 0}),
                                     ((), {'rate': 0.05, 'nper': 10, 'pmt': -100, 'type': 1}), ((), {'type': 1, 'pmt': -100, 'nper': 10, 'rate': 0.05}),
                                     (('0.05', '10', '-100', '0', '1'), {})]),
    ('PV', (0.05, 10, -100, 50, 0), [((0.05, 10, -100), {'fv': 50}), ((0.05, 10, -100), {'fv': '50'}), ((0.05,), {'fv': 50, 'pmt': -100, 'nper': 10}), ((0.05, 10, -100, 50), {})]),
    ('PMT', (0.05, 10, 1000, 0, 0), [((0.05, 10, 1000), {}), ((0.05, 10), {'pv': 1000}), ((), {'pv': '1000', 'nper': '10', 'rate': '0.05'}), ((0.05, 10, 1000), {'fv': 0})]),
    ('LOG', (8, 2), [((8,), {'base': 2}), ((8,), {'base': '2'}), ((), {'number': 8, 'base': 2}), ((), {'base': 2, 'number': 8}), ((), {'base': '2.0', 'number': '8'})]),
    ('LEFT', ('abcdef', 2), [(('abcdef',), {'num_chars': 2}), ((), {'text': 'abcdef', 'num_chars': '2'}), ((), {'num_chars': 2, 'text': 'abcdef'}), ((), {'num_chars': 2.0, 'text': 'abcdef'})]),
    ('RIGHT', ('abcdef', 3), [((), {'num_chars': '3', 'text': 'abcdef'})]),
    ('FIND', ('c', 'abcabc', 4), [(('c', 'abcabc'), {'start_num': 4}), ((), {'start_num': 4, 'within_text': 'abcabc', 'find_text': 'c'}), (('c',), {'start_num': 4, 'within_text': 'abcabc'})]),
    ('MOD', (7, 3), [((), {'divisor': 3, 'number': 7}), ((7,), {'divisor': '3'})]),
    ('POWER', (2, 5), [((), {'power': 5, 'number': 2}), ((), {'power': '5', 'number': '2'})]),
    ('OP_SUB', (7, 2), [((), {'right': 2, 'left': 7}), ((7,), {'right': '2'})]),
    ('OP_DIV', (7, 2), [((), {'right': 2, 'left': 7})]),
    ('PV', (0.05, 10, -100, 0, 'abc'), [((0.05, 10, -100), {'type': 'abc'}), ((), {'type': 'abc', 'pmt': -100, 'nper': 10, 'rate': 0.05})]),
    ('PV', (0.05, 10, -100, 'x', 1), [((0.05, 10, -100), {'type': 1, 'fv': 'x'})]),
]


def rule_12(ctx):
    """The call protocol of the registered functions as library functions: a call written with keyword arguments - in any order,
    after optional parameters that were left out, with values in any spelling - is the same call as the one written by position:
    every argument is bound to its parameter by NAME, converted by that parameter's annotation, and errors are reported alike."""
    from . import values as V
    from xlsa.guards import ExcRaised

    def nodate(*a, **k):
        raise ExcRaised(Ref('builtin:ValueError'))
    models = V.numpy_models()
    models.update(_npf_models())
    models['ext:dateutil.parser.parse'] = nodate
    n = 0
    for name, ref_args, forms in CALL_FORMS:
        f = V.registered(ctx, name)

        def outcome(a, k):
            out = V.call(ctx, name, list(a), models=models, kwargs=dict(k))        # native Python values, as a caller of the library writes them
            res = V.norm(out.value) if out.end == 'return' else (out.end, V.norm(out.value))
            if isinstance(res, tuple) and len(res) == 2 and res[0] == 'error-class':
                res = ('error', res[1])
            return res
        want = outcome(ref_args, {})
        if isinstance(want, tuple) and want and want[0] == 'error':
            want = ('error',) + want[1:]
        for a, k in forms:
            got = outcome(a, k)
            same = got == want or (isinstance(got, tuple) and isinstance(want, tuple) and len(got) == len(want) == 2 and got[0] == want[0] == 'Number'
                                   and isinstance(got[1], (int, float)) and isinstance(want[1], (int, float)) and abs(got[1] - want[1]) <= 1e-9 * max(1, abs(want[1])))
            shown = ', '.join([repr(x) for x in a] + [f'{kk}={x!r}' for kk, x in k.items()])
            n += 1
            ctx.expect(same, f.node, f'{name}({shown}) is {name}{ref_args!r}',
                       f'{name}({shown}) gives {got!r}, the same call written by position - {name}{ref_args!r} - gives {want!r}: keyword arguments are bound by '
                       'name and converted like positional ones, in every order and spelling')
    ctx.floor(40, 'keyword call forms')


RULES = [
    ('C08.1', 'annotations are coercing aliases', rule_1),
    ('C08.2', 'cast table', rule_2),
    ('C08.3', 'conversions are total; arithmetic converts both operands', rule_3),
    ('C08.4', 'function-name canonicalisation', rule_4),
    ('C08.5', 'registry visibility', rule_5),
    ('C08.6', 'registering modules are imported', rule_6),
    ('C08.7', 'signature preservation', rule_7),
    ('C08.8', 'division by a converted zero gives #DIV/0! for every spelling', rule_8),
    ('C08.9', 'numeric arguments: every spelling of a value gives the same outcome (through the registered wrapper)', rule_9),
    ('C08.10', 'arithmetic operators and & on every pair of scalar operand kinds (through the registered wrapper)', rule_10),
    ('C08.11', 'spellings of numeric text and text forms of numbers in a witness workbook', rule_11),
    ('C08.12', 'library calls with keyword arguments are the calls written by position (binding by name, same conversions)', rule_12),
]
