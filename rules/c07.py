"""C07 - Excel errors are values that propagate; typed operands never crash (structural part)."""
import ast

from xlsa import Unmodelled, AnchorMissing
from xlsa.consteval import Ref, Obj, Unfoldable
from xlsa.guards import Interp, Rec, PyModel, Opaque
from xlsa.load import walk_local, names_in, dotted
from xlsa import flow
from .common import func_params, value_returns, last_return, raise_class, is_excel_error_ref, XLERR, XLT

PROPERTY = 'C07'
EXPLANATION = (
    'Decided from source: (C07.1) every registered function is stored wrapped by validate_args (register outermost), '
    'except the frozen table of error inspectors and parameterless functions; (C07.2) every handler that swallows an '
    'ExcelError (catches it and neither re-raises nor returns it) is enumerated and triaged in a frozen table: '
    'conversion attempts on non-error values are accepted, handlers reachable with an error *value* are findings, an '
    'unknown swallowing handler is a violation; (C07.3) partial native arithmetic reachable from the operator '
    'functions through the ExcelType dunders is guarded or converted; (C07.4) complete decision tables of '
    'ISERROR/ISERR/ISNA/NA and ISNUMBER/ISTEXT/ISBLANK over the error-class lattice and the value classes; (C07.5) the '
    'validate_args contract: arguments visited in signature order, an error argument returned before any conversion, '
    'conversion and call wrapped in handlers that return the raised ExcelError.')
NOT_DECIDED = ('value-level "leftmost error" for nested expressions; every function x position x code combination '
               'beyond what C07.1/C07.2/C07.5 make structural')
TRUSTED = ['model of inspect.signature(...).bind: arguments in signature order']

UNVALIDATED_OK = {
    'ISERR': 'error inspector: must see error values',
    'ISERROR': 'error inspector: must see error values',
    'ISNA': 'error inspector: must see error values',
    'PI': 'no parameters',
    'NOW': 'no parameters',
    'TODAY': 'no parameters',
}


def rule_1(ctx):
    reg = ctx.a.registry
    for f in reg:
        refs = f.decorators
        reg_first = refs and refs[0] == 'pkg:xlfunctions.xl:register'
        if f.name in UNVALIDATED_OK:
            no_params = not f.params
            inspector = f.name.startswith('IS')
            ctx.expect(no_params or inspector, f.node, f'{f.name} exempt from validate_args',
                       f'{f.name} is exempt as "{UNVALIDATED_OK[f.name]}" but now has parameters')
            continue
        ctx.expect(f.validated and reg_first, f.node, f'{f.name} registered through validate_args',
                   f'{f.name} is stored in the function table without the validate_args wrapper'
                   f'{" (register is not the outermost decorator)" if f.validated else ""}: an error argument is not '
                   'propagated and arguments are not coerced')
    ctx.floor(121, 'registered functions')


# (module, qualname, ordinal of swallowing handler in the function) -> (triage, reason)
SWALLOW_TRIAGE = {
    ('xlfunctions.xl', '_safe_validate', 0): ('reachable', 'items of var-positional / Tuple[...] parameters and range cells that are error values are dropped: SUM(1,#N/A) gives 1, 10/0&"x" gives "x"'),
    ('xlfunctions.xl', '_validate', 0): ('conversion', 'Union member attempt; an error argument is returned by validate_args before'),
    ('xlfunctions.func_xltypes', '_safe_cast', 0): ('reachable', 'cells of ranges that are error values are replaced by the empty value in Array.flatten/cast_to_*: XNPV/XIRR/SUMIF ignore errors in ranges'),
    ('xlfunctions.func_xltypes', '_convert_nested_list', 0): ('conversion', 'cast_from_native returns error values unchanged; the handler only covers unknown native types'),
    ('xlfunctions.func_xltypes', 'Text.__number__', 0): ('conversion', 'attempts on the text of a Text value'),
    ('xlfunctions.func_xltypes', 'Text.__number__', 1): ('conversion', 'attempts on the text of a Text value'),
    ('xlfunctions.xlcriteria', 'parse_criteria', 0): ('conversion', 'attempts to type the operand text of a criterion'),
}


def _swallowing_handlers(ctx):
    """Handlers that catch an ExcelError (or broader) and drop it; keyed by the OUTERMOST enclosing function (class-qualified)
    and their ordinal inside it, so that renaming a nested helper does not change the key."""
    out = []
    for m in ctx.repo.modules.values():
        tops = [(q, f) for q, f in m.funcs.items() if isinstance(f._parent, (ast.Module, ast.ClassDef))]
        for qual, fn in tops:
            k = 0
            for t in ast.walk(fn):
                if not isinstance(t, ast.Try):
                    continue
                for h in t.handlers:
                    types = []
                    if h.type is None:
                        types = ['builtin:BaseException']
                    elif isinstance(h.type, ast.Tuple):
                        types = [ctx.res.resolve(e, m) for e in h.type.elts]
                    else:
                        types = [ctx.res.resolve(h.type, m)]
                    catches_xl = any(t_ and (is_excel_error_ref(ctx, t_) or t_ in ('builtin:Exception', 'builtin:BaseException'))
                                     for t_ in types)
                    if not catches_xl:
                        continue
                    reraises = any(isinstance(x, ast.Raise) for s in h.body for x in ast.walk(s))
                    returns_err = h.name and any(isinstance(x, ast.Return) and x.value is not None and h.name in names_in(x.value)
                                                 for s in h.body for x in ast.walk(s))
                    if reraises or returns_err:
                        continue
                    out.append((m, qual, fn, h, k, types))
                    k += 1
    return out


def rule_2(ctx):
    hs = _swallowing_handlers(ctx)
    for m, qual, fn, h, k, types in hs:
        key = (m.name, qual, k)
        tri = SWALLOW_TRIAGE.get(key)
        construct = f'swallowing handler #{k} in {qual} (catches {",".join(str(t).split(":")[-1] for t in types)})'
        where = (m, qual, h.lineno)
        if tri is None:
            ctx.bad(where, construct, 'a handler catches an ExcelError (or broader) and drops it; it is not in the triaged table: '
                                  'an error value reaching it would be lost instead of being propagated')
        elif tri[0] == 'conversion':
            ctx.ok(where, construct, 'triaged: ' + tri[1])
        else:
            # reachable with error values unless every caller tests isinstance(..., ExcelError) first
            ctx.bad(where, construct, tri[1])
    # the item path of _validate: items must be tested for errors before _safe_validate
    xm = ctx.mod('xlfunctions.xl')
    v = xm.func('_validate')
    item_calls = [c for c in flow.calls_in(v) if isinstance(c.func, ast.Name) and c.func.id == '_safe_validate']
    for c in item_calls:
        # is there an isinstance(item, ExcelError) test in the comprehension / loop around it?
        guarded = False
        p = c._parent
        while p is not None and p is not v:
            if isinstance(p, (ast.ListComp, ast.GeneratorExp, ast.For, ast.IfExp)):
                for x in ast.walk(p):
                    if isinstance(x, ast.Call) and isinstance(x.func, ast.Name) and x.func.id == 'isinstance' \
                            and len(x.args) == 2 and ctx.res.resolve(x.args[1], xm) == XLERR + 'ExcelError':
                        guarded = True
            p = p._parent
        ctx.expect(guarded, c, 'items of Tuple[...] parameters tested for error values',
                   'items of var-positional / Tuple[...] parameters and range cells reach _safe_validate without an '
                   'isinstance(item, ExcelError) test: SUM(1,#N/A) gives 1, 10/0&"x" gives "x"')
    ctx.floor(7, 'swallowing handlers + item path')


PARTIAL_OPS = (ast.Pow, ast.Div, ast.Mod, ast.FloorDiv)


def rule_3(ctx, only_ops=None):
    m = ctx.mod('xlfunctions.func_xltypes')
    n = 0
    for qual, fn in m.funcs.items():
        short = qual.split('.')[-1]
        if short not in ('__add__', '__sub__', '__mul__', '__truediv__', '__pow__', '__neg__'):
            continue
        for b in walk_local(fn):
            if isinstance(b, ast.BinOp) and isinstance(b.op, PARTIAL_OPS) and (only_ops is None or isinstance(b.op, only_ops)):
                n += 1
                # guarded by a dominating zero test on the divisor / enclosed by a converting handler
                conds = flow.path_conditions(b)
                guard = any(c.kind == 'guard' and not c.polarity and any(
                    isinstance(r, ast.Raise) and is_excel_error_ref(ctx, raise_class(ctx, r)) for r in c.origin.body)
                    and _tests_same_value(c.test, b.right) for c in conds)
                handler = False
                p = b._parent
                while p is not None and p is not fn:
                    if isinstance(p, ast.Try) and any(flow.contains(s, b) for s in p.body):
                        for h in p.handlers:
                            hts = [h.type] if not isinstance(h.type, ast.Tuple) else h.type.elts
                            names = {dotted(t) for t in hts if t is not None}
                            if names & {'ZeroDivisionError', 'OverflowError', 'ArithmeticError', 'Exception'} and any(
                                    isinstance(r, ast.Raise) and is_excel_error_ref(ctx, raise_class(ctx, r))
                                    for s in h.body for r in ast.walk(s)):
                                handler = True
                    p = p._parent
                opn = type(b.op).__name__
                if opn_is_div(b) and not guard and not handler:
                    pass
                fails = {'Pow': '=0^-1 raises ZeroDivisionError, =10.5^400 OverflowError, (-8)^0.5 yields a complex number',
                         'Mod': 'MOD(5,0) raises ZeroDivisionError', 'Div': 'the zero guard does not test the converted divisor: =1/FALSE, =1/"0.0" raise ZeroDivisionError instead of giving #DIV/0!',
                         'FloorDiv': 'division by zero raises ZeroDivisionError'}[opn]
                ctx.expect(guard or handler, b, f'{qual}: native `{opn}`',
                           f'native {opn} on converted operands is neither guarded nor enclosed by a handler that '
                           f'converts the Python exception into an Excel error: {fails}')
    ctx.floor(2 if only_ops is None else 1, 'partial native operations in the arithmetic dunders')


def opn_is_div(b):
    return isinstance(b.op, ast.Div)


def _tests_same_value(test, divisor):
    """`<divisor expr> == 0` (either side): the guard must look at the converted value that is divided by."""
    if isinstance(test, ast.Compare) and len(test.ops) == 1 and isinstance(test.ops[0], ast.Eq):
        sides = [test.left, test.comparators[0]]
        for x, y in (sides, sides[::-1]):
            if isinstance(y, ast.Constant) and y.value == 0 and ast.dump(x) == ast.dump(divisor):
                return True
    return False


def _err_lattice(ctx):
    xm = ctx.mod('xlfunctions.xlerrors')
    classes = []
    for qual in xm.classes:
        ref = XLERR + qual
        if is_excel_error_ref(ctx, ref):
            classes.append(ref)
    return classes


def rule_4(ctx):
    im = ctx.mod('xlfunctions.information')
    errs = _err_lattice(ctx)
    if len(errs) < 9:
        raise AnchorMissing(f'error class lattice has {len(errs)} classes')
    NA = XLERR + 'NaExcelError'
    value_classes = [XLT + c for c in ('Number', 'Text', 'Boolean', 'DateTime', 'Blank')]

    def isinst(val, refs):
        refs = refs if isinstance(refs, tuple) else (refs,)
        if not isinstance(val, Rec):
            return False
        return any(r and ctx.res.is_subclass(val.get('cls'), r) for r in refs)

    oracle = {
        'ISERROR': lambda c: True,
        'ISERR': lambda c: not ctx.res.is_subclass(c, NA),
        'ISNA': lambda c: ctx.res.is_subclass(c, NA),
    }
    for name, want in oracle.items():
        fn = im.func(name)
        p = func_params(fn)[0]
        for c in errs + value_classes:
            it = Interp(ctx.a, im, {p: Rec(cls=c, value=1)}, isinstance_fn=isinst)
            out = it.run(fn.body)
            got = out.value if out.end == 'return' else f'<{out.end}>'
            w = want(c) if c in errs else False
            ctx.expect(got is w or got == w, fn, f'{name}({c.split(":")[-1]})',
                       f'{name} returns {got!r} for a {c.split(":")[-1]} value, expected {w}')
    na = im.func('NA')
    r = last_return(na)
    ok = r is not None and isinstance(r.value, ast.Call) and ctx.res.resolve(r.value.func, im) == NA
    ctx.expect(ok, na, 'NA() yields #N/A', 'NA() does not return a NaExcelError')
    type_oracle = {'ISNUMBER': XLT + 'Number', 'ISTEXT': XLT + 'Text'}
    for name, cls in type_oracle.items():
        fn = im.func(name)
        p = func_params(fn)[0]
        for c in value_classes:
            it = Interp(ctx.a, im, {p: Rec(cls=c, value=1)}, isinstance_fn=isinst)
            out = it.run(fn.body)
            w = ctx.res.is_subclass(c, cls)
            ctx.expect(out.value == w, fn, f'{name}({c.split(":")[-1]})',
                       f'{name} returns {out.value!r} for a {c.split(":")[-1]}, expected {w}')
    fn = im.func('ISBLANK')
    p = func_params(fn)[0]
    for c, val, w in ((XLT + 'Blank', None, True), (XLT + 'Number', 0, False), (XLT + 'Number', 5, False),
                      (XLT + 'Text', 'a', False), (XLT + 'Boolean', False, False)):
        it = Interp(ctx.a, im, {p: Rec(cls=c, value=val)}, isinstance_fn=isinst)
        out = it.run(fn.body)
        ctx.expect(out.value == w, fn, f'ISBLANK({c.split(":")[-1]} {val!r})',
                   f'ISBLANK returns {out.value!r} for {c.split(":")[-1]}({val!r}), expected {w}')
    ctx.floor(55, 'inspector x class lattice')


def rule_5(ctx):
    xm = ctx.mod('xlfunctions.xl')
    va = xm.func('validate_args')
    inner = [f for q, f in xm.funcs.items() if q.startswith('validate_args.')]
    if len(inner) != 1:
        raise AnchorMissing('validate_args inner wrapper')
    w = inner[0]
    loops = [n for n in w.body if isinstance(n, ast.For)]
    if not loops:
        raise AnchorMissing('validate_args: loop over bound arguments')
    lp = loops[0]
    it_txt = ast.unparse(lp.iter)
    ordered = 'arguments' in it_txt and not any(
        isinstance(c, ast.Call) and isinstance(c.func, ast.Name) and c.func.id in ('sorted', 'reversed', 'set')
        for c in ast.walk(lp.iter))
    ctx.expect(ordered, lp, 'arguments visited in signature order',
               f'validate_args iterates `{it_txt[:50]}`: not the bound arguments in signature order, so the leftmost '
               'error is not the one returned')
    valvar = lp.target.elts[1].id if isinstance(lp.target, ast.Tuple) and len(lp.target.elts) == 2 else None
    first = lp.body[0] if lp.body else None
    ok = isinstance(first, ast.If) and isinstance(first.test, ast.Call) and isinstance(first.test.func, ast.Name) \
        and first.test.func.id == 'isinstance' and isinstance(first.test.args[0], ast.Name) \
        and first.test.args[0].id == valvar and ctx.res.resolve(first.test.args[1], xm) == XLERR + 'ExcelError' \
        and len(first.body) == 1 and isinstance(first.body[0], ast.Return) \
        and isinstance(first.body[0].value, ast.Name) and first.body[0].value.id == valvar
    ctx.expect(ok, lp, 'error argument returned before any conversion',
               'the loop over the arguments does not begin with `if isinstance(value, ExcelError): return value`: an '
               'error passed for a parameter without a cast (class annotation, no annotation) is not propagated')
    # _validate call of the loop inside a handler returning the error
    calls = [c for c in ast.walk(lp) if isinstance(c, ast.Call) and isinstance(c.func, ast.Name) and c.func.id == '_validate']
    for c in calls:
        ctx.expect(_in_returning_handler(ctx, c, w, xm), c, 'argument conversion errors are returned',
                   'an ExcelError raised while converting an argument is not returned as the result')
    # the function call
    fcalls = [c for c in flow.calls_in(w) if isinstance(c.func, ast.Name) and c.func.id == func_params(va)[0]]
    ctx.expect(len(fcalls) == 1, w, 'wrapped function called once', f'the wrapped function is called {len(fcalls)} times')
    for c in fcalls:
        ctx.expect(_in_returning_handler(ctx, c, w, xm), c, 'ExcelError raised by the function is returned',
                   'an ExcelError raised by the function body escapes instead of becoming the cell value')
        ctx.expect(flow.pos(c) > flow.pos(lp), c, 'function called after all arguments were checked',
                   'the function is called before the arguments were validated')
    ctx.floor(5, 'wrapper contract obligations')


def _in_returning_handler(ctx, node, fn, m):
    p = node._parent
    while p is not None and p is not fn:
        if isinstance(p, ast.Try) and any(flow.contains(s, node) for s in p.body):
            for h in p.handlers:
                if h.type is not None and ctx.res.resolve(h.type, m) == XLERR + 'ExcelError' and h.name:
                    if any(isinstance(s, ast.Return) and isinstance(s.value, ast.Name) and s.value.id == h.name for s in h.body):
                        return True
        p = p._parent
    return False


RULES = [
    ('C07.1', 'registration discipline', rule_1),
    ('C07.2', 'no error value reaches a swallowing handler', rule_2),
    ('C07.3', 'operators cannot raise Python exceptions', rule_3),
    ('C07.4', 'error/type inspectors: decision tables over the class lattice', rule_4),
    ('C07.5', 'validate_args contract', rule_5),
]
