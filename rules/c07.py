"""C07 - Excel errors are values that propagate; typed operands never crash (structural part)."""
import ast

from xlsa import Unmodelled, AnchorMissing
from xlsa.consteval import Ref, Obj, Unfoldable
from xlsa.guards import Interp, Rec, PyModel, Opaque
from xlsa.load import walk_local, names_in, dotted
from xlsa import flow
from .common import func_params, value_returns, last_return, raise_class, is_excel_error_ref, XLERR, XLT

PROPERTY = 'C07'
EXPLANATION = (
    'Decided from source, mostly by interpreting the registered functions as the evaluator calls them '
    '(validate_args and private decorators as written, value/error classes as written): (C07.1) every registered '
    'function is stored wrapped by validate_args (register outermost), except the frozen table of error inspectors '
    'and parameterless functions; (C07.2) aggregating functions: an error value among the arguments of a '
    'var-positional parameter or inside an array argument is the result (IS*/COUNT family and CHOOSE excepted) - '
    'known finding F13 for SUM, AVERAGE, MIN, MAX, NPV, CONCAT, CONCATENATE; (C07.3) the twelve operators on every '
    'ordered pair of scalar operand kinds incl. hazardous ones (zero, negative, huge, non-numeric text, blank, '
    'boolean) end in a value or an Excel error value, never in a Python exception - known finding F14 for ^; '
    '(C07.4) ISERROR/ISERR/ISNA and ISNUMBER/ISTEXT/ISBLANK over real instances of the error-class lattice and the '
    'value classes, and over texts that merely spell an error code; (C07.5) the validate_args contract: arguments '
    'visited in signature order, an error argument returned before any conversion, conversion and call wrapped in '
    'handlers that return the raised ExcelError; (C07.6) operator nodes evaluate every operand on every evaluation '
    'and hand both values to the operator function; (C07.7) every validated function with scalar parameters only '
    'returns an error argument - that very object - at every position, the leftmost of two.'
    ' (C07.8) a witness workbook with the seven error codes as literals, cell values and results through operators, scalar functions, dependants and inspectors; (C07.3) additionally 28 odd texts (percent signs, exponents, underscores, inf/nan spellings) against four partners.'
    ' (C07.8) also chains of three to six operands with several errors, whole numbers beyond the range of a double, an error next to a blank under the ordering comparisons, typed constant cells under the inspectors.')
NOT_DECIDED = ('value-level "leftmost error" for nested expressions; every function x position x code combination '
               'beyond what C07.1/C07.2/C07.5 make structural')
TRUSTED = ['model of inspect.signature(...).bind: arguments in signature order', 'workbook scenarios: pandas storage of range arrays as row-major rows, numpy on Python numbers (IEEE results, 64-bit integer wrap), dateutil.parser.parse rejecting texts that are no dates, openpyxl address arithmetic, inspect.signature built from the FunctionDef']

UNVALIDATED_OK = {
    'ISERR': 'error inspector: must see error values',
    'ISERROR': 'error inspector: must see error values',
    'ISNA': 'error inspector: must see error values',
    'PI': 'no parameters',
    'NOW': 'no parameters',
    'TODAY': 'no parameters',
}


def rule_1(ctx):
    reg = ctx.a.registry
    for f in reg:
        refs = f.decorators
        reg_first = getattr(f, 'reg_first', None)
        if reg_first is None:
            reg_first = refs and refs[0] == 'pkg:xlfunctions.xl:register'
        if f.name in UNVALIDATED_OK:
            no_params = not f.params
            inspector = f.name.startswith('IS')
            ctx.expect(no_params or inspector, f.node, f'{f.name} exempt from validate_args',
                       f'{f.name} is exempt as "{UNVALIDATED_OK[f.name]}" but now has parameters')
            continue
        ctx.expect(f.validated and reg_first, f.node, f'{f.name} registered through validate_args',
                   f'{f.name} is stored in the function table without the validate_args wrapper'
                   f'{" (register is not the outermost decorator)" if f.validated else ""}: an error argument is not '
                   'propagated and arguments are not coerced')
    ctx.floor(121, 'registered functions')


# (module, qualname, ordinal of swallowing handler in the function) -> (triage, reason)
SWALLOW_TRIAGE = {
    ('xlfunctions.xl', '_safe_validate', 0): ('reachable', 'items of var-positional / Tuple[...] parameters and range cells that are error values are dropped: SUM(1,#N/A) gives 1, 10/0&"x" gives "x"'),
    ('xlfunctions.xl', '_validate', 0): ('conversion', 'Union member attempt; an error argument is returned by validate_args before'),
    ('xlfunctions.func_xltypes', '_safe_cast', 0): ('reachable', 'cells of ranges that are error values are replaced by the empty value in Array.flatten/cast_to_*: XNPV/XIRR/SUMIF ignore errors in ranges'),
    ('xlfunctions.func_xltypes', '_convert_nested_list', 0): ('conversion', 'cast_from_native returns error values unchanged; the handler only covers unknown native types'),
    ('xlfunctions.func_xltypes', 'Text.__number__', 0): ('conversion', 'attempts on the text of a Text value'),
    ('xlfunctions.func_xltypes', 'Text.__number__', 1): ('conversion', 'attempts on the text of a Text value'),
    ('xlfunctions.xlcriteria', 'parse_criteria', 0): ('conversion', 'attempts to type the operand text of a criterion'),
}


PARTIAL_OPS = (ast.Pow, ast.Div, ast.Mod, ast.FloorDiv)


def rule_2(ctx):
    """Aggregating functions as the evaluator calls them: an error value among the arguments of a var-positional parameter, or
    inside an array argument, is the result (the IS*/COUNT family and CHOOSE, which selects one argument, excepted)."""
    from . import values as V
    from xlsa.guards import ExcRaised

    def nodate(*a, **k):
        raise ExcRaised(Ref('builtin:ValueError'))
    models = {'ext:dateutil.parser.parse': nodate}
    models.update(V.numpy_models())
    exempt = {'COUNT', 'COUNTA', 'CHOOSE', 'ISERROR', 'ISERR', 'ISNA', 'AND', 'OR', 'SUMIFS', 'COUNTIFS', 'SUMPRODUCT'}
    n = 0
    for f in ctx.a.registry:
        vp = [p for p in f.params if p.kind == 'varpos']
        if not vp or not f.validated or f.name in exempt:
            continue
        pos = [p for p in f.params if p.kind == 'pos' and p.default is None]
        for label, mk in (('an error among the arguments', lambda e: [V.num(2), e, V.num(3)]),
                          ('an error inside an array argument', lambda e: [V.array([[V.num(2), e]])])):
            err = V.error(ctx, 'NaExcelError')
            out = V.call(ctx, f.name, [V.num(1) for _ in pos] + mk(err), models=models)
            n += 1
            ctx.expect(out.end == 'return' and out.value is err, f.node, f'{f.name}: {label} is the result',
                       f'{f.name} called with {label} (#N/A) gives {out.end} {V.norm(out.value)!r}: the error is dropped or replaced on the way '
                       '(items of Tuple[...] parameters are converted one by one and failures and error values are filtered out)')
    ctx.floor(12, 'aggregating functions x (scalar item, array item)')


# texts that look a little like numbers, dates, percentages, booleans: operands of every scalar type never crash an operator
ODD_TEXTS = ['n/a%', '%', '5%', '5%%', '1e', '1e5e', '1_000', 'inf', '-inf', 'nan', ' 7 ', '--1', '0x10', '1,5', '$5', '1/2', '1:30', 'abc %', 'e', '.',
             '-', '+', 'true ', 'T', '1 2', '\u0663', '1e999', '0' * 400]


def rule_3(ctx, only_ops=None):
    """The operators as the evaluator calls them (registered objects, value classes as written; numpy.power on objects = the
    class's own **) on every ordered pair of scalar operand kinds incl. the hazardous ones (zero, negative, huge, non-numeric
    text, blank, boolean): the outcome is a value or an Excel error value - never a Python-level exception."""
    from . import values as V
    from xlsa.guards import ExcRaised

    def nodate(*a, **k):
        raise ExcRaised(Ref('builtin:ValueError'))
    models = {'ext:dateutil.parser.parse': nodate}
    models.update(V.numpy_models())
    vals = [('3', V.num(3)), ('0', V.num(0)), ('-8', V.num(-8)), ('0.5', V.num(0.5)), ('-1', V.num(-1)), ('10.5', V.num(10.5)), ('400', V.num(400)),
            ('"3"', V.text('3')), ('"0.0"', V.text('0.0')), ('"x"', V.text('x')), ('""', V.text('')), ('TRUE', V.boolean(True)), ('FALSE', V.boolean(False)),
            ('blank', V.blank())]
    ops = [('OP_ADD', '+'), ('OP_SUB', '-'), ('OP_MUL', '*'), ('OP_DIV', '/'), ('POWER', '^'), ('CONCAT', '&'), ('OP_EQ', '='), ('OP_NE', '<>'),
           ('OP_LT', '<'), ('OP_LE', '<='), ('OP_GT', '>'), ('OP_GE', '>=')]
    if only_ops is not None:
        ops = [o for o in ops if o[0] in ('OP_DIV',)]
    for name, sym in ops:
        f = V.registered(ctx, name)
        raised = {}
        pairs = [((la, a), (lb, b)) for la, a in vals for lb, b in vals]
        partners = [vals[0], vals[9], vals[13], vals[11]]          # 3, "x", blank, TRUE
        odd = ODD_TEXTS if ctx.tier != 'quick' else ODD_TEXTS[::2]
        for t in odd:
            for pt in partners:
                pairs += [((f'"{t}"', V.text(t)), pt), (pt, (f'"{t}"', V.text(t)))]
        for (la, a), (lb, b) in pairs:
            if True:
                out = V.call(ctx, name, [a, b], models=models)
                bad = out.end == 'raise' or (out.end == 'return' and isinstance(out.value, complex))
                if bad:
                    kind = out.value.ref.rpartition(':')[2] if isinstance(out.value, Ref) else type(out.value).__name__
                    raised.setdefault(kind, []).append(f'{la}{sym}{lb}')
        if name == 'POWER':
            # one obligation per kind of failure, so that a known one does not hide another
            for kind in ('ZeroDivisionError', 'OverflowError', 'complex', 'TypeError', 'ValueError', 'AttributeError'):
                ctx.expect(kind not in raised, f.node, f'^ never ends in {kind}',
                           f'{", ".join(raised.get(kind, [])[:5])} end{"s" if len(raised.get(kind, [])) == 1 else ""} in a Python-level {kind} instead '
                           'of a value or an Excel error value (0^-1 is #DIV/0!, 10.5^400 and (-8)^0.5 are #NUM! in Excel)')
            other = {k: v for k, v in raised.items() if k not in ('ZeroDivisionError', 'OverflowError', 'complex', 'TypeError', 'ValueError', 'AttributeError')}
            ctx.expect(not other, f.node, '^ never ends in another Python exception', f'{other}')
        else:
            ctx.expect(not raised, f.node, f'{sym} never ends in a Python exception',
                       '; '.join(f'{k}: {", ".join(v[:4])}' for k, v in raised.items()) + ' - operators must return a value or an Excel error value '
                       'for operands of every scalar type')
    ctx.floor(1 if only_ops is not None else 12, 'operators x operand kinds')


def _err_lattice(ctx):
    xm = ctx.mod('xlfunctions.xlerrors')
    classes = []
    for qual in xm.classes:
        ref = XLERR + qual
        if is_excel_error_ref(ctx, ref):
            classes.append(ref)
    return classes


def rule_4(ctx):
    im = ctx.mod('xlfunctions.information')
    errs = _err_lattice(ctx)
    if len(errs) < 9:
        raise AnchorMissing(f'error class lattice has {len(errs)} classes')
    NA = XLERR + 'NaExcelError'
    value_classes = [XLT + c for c in ('Number', 'Text', 'Boolean', 'DateTime', 'Blank')]

    def isinst(val, refs):
        refs = refs if isinstance(refs, tuple) else (refs,)
        if not isinstance(val, Rec):
            return False
        return any(r and ctx.res.is_subclass(val.get('cls'), r) for r in refs)

    oracle = {
        'ISERROR': lambda c: True,
        'ISERR': lambda c: not ctx.res.is_subclass(c, NA),
        'ISNA': lambda c: ctx.res.is_subclass(c, NA),
    }
    def instance(c):
        """An instance as the library builds it: errors carry the code of their class, values a payload of their kind."""
        if c in errs:
            cm_, code = ctx.res.class_attr(c, 'value')
            try:
                code = ctx.fold(code, cm_) if code is not None else '#ERR'
            except Exception:
                code = '#ERR'
            return Rec(cls=c, value=code if isinstance(code, str) else '#ERR', info='witness', args=('witness',))
        payload = {'Number': 1, 'Text': 'abc', 'Boolean': True, 'DateTime': 1, 'Blank': None}[c.split(':')[-1]]
        return Rec(cls=c, value=payload)
    codes = ctx.fold(ctx.mod('xlfunctions.xlerrors').assign('ERROR_CODES'), ctx.mod('xlfunctions.xlerrors'))
    for name, want in oracle.items():
        fn = im.func(name)
        p = func_params(fn)[0]
        for c in errs + value_classes:
            it = Interp(ctx.a, im, {p: instance(c)}, isinstance_fn=isinst, inline_pkg=True)
            out = it.run(fn.body)
            got = out.value if out.end == 'return' else f'<{out.end}>'
            if isinstance(got, Rec) and 'value' in got.f:
                got = got.f['value']
            w = want(c) if c in errs else False
            ctx.expect(got is w or got == w, fn, f'{name}({c.split(":")[-1]})',
                       f'{name} returns {got!r} for a {c.split(":")[-1]} value, expected {w}')
        # a TEXT that merely spells an error code is no error
        for code in codes:
            it = Interp(ctx.a, im, {p: Rec(cls=XLT + 'Text', value=code)}, isinstance_fn=isinst, inline_pkg=True)
            out = it.run(fn.body)
            got = out.value if out.end == 'return' else f'<{out.end}>'
            if isinstance(got, Rec) and 'value' in got.f:
                got = got.f['value']
            ctx.expect(got is False or got == False, fn, f'{name}(text spelled like the error code {code})',  # noqa: E712
                       f'{name} returns {got!r} for the TEXT value "{code}": only error values are errors, a text cell that happens '
                       'to read like an error code is a text (ISTEXT is TRUE for it)')
    na = im.func('NA')
    r = last_return(na)
    ok = r is not None and isinstance(r.value, ast.Call) and ctx.res.resolve(r.value.func, im) == NA
    ctx.expect(ok, na, 'NA() yields #N/A', 'NA() does not return a NaExcelError')
    type_oracle = {'ISNUMBER': XLT + 'Number', 'ISTEXT': XLT + 'Text'}
    for name, cls in type_oracle.items():
        fn = im.func(name)
        p = func_params(fn)[0]
        for c in value_classes:
            it = Interp(ctx.a, im, {p: Rec(cls=c, value=1)}, isinstance_fn=isinst)
            out = it.run(fn.body)
            w = ctx.res.is_subclass(c, cls)
            ctx.expect(out.value == w, fn, f'{name}({c.split(":")[-1]})',
                       f'{name} returns {out.value!r} for a {c.split(":")[-1]}, expected {w}')
    fn = im.func('ISBLANK')
    p = func_params(fn)[0]
    for c, val, w in ((XLT + 'Blank', None, True), (XLT + 'Number', 0, False), (XLT + 'Number', 5, False),
                      (XLT + 'Text', 'a', False), (XLT + 'Boolean', False, False)):
        it = Interp(ctx.a, im, {p: Rec(cls=c, value=val)}, isinstance_fn=isinst)
        out = it.run(fn.body)
        ctx.expect(out.value == w, fn, f'ISBLANK({c.split(":")[-1]} {val!r})',
                   f'ISBLANK returns {out.value!r} for {c.split(":")[-1]}({val!r}), expected {w}')
    ctx.floor(76, 'inspector x class lattice')


class _Sig(PyModel):
    def __init__(self, names):
        self.names = names
        self.parameters = {n: _Ann(f'annotation of {n}') for n in names}
        self.return_annotation = _Ann('return annotation')

    def bind(self, *args, **kw):
        b = _Bound()
        b.arguments = dict(zip(self.names, args))
        b.arguments.update(kw)
        return b


class _Ann(PyModel):
    def __init__(self, label):
        self.annotation = self
        self.label = label


class _Bound(PyModel):
    arguments = None

    @property
    def args(self):
        return tuple(self.arguments.values())

    @property
    def kwargs(self):
        return {}


def rule_5(ctx):
    """Contract of the validate_args wrapper, decided by partially evaluating it on abstract arguments: the leftmost error
    (an error value or a failed conversion) is the result and the function is not called; otherwise the function is called
    once with the converted arguments and an ExcelError it raises becomes the result."""
    from xlsa.guards import ExcRaised
    xm = ctx.mod('xlfunctions.xl')
    va = xm.func('validate_args')
    inner = [f for q, f in xm.funcs.items() if q.startswith('validate_args.') and isinstance(f._parent, ast.FunctionDef)]
    if len(inner) != 1:
        raise AnchorMissing('validate_args inner wrapper')
    w = inner[0]
    fparam = func_params(va)[0]
    E = XLERR + 'ExcelError'

    def err(label, cls='DivZeroExcelError'):
        return Rec(cls=XLERR + cls, value=label, label=label)

    def isinst(val, refs):
        refs = refs if isinstance(refs, tuple) else (refs,)
        cls = val.f.get('cls') if isinstance(val, Rec) else (val.ref if isinstance(val, Ref) else None)
        return bool(cls) and any(r and ctx.res.is_subclass(cls, r) for r in refs)

    def run(argvals, func_behaviour='ok'):
        calls = {'func': [], 'validate': []}

        def validate(ann, val, name):
            calls['validate'].append((getattr(ann, 'label', ann), val))
            if val == 'bad':
                raise ExcRaised(err(f'conversion of {name} failed', 'ValueExcelError'))
            if isinstance(val, str) and val.startswith('raw'):
                return 'converted ' + val
            return val

        class _F(PyModel):
            def __call__(self, *a, **k):
                calls['func'].append(a)
                if func_behaviour == 'raise':
                    raise ExcRaised(err('raised by the function', 'NumExcelError'))
                return 'result'
        names = [f'p{i}' for i in range(len(argvals))]
        wa = w.args
        env = {fparam: _F()}
        if wa.vararg:
            env[wa.vararg.arg] = tuple(argvals)
        if wa.kwarg:
            env[wa.kwarg.arg] = {}
        it = Interp(ctx.a, xm, env, isinstance_fn=isinst, inline_pkg=True, scope_fn=w,
                    call_models={'ext:inspect.signature': lambda f: _Sig(names), 'pkg:xlfunctions.xl:_validate': validate})
        out = it.run(w.body)
        return out, calls
    e1, e2 = err('E1'), err('E2', 'NaExcelError')
    try:
        out, calls = run(['raw a', e1, e2])
        ctx.expect(out.end == 'return' and out.value is e1 and not calls['func'], w, 'the leftmost error argument is the result',
                   f'f(a, E1, E2) yields {getattr(out.value, "f", {}).get("label", out.value)!r} and calls the function {len(calls["func"])} time(s): the '
                   'leftmost error argument must be returned without calling the function')
        out, calls = run([e2, 'raw a', e1])
        ctx.expect(out.end == 'return' and out.value is e2, w, 'an error in the first position wins',
                   f'f(E2, a, E1) yields {getattr(out.value, "f", {}).get("label", out.value)!r}')
        out, calls = run(['bad', e1])
        ctx.expect(out.end == 'return' and isinstance(out.value, Rec) and out.value.f.get('label') == 'conversion of p0 failed' and not calls['func'],
                   w, 'a failed conversion left of an error argument is the result',
                   f'f(<unconvertible>, E1) yields {getattr(out.value, "f", {}).get("label", out.value)!r}: arguments are not processed left to right')
        out, calls = run([e1, 'bad'])
        ctx.expect(out.end == 'return' and out.value is e1, w, 'an error argument left of a failed conversion is the result',
                   f'f(E1, <unconvertible>) yields {getattr(out.value, "f", {}).get("label", out.value)!r}')
        out, calls = run(['raw a', 'raw b'])
        ok = out.end == 'return' and calls['func'] == [('converted raw a', 'converted raw b')]
        ctx.expect(ok, w, 'the function is called once with the converted arguments in order',
                   f'f(a, b) calls the function with {calls["func"]}')
        ok = out.end == 'return' and ('return annotation', 'result') in calls['validate'] and out.value == 'result'
        ctx.expect(ok, w, 'the result is converted with the return annotation', f'the result {out.value!r} is not passed through the return annotation')
        out, calls = run(['raw a'], 'raise')
        ok = out.end == 'return' and isinstance(out.value, Rec) and out.value.f.get('label') == 'raised by the function'
        ctx.expect(ok, w, 'an ExcelError raised by the function is returned',
                   f'an ExcelError raised inside the function ends in {out.end} {out.value!r} instead of becoming the result')
        # an error argument must be returned even for a parameter whose annotation has no cast
        out, calls = run([e1])
        seen_by_validate = any(v is e1 for _, v in calls['validate'])
        ctx.expect(out.value is e1 and not seen_by_validate, w, 'error argument returned before any conversion',
                   'an error argument is handed to the conversion step instead of being returned first: for a parameter without a cast '
                   '(class annotation, no annotation) the error is not propagated')
    except Unmodelled as exc:
        raise Unmodelled(f'validate_args wrapper: {exc}')
    ctx.floor(8, 'wrapper contract obligations')


def rule_6(ctx):
    """An error operand can only become the result if the operand is evaluated and handed to the operator function:
    operator nodes evaluate both operands on every evaluation (no value-dependent shortcut, no kept result)."""
    from . import corelemma
    corelemma.rule_operator_nodes(ctx)
    ctx.floor(10, 'operator-node witnesses')


def rule_7(ctx):
    """Every validated registered function with scalar parameters only, called the way the evaluator calls it (validate_args as
    written): an error value at any argument position is the result - that very error -, the leftmost one when two are given."""
    from . import values as V
    from xlsa.guards import ExcRaised

    def nodate(*a, **k):
        raise ExcRaised(Ref('builtin:ValueError'))
    models = {'ext:dateutil.parser.parse': nodate}
    models.update(V.numpy_models())
    base = {'XlNumber': lambda: V.num(1), 'XlText': lambda: V.text('a'), 'XlBoolean': lambda: V.boolean(True), 'XlDateTime': lambda: V.num(40000),
            'XlAnything': lambda: V.num(1), 'Number': lambda: V.num(1), '': lambda: V.num(1)}
    n = 0
    for f in ctx.a.registry:
        if not f.validated:
            continue
        pos = [p for p in f.params if p.kind == 'pos']
        if not pos or len(pos) != len(f.params):
            continue
        kinds = [ast.unparse(p.annotation).rpartition('.')[2] if p.annotation is not None else '' for p in pos]
        if not all(k in base for k in kinds):
            continue
        wrong = []
        for code in ('NaExcelError', 'DivZeroExcelError'):
            for i, p in enumerate(pos):
                err = V.error(ctx, code)
                args = [base[k]() for k in kinds]
                args[i] = err
                out = V.call(ctx, f.name, args, models=models)
                if not (out.end == 'return' and out.value is err):
                    wrong.append(f'{code} as {p.name}: {out.end} {V.norm(out.value)!r}')
        if len(pos) >= 2:
            e1, e2 = V.error(ctx, 'NumExcelError'), V.error(ctx, 'RefExcelError')
            args = [base[k]() for k in kinds]
            args[0], args[-1] = e1, e2
            out = V.call(ctx, f.name, args, models=models)
            if not (out.end == 'return' and out.value is e1):
                wrong.append(f'#NUM! first and #REF! last: {out.end} {V.norm(out.value)!r} instead of the leftmost error')
        n += 1
        ctx.expect(not wrong, f.node, f'{f.name}: an error argument is the result',
                   f'{f.name} called with an error value does not return it: ' + '; '.join(wrong[:3]))
    ctx.floor(60, 'scalar registered functions')


def rule_8(ctx):
    """A whole witness workbook, interpreted as written: each of the seven error codes written as a literal, produced by a
    formula or stored in a cell is that error value; it propagates through operators (leftmost first), scalar functions and
    dependent cells; the error inspectors report it."""
    from . import workbook as W
    from . import scenarios as S
    anchor = ctx.mod('evaluator').func('Evaluator.evaluate')
    codes = ['#NULL!', '#DIV/0!', '#VALUE!', '#REF!', '#NAME?', '#NUM!', '#N/A']
    cells = {}
    want = {}
    for i, code in enumerate(codes, start=1):
        other = codes[i % 7]
        cells.update({f'A{i}': f'={code}', f'B{i}': f'=A{i}+1', f'C{i}': f'=1-{code}', f'D{i}': f'=ABS({code})*2', f'E{i}': f'=ISERROR({code})',
                      f'F{i}': f'={code}*{other}', f'G{i}': f'=IF(ISERR(A{i}),1,2)', f'H{i}': f'=ROUND(B{i},1)+3', f'I{i}': f'=ISNA(C{i})',
                      f'J{i}': f'={other}-A{i}', f'K{i}': f'=IF(ISERROR(B{i}),"caught",B{i})', f'L{i}': f'=-A{i}', f'M{i}': f'=A{i}>=1'})
        # chains: the leftmost error wins wherever it stands in the chain and whatever comes after it
        cells.update({f'N{i}': f'=1+A{i}+{other}', f'O{i}': f'=2*{code}*5*{other}', f'P{i}': f'=1-A{i}-{other}', f'Q{i}': f'=8/{code}/{other}',
                      f'R{i}': f'=1+{code}*2+{other}', f'S{i}': f'=3+5+A{i}+2+{other}+{codes[(i + 1) % 7]}', f'T{i}': f'=2*3*A{i}*{other}*1'})
        # an error next to a blank under the ordering comparisons (ZZ1, ZZ2 are cells the workbook does not hold)
        cells.update({f'AA{i}': f'=A{i}>ZZ1', f'AB{i}': f'=ZZ1<=A{i}', f'AC{i}': f'={code}<ZZ2', f'AD{i}': f'=ZZ2>={code}', f'AE{i}': f'=A{i}=ZZ1'})
        err = ('error', code)
        want.update({f'{c}{i}': err for c in 'NOPQRST'})
        want.update({f'A{c}{i}': err for c in 'ABCD'})
        want.update({f'A{i}': err, f'B{i}': err, f'C{i}': err, f'D{i}': err, f'E{i}': ('Boolean', True), f'F{i}': err,
                     f'G{i}': ('Number', 2 if code == '#N/A' else 1), f'H{i}': err, f'I{i}': ('Boolean', code == '#N/A'), f'J{i}': ('error', other),
                     f'K{i}': ('Text', 'caught'), f'L{i}': err, f'M{i}': err})
    # whole numbers beyond the range of a double are values like any other: stored, handed on, inspected
    big = {'U1': ('=2^1024', 2 ** 1024), 'U2': ('=2^1023*2', 2 ** 1024), 'U3': ('=10^308*10', 10 ** 309), 'U4': ('=-(2^1500)', -2 ** 1500),
           'U5': ('=1-2^1100', 1 - 2 ** 1100), 'U6': ('=2^1024-2^1024', 0), 'U7': ('=2^1023', 2 ** 1023)}
    for a, (f, v) in big.items():
        i = a[1:]
        cells.update({a: f, f'V{i}': f'={a}+1', f'W{i}': f'={a}>0', f'X{i}': f'=ISNUMBER({a})', f'Y{i}': f'=ISERROR({a})'})
        want.update({a: ('Number', v), f'V{i}': ('Number', v + 1), f'W{i}': ('Boolean', v > 0), f'X{i}': ('Boolean', True), f'Y{i}': ('Boolean', False)})
    # the inspectors report the type of what a CELL holds: booleans, numbers equal to them, texts, blanks
    cells.update({'BA1': True, 'BA2': False, 'BA3': 1, 'BA4': 0.0, 'BA5': 'TRUE', 'BB1': '=ISNUMBER(BA1)', 'BB2': '=ISTEXT(BA2)', 'BB3': '=BA1', 'BB4': '=ISBLANK(BA2)',
                  'BB5': '=ISNUMBER(BA2)', 'BB6': '=ISNUMBER(BA3)', 'BB7': '=ISNUMBER(BA4)', 'BB8': '=ISTEXT(BA5)', 'BB9': '=BA2', 'BB10': '=ISBLANK(BA9)', 'BB11': '=BA3',
                  'BB12': '=ISNUMBER(BA5)', 'BB13': '=ISERROR(BA1)'})
    want.update({'BB1': ('Boolean', False), 'BB2': ('Boolean', False), 'BB3': ('Boolean', True), 'BB4': ('Boolean', False), 'BB5': ('Boolean', False),
                 'BB6': ('Boolean', True), 'BB7': ('Boolean', True), 'BB8': ('Boolean', True), 'BB9': ('Boolean', False), 'BB10': ('Boolean', True), 'BB11': ('Number', 1),
                 'BB12': ('Boolean', False), 'BB13': ('Boolean', False)})
    # the same non-numeric texts coerced again and again (dependants, repeated formulas) stay #VALUE!
    cells.update({'CA1': '=2+"12abc"', 'CA2': '=2*"3 apples"', 'CA3': '=CA1', 'CA4': '=-"Q4b"', 'CA5': '=2+"12abc"', 'CA6': '="3 apples"-1', 'CA7': '=CA2+CA5',
                  'CA8': '=ISERROR(2+"12abc")', 'CA9': '=-"Q4b"'})
    want.update({f'CA{i}': ('error', '#VALUE!') for i in (1, 2, 3, 4, 5, 6, 7, 9)})
    want['CA8'] = ('Boolean', True)
    wb = W.Workbook(ctx, cells)
    n = 0
    for a, w in want.items():
        got = wb.value('Sheet1!' + a)
        if isinstance(got, tuple) and got and got[0] == 'error-class':
            got = ('error', W.error_code(ctx, got[1]))
        if isinstance(got, bool):
            got = ('Boolean', got)          # the inspectors answer with a native truth value
        n += 1
        ctx.expect(got == w, anchor, f'error values in a workbook: {cells[a]}' + (f' with A{a[1:]} = {cells["A" + a[1:]]}' if 'A' + a[1:] in cells[a] else ''),
                   f'{a} = {cells[a]} evaluates to {got!r}, expected {w!r}: an Excel error is a value - written as a literal, stored in a cell or '
                   'produced by a formula it propagates (leftmost first) through operators, functions and dependent cells, and only the inspectors '
                   'and IFERROR look at it')
    # an error value put into an input cell through the API is that error for every formula that reads the cell
    for code in codes:
        wbe = W.Workbook(ctx, {'B1': 1, 'C1': '=B1+1', 'C2': '=B1>1', 'C3': '=ISERROR(B1)', 'C4': '=ISNA(B1)', 'C5': '=C1+1', 'C6': '=IF(ISERROR(B1),"e","v")'})
        wbe.value('Sheet1!C1')
        from . import values as V
        shorts = [q for q in ctx.mod('xlfunctions.xlerrors').classes if q.endswith('ExcelError') and q != 'ExcelError']
        inst = next((V.error(ctx, q) for q in shorts if V.error(ctx, q).f.get('value') == code), None)
        if inst is None:
            raise Unmodelled(f'no error class with the code {code}')
        out = wbe._run(ctx.mod('evaluator'), {'e': wbe.evaluator(), 'x': inst}, 'return e.set_cell_value("Sheet1!B1", x)')
        if out.end != 'return':
            raise Unmodelled(f'set_cell_value with an error instance ends in {out.end} {out.value!r}')
        err = ('error', code)
        for a, w in (('C1', err), ('C2', err), ('C3', ('Boolean', True)), ('C4', ('Boolean', code == '#N/A')), ('C5', err), ('C6', ('Text', 'e'))):
            got = wbe.value('Sheet1!' + a)
            if isinstance(got, tuple) and got and got[0] == 'error-class':
                got = ('error', W.error_code(ctx, got[1]))
            if isinstance(got, bool):
                got = ('Boolean', got)
            n += 1
            ctx.expect(got == w, anchor, f'{code} set into an input cell through set_cell_value: {a}',
                       f'after set_cell_value("Sheet1!B1", the error value {code}), {a} evaluates to {got!r}, expected {w!r}: an error is a value wherever it comes from')
    ctx.floor(250, 'error cells')


RULES = [
    ('C07.1', 'registration discipline', rule_1),
    ('C07.2', 'no error value reaches a swallowing handler', rule_2),
    ('C07.3', 'operators cannot raise Python exceptions', rule_3),
    ('C07.4', 'error/type inspectors: decision tables over the class lattice', rule_4),
    ('C07.5', 'validate_args contract', rule_5),
    ('C07.6', 'operator nodes evaluate every operand and apply the operator function to the values', rule_6),
    ('C07.7', 'error arguments of scalar functions are returned (through the registered wrapper), leftmost first', rule_7),
    ('C07.8', 'whole witness workbook: the seven error codes as literals, cell values and results', rule_8),
]
