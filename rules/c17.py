"""C17 - text functions agree with 1-based string reference semantics (structural part)."""
import ast

from xlsa import Unmodelled, AnchorMissing
from xlsa.consteval import Ref, Obj, Unfoldable
from xlsa.guards import Interp, Rec, PyModel, Opaque
from xlsa.load import walk_local, names_in, dotted
from xlsa import flow
from .common import func_params, value_returns, last_return, XLERR, XLT, raise_class, is_excel_error_ref, Lin, linear

PROPERTY = 'C17'
EXPLANATION = (
    'Decided from source: (C17.1) index forms: the slices of LEFT, RIGHT, MID and REPLACE and the search start of FIND as affine '
    'forms over (length, position, count): LEFT s[0:n], RIGHT s[L-n:L], MID s[p-1:p-1+k], REPLACE positional (s[:p-1]+t+s[p-1+k:], '
    'not a content-based str.replace), FIND searches from p-1 and returns index+1; (C17.2) bounds guards: the raise/no-raise '
    'decision of every text function over a grid of (text length, pattern length, position, count) realised by unary strings: '
    'positions < 1 and negative counts must give an Excel error, every valid combination must not (a guard may not reject a '
    'feasible search); (C17.3) numeric parameters are coerced (shares C08.1) and the text form of a number/boolean is plain str() '
    'of its value (no format spec, no rounding); (C17.4) simple maps: UPPER/LOWER/LEN/EXACT/TRIM/CONCATENATE shapes.')
NOT_DECIDED = 'the algebraic identities over all texts; the exact TRIM specification'
TRUSTED = ['Python slice clipping semantics']


def _reg(ctx, name):
    for f in ctx.a.registry:
        if f.name == name:
            return f
    raise AnchorMissing(f'registered function {name}')


def _local_env(fn, params):
    """Affine environment: each numeric parameter a variable; locals through int()/±const assignments."""
    env = {p: Lin.var(p) for p in params}
    for a in walk_local(fn):
        if isinstance(a, ast.Assign) and len(a.targets) == 1 and isinstance(a.targets[0], ast.Name):
            try:
                env[a.targets[0].id + "'" if False else a.targets[0].id] = linear(a.value, dict(env))
            except Unmodelled:
                pass
    return env


def _slices(fn):
    return [s for s in walk_local(fn) if isinstance(s, ast.Subscript) and isinstance(s.slice, ast.Slice)]


def _lin_or_none(node, env):
    if node is None:
        return None
    try:
        return linear(node, env)
    except Unmodelled:
        return 'nonlinear'


def rule_1(ctx):
    # LEFT
    f = _reg(ctx, 'LEFT')
    p = func_params(f.node)
    sl = _slices(f.node)
    ok = len(sl) == 1
    if ok:
        env = {p[1]: Lin.var('n')}
        lo, hi = _lin_or_none(sl[0].slice.lower, env), _lin_or_none(sl[0].slice.upper, env)
        ok = (lo is None or lo == Lin(0)) and hi == Lin.var('n') and sl[0].slice.step is None
    ctx.expect(ok, f.node, 'LEFT = s[0:n]', 'LEFT does not take the first n characters s[0:n]')
    # RIGHT
    f = _reg(ctx, 'RIGHT')
    p = func_params(f.node)
    sl = _slices(f.node)
    ok = False
    why = 'RIGHT does not slice its text once'
    if len(sl) == 1:
        env = {p[1]: Lin.var('n'), 'L': Lin.var('L')}
        s = sl[0].slice
        lo_node = s.lower
        # len(text) - n  form
        def lenform(node):
            try:
                return linear(node, {p[1]: Lin.var('n')}, transparent_calls=('int', 'float'))
            except Unmodelled:
                if isinstance(node, ast.BinOp) and isinstance(node.op, ast.Sub) and isinstance(node.left, ast.Call) \
                        and isinstance(node.left.func, ast.Name) and node.left.func.id == 'len':
                    try:
                        return Lin.var('L') - linear(node.right, {p[1]: Lin.var('n')})
                    except Unmodelled:
                        return 'nonlinear'
                return 'nonlinear'
        lo = lenform(lo_node) if lo_node is not None else None
        if lo == Lin.var('L') - Lin.var('n') and s.upper is None:
            ok = True
        elif lo == -Lin.var('n'):
            why = ('RIGHT slices s[-n:]: for n = 0 the lower bound -0 is 0 and the whole text is returned '
                   '(RIGHT("abc",0) = "abc" instead of ""); the reference form is s[L-n:L]')
            guard0 = any(isinstance(c.test, ast.Compare) and p[1] in names_in(c.test) for c in flow.path_conditions(sl[0])
                         if c.kind in ('guard', 'if'))
            ok = guard0
        else:
            why = f'RIGHT slices from `{ast.unparse(lo_node) if lo_node else None}`'
    ctx.expect(ok, f.node, 'RIGHT = s[L-n:L]', why)
    # MID
    f = _reg(ctx, 'MID')
    p = func_params(f.node)
    sl = [s for s in _slices(f.node) if not isinstance(s._parent, ast.FormattedValue)]
    env = _local_env(f.node, [p[1], p[2]])
    ok = False
    for s in sl:
        lo, hi = _lin_or_none(s.slice.lower, env), _lin_or_none(s.slice.upper, env)
        if lo == Lin.var(p[1]) - Lin(1) and hi == Lin.var(p[1]) - Lin(1) + Lin.var(p[2]):
            ok = True
    ctx.expect(ok, f.node, 'MID = s[p-1:p-1+k]', 'MID does not return s[p-1:p-1+k] for the 1-based start p and count k')
    # REPLACE
    f = _reg(ctx, 'REPLACE')
    p = func_params(f.node)
    content = [c for c in flow.calls_in(f.node) if isinstance(c.func, ast.Attribute) and c.func.attr in ('replace', 'sub')]
    env = _local_env(f.node, [p[1], p[2]])
    sl = _slices(f.node)
    heads = [s for s in sl if s.slice.lower is None and _lin_or_none(s.slice.upper, env) == Lin.var(p[1]) - Lin(1)]
    tails = [s for s in sl if s.slice.upper is None and _lin_or_none(s.slice.lower, env) == Lin.var(p[1]) - Lin(1) + Lin.var(p[2])]
    positional = bool(heads) and bool(tails)
    ctx.expect(positional and not content, f.node, 'REPLACE is positional: s[:p-1] + t + s[p-1+k:]',
               'REPLACE cuts out s[p-1:p-1+k] and then calls str.replace with that substring: every occurrence of the substring is '
               'replaced, not the characters at the given position (REPLACE("abab",1,2,"x") = "xx" instead of "xab")'
               if content else 'REPLACE does not assemble s[:p-1] + new_text + s[p-1+k:]')
    # FIND
    f = _reg(ctx, 'FIND')
    p = func_params(f.node)
    idx = [c for c in flow.calls_in(f.node) if isinstance(c.func, ast.Attribute) and c.func.attr in ('index', 'find')]
    ok = len(idx) == 1 and len(idx[0].args) == 2
    if ok:
        par = idx[0]._parent
        ok = isinstance(par, ast.BinOp) and isinstance(par.op, ast.Add) and isinstance(par.right, ast.Constant) and par.right.value == 1
        # the start handed to index() is p-1 for p >= 1
        start = idx[0].args[1]
        dec = [a for a in walk_local(f.node) if isinstance(a, ast.Assign) and isinstance(a.targets[0], ast.Name)
               and isinstance(start, ast.Name) and a.targets[0].id == start.id and isinstance(a.value, ast.BinOp)
               and isinstance(a.value.op, ast.Sub) and isinstance(a.value.right, ast.Constant) and a.value.right.value == 1]
        ok = ok and bool(dec)
        searched = ast.unparse(idx[0].func.value)
        order_ok = names_in(idx[0].func.value) and names_in(idx[0].args[0])
    ctx.expect(ok, f.node, 'FIND = within.index(find, p-1) + 1', 'FIND does not search from p-1 and return the 0-based index + 1')
    if idx:
        deps = flow.Deps(f.node)
        recv = deps.params_reaching(idx[0].func.value)
        needle = deps.params_reaching(idx[0].args[0])
        ctx.expect(recv == {p[1]} and needle == {p[0]}, f.node, 'FIND searches find_text inside within_text',
                   f'FIND searches {sorted(needle)} inside {sorted(recv)}: haystack and needle are swapped')
        cs = any(isinstance(c.func, ast.Attribute) and c.func.attr in ('upper', 'lower', 'casefold') for c in flow.calls_in(f.node))
        ctx.expect(not cs, f.node, 'FIND is case-sensitive', 'FIND folds case before searching')
    ctx.floor(7, 'index forms')


class _Unary:
    """Inputs realised by unary strings: only lengths matter."""


def _run(ctx, f, env):
    def isinst(val, refs):
        refs = refs if isinstance(refs, tuple) else (refs,)
        if isinstance(val, Ref):
            return any(val.ref == r or (r == 'builtin:Exception') for r in refs)
        return False
    it = Interp(ctx.a, f.module, env, isinstance_fn=isinst, call_models={})
    return it.run(f.node.body)


def _is_xl_raise(ctx, out):
    return out.end == 'raise' and isinstance(out.value, Ref) and is_excel_error_ref(ctx, out.value.ref)


def rule_2(ctx):
    grid_L = range(0, 4)
    grid_p = range(-1, 5)
    grid_k = range(-1, 4)
    specs = {
        'LEFT': lambda L, n: ({'text': 'a' * L, 'num_chars': n}, n < 0),
        'RIGHT': lambda L, n: ({'text': 'a' * L, 'num_chars': n}, n < 0),
    }
    for name in ('LEFT', 'RIGHT'):
        f = _reg(ctx, name)
        p = func_params(f.node)
        no_err, false_err = [], []
        for L in grid_L:
            for n in grid_k:
                out = _run(ctx, f, {p[0]: 'a' * L, p[1]: n})
                raised = _is_xl_raise(ctx, out)
                if n < 0 and not raised:
                    no_err.append((L, n))
                if n >= 0 and out.end == 'raise':
                    false_err.append((L, n))
        ctx.expect(not no_err, f.node, f'{name}: negative count gives an Excel error',
                   f'{name}(text, n) with n < 0 is not rejected (first cases (len, n): {no_err[:3]}): {name}("abc",-1) returns a '
                   'truncated text instead of #VALUE!')
        ctx.expect(not false_err, f.node, f'{name}: valid counts are accepted', f'{name} rejects valid counts (len, n): {false_err[:4]}')
    f = _reg(ctx, 'MID')
    p = func_params(f.node)
    no_err, false_err = [], []
    for L in grid_L:
        for pos in grid_p:
            for k in grid_k:
                out = _run(ctx, f, {p[0]: 'a' * L, p[1]: pos, p[2]: k})
                raised = _is_xl_raise(ctx, out)
                invalid = pos < 1 or k < 0
                if invalid and not raised:
                    no_err.append((L, pos, k))
                if not invalid and out.end == 'raise':
                    false_err.append((L, pos, k))
    ctx.expect(not no_err, f.node, 'MID: position < 1 or negative count gives an Excel error', f'MID accepts invalid (len, p, k): {no_err[:3]}')
    ctx.expect(not false_err, f.node, 'MID: valid positions and counts are accepted', f'MID rejects valid (len, p, k): {false_err[:4]}')
    f = _reg(ctx, 'REPLACE')
    p = func_params(f.node)
    no_err, false_err = [], []
    for L in grid_L:
        for pos in grid_p:
            for k in grid_k:
                out = _run(ctx, f, {p[0]: 'a' * L, p[1]: pos, p[2]: k, p[3]: 'b'})
                raised = _is_xl_raise(ctx, out)
                invalid = pos < 1 or k < 0
                if invalid and not raised:
                    no_err.append((L, pos, k))
                if not invalid and out.end == 'raise':
                    false_err.append((L, pos, k))
    ctx.expect(not no_err, f.node, 'REPLACE: position < 1 or negative count gives an Excel error',
               f'REPLACE accepts invalid (len, p, k) such as {no_err[:3]}: REPLACE("abcd",0,1,"x") returns "xaxbxcxdx"')
    ctx.expect(not false_err, f.node, 'REPLACE: valid positions and counts are accepted', f'REPLACE rejects valid (len, p, k): {false_err[:4]}')
    f = _reg(ctx, 'FIND')
    p = func_params(f.node)
    no_err, false_err = [], []
    for Ls in grid_L:
        for Lt in range(0, 4):
            for pos in grid_p:
                out = _run(ctx, f, {p[0]: 'a' * Lt, p[1]: 'a' * Ls, p[2]: pos})
                raised = _is_xl_raise(ctx, out)
                if out.end == 'raise' and not raised:
                    false_err.append((Ls, Lt, pos, str(out.value)))
                    continue
                if pos < 1:
                    # position 0 is the documented "omitted" default of this implementation
                    if pos < 0 and not raised:
                        no_err.append((Ls, Lt, pos))
                    continue
                feasible = (pos - 1) + Lt <= Ls
                if feasible and raised:
                    false_err.append((Ls, Lt, pos))
                if not feasible and not raised:
                    no_err.append((Ls, Lt, pos))
    ctx.expect(not no_err, f.node, 'FIND: start position < 1 / no occurrence gives an Excel error',
               f'FIND accepts (len within, len find, start) such as {no_err[:3]}: FIND("a","banana",-2) returns 6 instead of #VALUE!')
    ctx.expect(not false_err, f.node, 'FIND: every feasible search succeeds',
               f'FIND raises for feasible searches (len within, len find, start) {false_err[:4]}: an occurrence that ends exactly at '
               'the last character is not found')
    ctx.floor(10, 'bounds decisions of LEFT/RIGHT/MID/REPLACE/FIND')


def rule_3(ctx):
    from . import c08
    xm, node, table = c08._cast_table(ctx)
    text_mod = ctx.mod('xlfunctions.text')
    for f in ctx.a.registry:
        if f.module is not text_mod or not f.validated:
            continue
        for prm in f.params:
            if prm.annotation is None:
                continue
            bad = [ast.unparse(leaf) for leaf in c08._unfold(ctx, prm.annotation, f.module)
                   if ctx.res.resolve(leaf, f.module) not in table]
            ctx.expect(not bad, prm.node, f'{f.name}.{prm.name} is coerced',
                       f'{f.name}({prm.name}: {ast.unparse(prm.annotation)}) is annotated with the value class, not the coercing alias: '
                       f'numeric text / booleans / blanks passed for {prm.name} are not converted (MID("abc","x",1) raises ValueError)')
    # text form of numbers and booleans: plain str(value)
    fm = ctx.mod('xlfunctions.func_xltypes')
    for cname in ('Number', 'Boolean', 'DateTime'):
        cm, fn = ctx.res.class_attr(XLT + cname, '__Text__')
        rets = value_returns(fn) if isinstance(fn, ast.FunctionDef) else []
        r = next((x for x in rets if ast.unparse(x.value) not in ('Text(self.__str__())', 'Text(str(self))', 'Text(str(self.value))')),
                 rets[0] if rets else None)
        ok = bool(rets) and all(ast.unparse(x.value) in ('Text(self.__str__())', 'Text(str(self))', 'Text(str(self.value))') for x in rets)
        ctx.expect(ok, fn if fn is not None else fm.cls(cname), f'{cname}.__Text__ = Text(str(value))',
                   f'{cname} converts to text with `{ast.unparse(r.value) if r else "?"}`: the text form must be the plain str() of the '
                   'value, without format specification or rounding (LEN(3.14159265) must be 10)')
        cm2, sfn = ctx.res.class_attr(XLT + cname, '__str__')
        rets2 = value_returns(sfn) if isinstance(sfn, ast.FunctionDef) else []
        r2 = next((x for x in rets2 if ast.unparse(x.value) != 'str(self.value)'), rets2[0] if rets2 else None)
        ok2 = bool(rets2) and all(ast.unparse(x.value) == 'str(self.value)' for x in rets2)
        ctx.expect(ok2, sfn if sfn is not None else fm.cls(cname), f'{cname}.__str__ = str(self.value)',
                   f'{cname}.__str__ returns `{ast.unparse(r2.value) if r2 else "?"}`')
    tc = fm.func('ExcelType.cast')
    ctx.floor(20, 'text-function parameters + text forms')


def rule_4(ctx):
    shapes = {
        'UPPER': lambda r, p: ast.unparse(r.value) == f'str({p[0]}).upper()',
        'LOWER': lambda r, p: ast.unparse(r.value) == f'str({p[0]}).lower()',
        'LEN': lambda r, p: ast.unparse(r.value) == f'len(str({p[0]}))',
        'EXACT': lambda r, p: ast.unparse(r.value) in (f'str({p[0]}) == str({p[1]})', f'str({p[1]}) == str({p[0]})'),
        'TRIM': lambda r, p: ast.unparse(r.value).startswith(f'str({p[0]}).strip(') or 'split' in ast.unparse(r.value),
    }
    for name, pred in shapes.items():
        f = _reg(ctx, name)
        r = last_return(f.node)
        ok = r is not None and pred(r, func_params(f.node))
        ctx.expect(ok, f.node, f'{name} shape', f'{name} returns `{ast.unparse(r.value) if r else "?"}`')
    f = _reg(ctx, 'CONCATENATE')
    r = last_return(f.node)
    p = func_params(f.node)
    ok = r is not None and isinstance(r.value, ast.Call) and isinstance(r.value.func, ast.Name) and r.value.func.id == 'CONCAT'
    if ok:
        comp = r.value.args[0] if r.value.args else None
        ok = isinstance(comp, (ast.ListComp, ast.GeneratorExp, ast.Starred, ast.Name)) and p[0] in names_in(comp) and not any(
            isinstance(c, ast.Call) and isinstance(c.func, ast.Name) and c.func.id in ('sorted', 'reversed', 'set') for c in ast.walk(r.value))
    ctx.expect(ok, f.node, 'CONCATENATE delegates to CONCAT in argument order', 'CONCATENATE does not hand its arguments to CONCAT in order')
    ctx.floor(6, 'simple maps')


RULES = [
    ('C17.1', 'index forms of the slices (affine)', rule_1),
    ('C17.2', 'bounds decisions over the (length, position, count) grid', rule_2),
    ('C17.3', 'coercion of parameters; text form of numbers', rule_3),
    ('C17.4', 'simple maps', rule_4),
]
