"""C17 - text functions agree with 1-based string reference semantics (structural part)."""
import ast

from xlsa import Unmodelled, AnchorMissing
from xlsa.consteval import Ref, Obj, Unfoldable
from xlsa.guards import Interp, Rec, PyModel, Opaque
from xlsa.load import walk_local, names_in, dotted
from xlsa import flow
from .common import func_params, value_returns, last_return, XLERR, XLT, raise_class, is_excel_error_ref, Lin, linear

PROPERTY = 'C17'
EXPLANATION = (
    'Decided from source: (C17.1) index forms: the slices of LEFT, RIGHT, MID and REPLACE and the search start of FIND as affine '
    'forms over (length, position, count): LEFT s[0:n], RIGHT s[L-n:L], MID s[p-1:p-1+k], REPLACE positional (s[:p-1]+t+s[p-1+k:], '
    'not a content-based str.replace), FIND searches from p-1 and returns index+1; (C17.2) bounds guards: the raise/no-raise '
    'decision of every text function over a grid of (text length, pattern length, position, count) realised by unary strings: '
    'positions < 1 and negative counts must give an Excel error, every valid combination must not (a guard may not reject a '
    'feasible search); (C17.3) numeric parameters are coerced (shares C08.1) and the text form of a number/boolean is plain str() '
    'of its value (no format spec, no rounding); (C17.4) simple maps: UPPER/LOWER/LEN/EXACT/TRIM/CONCATENATE shapes.'
    ' (C17.5) text constants reach the functions with exactly their characters (shared with C02.10); (C17.1) one obligation per table row.'
    ' (C17.6) a witness workbook whose constant cells hold numbers, booleans and texts side by side: every text function of a constant equals what it gives with the constant alone in a workbook; 15 composition identities.'
    ' (C17.6) also text literals spelt like defined names, & chains of 260 operands, subjects outside the basic plane and texts that spell booleans.')
NOT_DECIDED = 'the algebraic identities over all texts; the exact TRIM specification'
TRUSTED = ['Python slice clipping semantics', 'workbook scenarios: pandas storage of range arrays as row-major rows, numpy on Python numbers (IEEE results, 64-bit integer wrap), dateutil.parser.parse rejecting texts that are no dates, openpyxl address arithmetic, inspect.signature built from the FunctionDef']


def _reg(ctx, name):
    for f in ctx.a.registry:
        if f.name == name:
            return f
    raise AnchorMissing(f'registered function {name}')


class _Out:
    def __init__(self, end, value):
        self.end, self.value = end, value


def _call_text(ctx, name, *args):
    """The text function as the evaluator calls it (registered wrapper and casts as written); the result reduced to its payload."""
    from . import values as V
    f = _reg(ctx, name)
    out = V.call(ctx, name, list(args))
    val = out.value
    if out.end == 'return' and isinstance(val, Rec) and 'value' in val.f and str(val.f.get('cls', '')).startswith(XLT):
        val = val.f['value']
    elif out.end == 'return' and isinstance(val, Rec) and str(val.f.get('cls', '')).startswith(XLERR):
        return f, _Out('raise', Ref(val.f['cls']))
    elif out.end == 'return' and isinstance(val, Ref) and val.ref.startswith(XLERR):
        return f, _Out('raise', val)
    return f, _Out(out.end, val)


def _table(ctx, name, construct, cases, why):
    f = _reg(ctx, name)
    for args, want in cases:
        try:
            f, out = _call_text(ctx, name, *args)
        except Unmodelled as exc:
            raise Unmodelled(f'{name}{args!r}: {exc}')
        got = out.value if out.end == 'return' else f'<{out.end} {out.value!r}>'
        # one obligation per row: a known wrong row must not hide another one
        ctx.expect(got == want, f.node, f'{construct}: {name}{args!r}',
                   f'{name}{args!r} gives {got!r}, expected {want!r}: ' + why)


def rule_1(ctx):
    """Index forms, decided on witness texts with distinct characters (so that every off-by-one is visible)."""
    _table(ctx, 'LEFT', 'LEFT = s[0:n]', [(('abcdef', 2), 'ab'), (('abcdef', 0), ''), (('abcdef', 6), 'abcdef'), (('abcdef', 9), 'abcdef'), (('abcdef',), 'a')],
           'LEFT takes the first n characters')
    _table(ctx, 'RIGHT', 'RIGHT = s[L-n:L]', [(('abcdef', 2), 'ef'), (('abcdef', 6), 'abcdef'), (('abcdef', 9), 'abcdef'), (('abcdef',), 'f'), (('abcdef', 0), '')],
           'RIGHT takes the last n characters; the slice s[-n:] returns the whole text for n = 0 (RIGHT("abc",0) = "abc" instead of "")')
    _table(ctx, 'MID', 'MID = s[p-1:p-1+k]', [(('abcdef', 2, 3), 'bcd'), (('abcdef', 1, 2), 'ab'), (('abcdef', 5, 10), 'ef'), (('abcdef', 7, 2), ''), (('abcdef', 3, 0), '')],
           'MID returns k characters starting at the 1-based position p')
    _table(ctx, 'REPLACE', 'REPLACE is positional: s[:p-1] + t + s[p-1+k:]',
           [(('abcdef', 3, 2, 'XY'), 'abXYef'), (('abcdef', 1, 0, 'X'), 'Xabcdef'), (('abcdef', 6, 5, 'Z'), 'abcdeZ'), (('abab', 1, 2, 'x'), 'xab'),
            (('aaaa', 2, 1, 'b'), 'abaa')],
           'REPLACE replaces the k characters at position p only; cutting the substring out and calling str.replace with it replaces every '
           'occurrence of that substring (REPLACE("abab",1,2,"x") = "xx" instead of "xab")')
    _table(ctx, 'FIND', 'FIND = within.index(find, p-1) + 1',
           [(('b', 'abcabc', 1), 2), (('b', 'abcabc', 2), 2), (('b', 'abcabc', 3), 5), (('a', 'abcabc', 1), 1), (('c', 'abcabc', 6), 6), (('bc', 'abcabc', 3), 5),
            (('abc', 'abc', 1), 1), (('b', 'abcabc'), 2)],
           'FIND returns the 1-based position of the first occurrence at or after the 1-based start')
    _table(ctx, 'FIND', 'FIND searches find_text inside within_text', [(('bc', 'abcd', 1), 2), (('d', 'abcd', 1), 4)], 'needle and haystack are swapped')
    _table(ctx, 'FIND', 'FIND is case-sensitive', [(('B', 'abcB', 1), 4), (('a', 'Aa', 1), 2)], 'FIND folds case before searching')
    ctx.floor(7, 'index forms')


def _run(ctx, f, env):
    def isinst(val, refs):
        refs = refs if isinstance(refs, tuple) else (refs,)
        if isinstance(val, Ref):
            return any(val.ref == r or (r == 'builtin:Exception') for r in refs)
        return False
    it = Interp(ctx.a, f.module, env, isinstance_fn=isinst, call_models={}, inline_pkg=True, scope_fn=f.node)
    return it.run(f.node.body)


def _is_xl_raise(ctx, out):
    return out.end == 'raise' and isinstance(out.value, Ref) and is_excel_error_ref(ctx, out.value.ref)


def rule_2(ctx):
    grid_L = range(0, 4)
    grid_p = range(-1, 5)
    grid_k = range(-1, 4)
    specs = {
        'LEFT': lambda L, n: ({'text': 'a' * L, 'num_chars': n}, n < 0),
        'RIGHT': lambda L, n: ({'text': 'a' * L, 'num_chars': n}, n < 0),
    }
    for name in ('LEFT', 'RIGHT'):
        f = _reg(ctx, name)
        p = func_params(f.node)
        no_err, false_err = [], []
        for L in grid_L:
            for n in grid_k:
                out = _run(ctx, f, {p[0]: 'a' * L, p[1]: n})
                raised = _is_xl_raise(ctx, out)
                if n < 0 and not raised:
                    no_err.append((L, n))
                if n >= 0 and out.end == 'raise':
                    false_err.append((L, n))
        ctx.expect(not no_err, f.node, f'{name}: negative count gives an Excel error',
                   f'{name}(text, n) with n < 0 is not rejected (first cases (len, n): {no_err[:3]}): {name}("abc",-1) returns a '
                   'truncated text instead of #VALUE!')
        ctx.expect(not false_err, f.node, f'{name}: valid counts are accepted', f'{name} rejects valid counts (len, n): {false_err[:4]}')
    f = _reg(ctx, 'MID')
    p = func_params(f.node)
    no_err, false_err = [], []
    for L in grid_L:
        for pos in grid_p:
            for k in grid_k:
                out = _run(ctx, f, {p[0]: 'a' * L, p[1]: pos, p[2]: k})
                raised = _is_xl_raise(ctx, out)
                invalid = pos < 1 or k < 0
                if invalid and not raised:
                    no_err.append((L, pos, k))
                if not invalid and out.end == 'raise':
                    false_err.append((L, pos, k))
    ctx.expect(not no_err, f.node, 'MID: position < 1 or negative count gives an Excel error', f'MID accepts invalid (len, p, k): {no_err[:3]}')
    ctx.expect(not false_err, f.node, 'MID: valid positions and counts are accepted', f'MID rejects valid (len, p, k): {false_err[:4]}')
    f = _reg(ctx, 'REPLACE')
    p = func_params(f.node)
    no_err, false_err = [], []
    for L in grid_L:
        for pos in grid_p:
            for k in grid_k:
                out = _run(ctx, f, {p[0]: 'a' * L, p[1]: pos, p[2]: k, p[3]: 'b'})
                raised = _is_xl_raise(ctx, out)
                invalid = pos < 1 or k < 0
                if invalid and not raised:
                    no_err.append((L, pos, k))
                if not invalid and out.end == 'raise':
                    false_err.append((L, pos, k))
    ctx.expect(not no_err, f.node, 'REPLACE: position < 1 or negative count gives an Excel error',
               f'REPLACE accepts invalid (len, p, k) such as {no_err[:3]}: REPLACE("abcd",0,1,"x") returns "xaxbxcxdx"')
    ctx.expect(not false_err, f.node, 'REPLACE: valid positions and counts are accepted', f'REPLACE rejects valid (len, p, k): {false_err[:4]}')
    f = _reg(ctx, 'FIND')
    p = func_params(f.node)
    no_err, false_err = [], []
    for Ls in grid_L:
        for Lt in range(0, 4):
            for pos in grid_p:
                out = _run(ctx, f, {p[0]: 'a' * Lt, p[1]: 'a' * Ls, p[2]: pos})
                raised = _is_xl_raise(ctx, out)
                if out.end == 'raise' and not raised:
                    false_err.append((Ls, Lt, pos, str(out.value)))
                    continue
                if pos < 1:
                    # position 0 is the documented "omitted" default of this implementation
                    if pos < 0 and not raised:
                        no_err.append((Ls, Lt, pos))
                    continue
                feasible = (pos - 1) + Lt <= Ls
                if feasible and raised:
                    false_err.append((Ls, Lt, pos))
                if not feasible and not raised:
                    no_err.append((Ls, Lt, pos))
    ctx.expect(not no_err, f.node, 'FIND: start position < 1 / no occurrence gives an Excel error',
               f'FIND accepts (len within, len find, start) such as {no_err[:3]}: FIND("a","banana",-2) returns 6 instead of #VALUE!')
    ctx.expect(not false_err, f.node, 'FIND: every feasible search succeeds',
               f'FIND raises for feasible searches (len within, len find, start) {false_err[:4]}: an occurrence that ends exactly at '
               'the last character is not found')
    ctx.floor(10, 'bounds decisions of LEFT/RIGHT/MID/REPLACE/FIND')


def rule_3(ctx):
    from . import c08
    xm, node, table = c08._cast_table(ctx)
    text_mod = ctx.mod('xlfunctions.text')
    for f in ctx.a.registry:
        if f.module is not text_mod or not f.validated:
            continue
        for prm in f.params:
            if prm.annotation is None:
                continue
            bad = [ast.unparse(leaf) for leaf in c08._unfold(ctx, prm.annotation, f.module)
                   if ctx.res.resolve(leaf, f.module) not in table]
            ctx.expect(not bad, prm.node, f'{f.name}.{prm.name} is coerced',
                       f'{f.name}({prm.name}: {ast.unparse(prm.annotation)}) is annotated with the value class, not the coercing alias: '
                       f'numeric text / booleans / blanks passed for {prm.name} are not converted (MID("abc","x",1) raises ValueError)')
    # text form of numbers and booleans: plain str(value)
    fm = ctx.mod('xlfunctions.func_xltypes')
    for cname in ('Number', 'Boolean', 'DateTime'):
        cm, fn = ctx.res.class_attr(XLT + cname, '__Text__')
        rets = value_returns(fn) if isinstance(fn, ast.FunctionDef) else []
        r = next((x for x in rets if ast.unparse(x.value) not in ('Text(self.__str__())', 'Text(str(self))', 'Text(str(self.value))')),
                 rets[0] if rets else None)
        ok = bool(rets) and all(ast.unparse(x.value) in ('Text(self.__str__())', 'Text(str(self))', 'Text(str(self.value))') for x in rets)
        ctx.expect(ok, fn if fn is not None else fm.cls(cname), f'{cname}.__Text__ = Text(str(value))',
                   f'{cname} converts to text with `{ast.unparse(r.value) if r else "?"}`: the text form must be the plain str() of the '
                   'value, without format specification or rounding (LEN(3.14159265) must be 10)')
        cm2, sfn = ctx.res.class_attr(XLT + cname, '__str__')
        rets2 = value_returns(sfn) if isinstance(sfn, ast.FunctionDef) else []
        r2 = next((x for x in rets2 if ast.unparse(x.value) != 'str(self.value)'), rets2[0] if rets2 else None)
        ok2 = bool(rets2) and all(ast.unparse(x.value) == 'str(self.value)' for x in rets2)
        ctx.expect(ok2, sfn if sfn is not None else fm.cls(cname), f'{cname}.__str__ = str(self.value)',
                   f'{cname}.__str__ returns `{ast.unparse(r2.value) if r2 else "?"}`')
    tc = fm.func('ExcelType.cast')
    ctx.floor(20, 'text-function parameters + text forms')


def rule_4(ctx):
    _table(ctx, 'UPPER', 'UPPER shape', [(('aBc1',), 'ABC1')], 'UPPER upper-cases every letter')
    _table(ctx, 'LOWER', 'LOWER shape', [(('aBc1',), 'abc1')], 'LOWER lower-cases every letter')
    _table(ctx, 'LEN', 'LEN shape', [(('abcd',), 4), (('',), 0), ((' a ',), 3)], 'LEN counts every character')
    _table(ctx, 'EXACT', 'EXACT shape', [(('abc', 'abc'), True), (('abc', 'aBc'), False), (('a', 'a '), False)], 'EXACT is a case-sensitive comparison')
    _table(ctx, 'TRIM', 'TRIM shape', [(('  ab  ',), 'ab'), (('ab',), 'ab')], 'TRIM removes leading and trailing blanks')
    _table(ctx, 'CONCATENATE', 'CONCATENATE delegates to CONCAT in argument order', [(('a', 'b', 'c'), 'abc'), (('x',), 'x'), (('b', 'a'), 'ba')],
           'CONCATENATE joins its arguments in the order they were written')
    _table(ctx, 'CONCAT', 'CONCAT joins in argument order', [(('a', 'b', 'c'), 'abc'), (('b', 'a', 'b'), 'bab'), ((['a', 'b'], 'c'), 'abc')],
           'CONCAT joins its (flattened) arguments in order, keeping duplicates')
    ctx.floor(7, 'simple maps')


def rule_5(ctx):
    """Text constants reach the text functions with exactly their characters (shared with C02.10)."""
    from . import c02
    c02.rule_10(ctx)


TEXT_CONSTANTS = {'A1': 1.0, 'A2': True, 'A3': 0.0, 'A4': False, 'A5': 'abc', 'A6': 12.5, 'A7': 'He said "hi"', 'A8': '  two  words ', 'A9': '\u00c4bC',
                  'A10': 7, 'A11': 1, 'A12': 0}
TEXT_FORMS = ['=LEN({c})', '={c}&"|"', '=UPPER({c})', '=LEFT({c},2)', '=EXACT({c},"True")', '=CONCATENATE({c},"x",{c})', '=RIGHT({c},1)&MID({c},2,1)']
ODD_SUBJECTS = ['a\U0001F600b', '\U0001F600', 'x\U00020000y\U0001D11E', 'false', 'FALSE', 'False', 'true', 'TRUE', '0', 'none', 'null', ' ', 'nan']
TEXT_IDENTITIES = {
    'I1': ('=EXACT(LEFT(A7,3)&RIGHT(A7,LEN(A7)-3),A7)', True), 'I2': ('=EXACT(MID(A7,1,4),LEFT(A7,4))', True),
    'I3': ('=LEN(A5&A7)=LEN(A5)+LEN(A7)', True), 'I4': ('=EXACT(REPLACE(A7,4,2,"XY"),LEFT(A7,3)&"XY"&MID(A7,6,LEN(A7)))', True),
    'I5': ('=FIND("i",A7,1)', 6), 'I6': ('=FIND("i",A7,7)', 11), 'I7': ('=LEN(A7)', 12), 'I8': ('=TRIM(A8)', 'two words'),
    'I9': ('=UPPER(A9)', '\u00c4BC'), 'I10': ('=LOWER(A9)', '\u00e4bc'), 'I11': ('=LEFT(A5,0)', ''), 'I12': ('=MID(A5,2,50)', 'bc'),
    'I16': ('=ISTEXT(A10&"")', True), 'I17': ('=ISTEXT(""&A2)', True), 'I18': ('=(A10&"")="7"', True), 'I19': ('=ISNUMBER(A6&"")', False), 'I20': ('=LEN(""&A9&"")', 3),
    'I21': ('=EXACT("caf\u00e9","cafe\u0301")', False), 'I22': ('=EXACT("\u00c5","A\u030a")', False), 'I23': ('=EXACT("caf\u00e9","caf\u00e9")', True),
    'I24': ('=LEN("cafe\u0301")', 5), 'I25': ('=EXACT("\uac00","\u1100\u1161")', False),
    'I13': ('=RIGHT(A7,4)', '"hi"'), 'I14': ('=EXACT(A5,"ABC")', False), 'I15': ('=FIND("I",A7)', '#VALUE!'),
}


def rule_6(ctx):
    """A witness workbook whose constant cells hold numbers, booleans and texts side by side (1.0 next to TRUE, 0.0 next to
    FALSE, 1 and 0, quotes, blanks, non-ASCII), interpreted as written: every text function applied to a constant cell gives what
    it gives in a workbook that holds that constant alone - a value is converted to the text form of ITS OWN type whatever else
    the workbook holds; and the composition identities of the statement hold on hand-worked instances."""
    from . import workbook as W
    from . import scenarios as S
    from .c10 import _as_value
    anchor = ctx.mod('evaluator').func('Evaluator.evaluate')
    cells = dict(TEXT_CONSTANTS)
    rows = []
    for c in TEXT_CONSTANTS:
        for j, form in enumerate(TEXT_FORMS):
            addr = f'{chr(66 + j)}{c[1:]}'
            cells[addr] = form.format(c=c)
            rows.append((c, addr, form))
    for a, (f, _) in TEXT_IDENTITIES.items():
        cells[a] = f
    wb = W.Workbook(ctx, cells)
    order = list(TEXT_CONSTANTS)
    for c in order:                 # every constant is read once before the functions run (the way a sheet recalculates)
        wb.value('Sheet1!' + c)
    alone = {}
    for c, addr, form in rows:
        if c not in alone:
            small = {'A1': TEXT_CONSTANTS[c]}
            for j, fm in enumerate(TEXT_FORMS):
                small[f'{chr(66 + j)}1'] = fm.format(c='A1')
            alone[c] = W.Workbook(ctx, small)
        want = alone[c].value(f'Sheet1!{addr[0]}1')
        got = wb.value('Sheet1!' + addr)
        ctx.expect(S.same(got, want), anchor, f'text of a constant among other constants: {form.format(c=repr(TEXT_CONSTANTS[c]))}',
                   f'{form.format(c=c)} with {c} = {TEXT_CONSTANTS[c]!r} evaluates to {got!r} in the workbook that also holds '
                   f'{sorted(set(map(repr, TEXT_CONSTANTS.values())))[:6]}..., and to {want!r} where the constant stands alone')
    for a, (f, w) in TEXT_IDENTITIES.items():
        got = wb.value('Sheet1!' + a)
        if isinstance(got, tuple) and got and got[0] == 'error-class':
            got = ('error', W.error_code(ctx, got[1]))
        ctx.expect(S.same(got, _as_value(w)), anchor, f'text identity: {f}',
                   f'{f} (A5 = "abc", A7 = He said "hi", A8 = "  two  words ", A9 = "\u00c4bC") evaluates to {got!r}, expected {w!r}')
    # subjects a table of ordinary words does not hold: characters outside the basic plane, texts that spell a boolean or nothing
    oc = {}
    owant = {}
    for i, t in enumerate(ODD_SUBJECTS, start=1):
        n_ = len(t)
        oc.update({f'A{i}': t, f'B{i}': f'=LEN(A{i})', f'C{i}': f'=LEFT(A{i},1)&RIGHT(A{i},LEN(A{i})-1)', f'D{i}': f'=MID(A{i},1,3)', f'E{i}': f'=MID(A{i},2,2)',
                   f'F{i}': f'=LEFT(A{i},LEN(A{i})-1)', f'G{i}': f'=EXACT(MID(A{i},1,2),LEFT(A{i},2))', f'H{i}': f'=LEN(A{i}&A{i})', f'I{i}': f'=UPPER(A{i})&LOWER(A{i})',
                   f'J{i}': f'=RIGHT(A{i},2)', f'K{i}': f'=LEN(MID(A{i},1,{n_}))'})
        if n_ == 1:
            oc.pop(f'C{i}')         # RIGHT(s, 0) is the known finding F32
        else:
            owant[f'C{i}'] = t
        owant.update({f'B{i}': n_, f'D{i}': t[:3], f'E{i}': t[1:3], f'F{i}': t[:-1], f'G{i}': True, f'H{i}': 2 * n_,
                      f'I{i}': t.upper() + t.lower(), f'J{i}': t[-2:], f'K{i}': n_})
    wbo = W.Workbook(ctx, oc)
    for a, w in owant.items():
        got = wbo.value('Sheet1!' + a)
        if isinstance(got, tuple) and got and got[0] == 'error-class':
            got = ('error', W.error_code(ctx, got[1]))
        subj = oc['A' + a[1:]]
        ctx.expect(S.same(got, _as_value(w)) or (w == '' and got == ('Text', '')), anchor, f'odd subject {subj!r}: {oc[a]}',
                   f'{oc[a]} with A{a[1:]} = {subj!r} evaluates to {got!r}, expected {w!r}: the functions count, cut and join the characters of the text, whatever they spell')
    # text literals spelt like the workbook's defined names are texts; the names themselves are the cells they are bound to
    sheets = {'Data': {'A1': 'Gross', 'A2': 0.25, 'B1': '=LEN("total")', 'B2': '=UPPER("total")', 'B3': '="total"&"|"', 'B4': '=LEFT("total",2)',
                       'B5': '=FIND("t","total",1)', 'B6': '=LEN("total"&"xyz")', 'B7': '=total&":"&"total"', 'B8': '=EXACT("rate","RATE")',
                       'B9': '=LEN(total)+LEN("rate")', 'B10': '=CONCATENATE("rate","=",rate)', 'B11': '=LOWER("Data!A1")&MID("total",2,3)'}}
    names = {'total': 'Data!$A$1', 'rate': 'Data!$A$2'}
    want = {'B1': 5, 'B2': 'TOTAL', 'B3': 'total|', 'B4': 'to', 'B5': 1, 'B6': 8, 'B7': 'Gross:total', 'B8': False, 'B9': 9, 'B10': 'rate=0.25', 'B11': 'data!a1ota'}
    wbn = W.Workbook(ctx, sheets=sheets, names=names)
    for a, w in want.items():
        got = wbn.value('Data!' + a)
        ctx.expect(S.same(got, _as_value(w)), anchor, f'text literal next to defined names: {sheets["Data"][a]}',
                   f'{sheets["Data"][a]} in a workbook with the names {names} (A1 = "Gross", A2 = 0.25) evaluates to {got!r}, expected {w!r}: a text '
                   'literal is its characters whatever names the workbook defines')
    # & has no limit on the length of a chain
    count = 260
    chain = {'A1': 'x', 'B1': '=' + '&'.join(['A1', '"b"'] * (count // 2)), 'B2': '=LEN(B1)', 'B3': '=LEN(' + '&'.join(['"ab"'] * count) + ')'}
    wbc = W.Workbook(ctx, chain, max_items=5000, max_depth=2500)
    for a, w in (('B1', 'xb' * (count // 2)), ('B2', count), ('B3', 2 * count)):
        got = wbc.value('Sheet1!' + a)
        if isinstance(got, tuple) and got and got[0] == 'error-class':
            got = ('error', W.error_code(ctx, got[1]))
        shown = chain[a] if len(chain[a]) < 60 else chain[a][:40] + f'... ({count} operands)'
        ctx.expect(S.same(got, _as_value(w)), anchor, f'& chain of {count} operands: {shown}',
                   f'{shown} evaluates to {str(got)[:80]!r}, expected {str(w)[:40]!r}...: & joins its two operands, chains of any length included')
    seq = []
    for v in (1, True, 1.0, 'abc', 'ABC', 'aBc', 0, False, 0.0, '1', 'true', 'True'):
        seq += [('LEN', (v,)), ('UPPER', (v,)), ('LEFT', (v, 2)), ('CONCAT', (v, 'x', v)), ('EXACT', (v, 'abc')), ('MID', (v, 1, 2)), ('LOWER', (v,)), ('RIGHT', (v, 1))]
    S.check_call_sequence(ctx, 'text functions', seq + list(reversed(seq)))
    ctx.floor(400, 'text cells')


RULES = [
    ('C17.1', 'index forms of the slices (affine)', rule_1),
    ('C17.2', 'bounds decisions over the (length, position, count) grid', rule_2),
    ('C17.3', 'coercion of parameters; text form of numbers', rule_3),
    ('C17.4', 'simple maps', rule_4),
    ('C17.5', 'text constants keep their characters up to the function call (shared with C02.10)', rule_5),
    ('C17.6', 'witness workbook: constants of every type side by side; composition identities', rule_6),
]
