"""C12 - a persisted model restores to an equivalent model (structural part)."""
import ast

from xlsa import Unmodelled, AnchorMissing
from xlsa.load import walk_local, names_in, dotted
from xlsa.consteval import Ref
from xlsa.guards import Interp, Rec, PyModel, Opaque
from xlsa import flow
from .common import func_params, value_returns, last_return, XLERR, XLT, is_excel_error_ref

PROPERTY = 'C12'
EXPLANATION = (
    'Decided from source: (C12.1) writer and reader agree: the same four maps are written and restored, each to the attribute '
    'it came from, with the same jsonpickle keys= option, and the reader registers the dataclasses that are stored; (C12.2) '
    'the expression choosing gzip vs plain is the same on both sides (after inlining single-assignment locals) and selects the '
    'same opener, binary modes match; (C12.3) classes whose instances an evaluation stores in cell values are reconstructible '
    'under the pickle/jsonpickle contract: value classes whose __new__ takes the value define __getnewargs__/__reduce__, '
    'and the argument tuple an error class hands to Exception.__init__ is accepted by the __init__ of every concrete error '
    'class (they are rebuilt as cls(*args)); (C12.4) restoring with build_code re-parses every formula.'
    ' (C12.5) whatever an evaluation leaves on the (persisted) formula nodes is rebuildable - no functions, signatures, lambdas, generators; (C12.6) custom pickling hooks of persisted classes give every field back for cells holding 0, FALSE, a blank, a number, a text (round trip interpreted on witnesses).'
    ' (C12.3) error classes are constructed as written and rebuilt as cls(*instance.args); (C12.6) the pickling hooks of every persisted class: taking the state leaves the instance unchanged and a fresh instance gets every field back.')
NOT_DECIDED = 'deep equality of arbitrary models, float/Unicode fidelity (jsonpickle/json behaviour)'
TRUSTED = ['jsonpickle reconstruction contract: __new__(cls, *__getnewargs__()) for objects, cls(*args) for exceptions']

MAPS = {'cells', 'defined_names', 'formulae', 'ranges'}


class _File(PyModel):
    def __init__(self, log, opener, name, mode):
        self.log = log
        log.append(('open', opener, name, mode))

    def write(self, data):
        self.log.append(('write', data))

    def read(self):
        self.log.append(('read',))
        return 'BYTES'

    def __enter__(self):
        return self


class _Doc(PyModel):
    def __init__(self, payload):
        self.payload = payload

    def encode(self, *a):
        return ('encoded', self)


def _persist_models(log, decoded=None):
    def opener(kind):
        def f(name, mode='r', *a, **k):
            return _File(log, kind, name, mode)
        return f

    def encode(obj, **kw):
        log.append(('encode', obj, kw))
        return _Doc(obj)

    def decode(data, **kw):
        log.append(('decode', data, kw))
        return decoded if decoded is not None else {'cells': 'C', 'defined_names': 'D', 'formulae': 'F', 'ranges': 'R'}
    import os as _os
    return {
        'ext:gzip.GzipFile': opener('gzip'), 'ext:gzip.open': opener('gzip'), 'builtin:open': opener('plain'),
        'ext:jsonpickle.encode': encode, 'ext:jsonpickle.decode': decode,
        'ext:os.path.splitext': _os.path.splitext,
    }


def _run_persist(ctx, which, fname, build_code=False):
    mm = ctx.mod('model')
    fn = mm.func('Model.persist_to_json_file' if which == 'w' else 'Model.construct_from_json_file')
    p = func_params(fn)
    log = []
    me = Rec(cls='pkg:model:Model', cells='CELLS', defined_names='NAMES', formulae='FORMULAE', ranges='RANGES', built=0)
    env = {p[0]: me, p[1]: fname}
    if which == 'r' and len(p) > 2:
        env[p[2]] = build_code
    models = _persist_models(log)
    models['pkg:model:Model.build_code'] = lambda self_: self_.set('built', self_.get('built') + 1)
    it = Interp(ctx.a, mm, env, inline_pkg=True, scope_fn=fn, self_class='pkg:model:Model', call_models=models)
    it.env['open'] = Ref('builtin:open')
    out = it.run(fn.body)
    return fn, me, log, out


WITNESS_FILES = [('model.json', 'plain'), ('model.gz', 'gzip'), ('model.gzip', 'gzip'), ('MODEL.JSON.GZ', 'gzip'), ('Model.Gzip', 'gzip'),
                 ('model.gz.bak', 'plain'), ('model', 'plain'), ('gz', 'plain')]


def rule_1(ctx):
    try:
        fn, me, log, out = _run_persist(ctx, 'w', 'model.json')
    except Unmodelled as exc:
        raise Unmodelled(f'persist_to_json_file: {exc}')
    enc = [e for e in log if e[0] == 'encode']
    if len(enc) != 1:
        raise Unmodelled(f'persist_to_json_file encodes {len(enc)} documents')
    payload, kw = enc[0][1], enc[0][2]
    want = {'cells': 'CELLS', 'defined_names': 'NAMES', 'formulae': 'FORMULAE', 'ranges': 'RANGES'}
    ctx.expect(isinstance(payload, dict) and set(payload) == MAPS, fn, 'persisted keys',
               f'persisted keys are {sorted(payload) if isinstance(payload, dict) else payload}, expected {sorted(MAPS)}')
    if isinstance(payload, dict):
        for k, v in sorted(want.items()):
            ctx.expect(payload.get(k) == v, fn, f'persisted[{k!r}] = self.{k}', f'key {k!r} stores {payload.get(k)!r}, not the {k} map of the model')
    ctx.expect(kw.get('keys') is True, fn, 'encode keys=True', f'jsonpickle.encode is called with keys={kw.get("keys")!r}')
    for opt in ('unpicklable', 'make_refs'):
        ctx.expect(kw.get(opt, True) is True, fn, f'encode option {opt} default', f'encode is called with {opt}={kw.get(opt)!r}')
    writes = [e for e in log if e[0] == 'write']
    ok = len(writes) == 1 and isinstance(writes[0][1], tuple) and writes[0][1][0] == 'encoded' and writes[0][1][1].payload is payload
    ctx.expect(ok, fn, 'the encoded document is what is written', 'the bytes written are not the encoded jsonpickle document')
    try:
        rfn, rme, rlog, rout = _run_persist(ctx, 'r', 'model.json')
    except Unmodelled as exc:
        raise Unmodelled(f'construct_from_json_file: {exc}')
    dec = [e for e in rlog if e[0] == 'decode']
    if len(dec) != 1:
        raise Unmodelled(f'construct_from_json_file decodes {len(dec)} documents')
    dkw = dec[0][2]
    ctx.expect(dec[0][1] == 'BYTES', rfn, 'the bytes read are what is decoded', 'the document handed to jsonpickle.decode is not what was read')
    ctx.expect(dkw.get('keys') is True and kw.get('keys') is True, rfn, 'keys=True on both sides',
               f'encode uses keys={kw.get("keys")!r}, decode keys={dkw.get("keys")!r}: non-string keys are not restored alike')
    classes = dkw.get('classes') or ()
    refs = {c.ref for c in classes if isinstance(c, Ref)} if isinstance(classes, (tuple, list, set)) else set()
    for cname, ref in (('XLCell', 'pkg:xltypes:XLCell'), ('XLFormula', 'pkg:xltypes:XLFormula'), ('XLRange', 'pkg:xltypes:XLRange'),
                       ('f_token', 'pkg:tokenizer:f_token')):
        ctx.expect(ref in refs, rfn, f'decode registers {cname}', f'{cname} is not among the classes handed to jsonpickle.decode')
    for attr, val in (('cells', 'C'), ('defined_names', 'D'), ('formulae', 'F'), ('ranges', 'R')):
        ctx.expect(rme.f.get(attr) == val, rfn, f'self.{attr} = data[{attr!r}]',
                   f'attribute {attr} is restored as {rme.f.get(attr)!r} (C=cells, D=defined_names, F=formulae, R=ranges)')
    ctx.floor(18, 'writer/reader agreement facts')


def rule_2(ctx):
    for fname, want in WITNESS_FILES:
        got = {}
        for which in ('w', 'r'):
            try:
                fn, me, log, out = _run_persist(ctx, which, fname)
            except Unmodelled as exc:
                raise Unmodelled(f'{"persist_to" if which == "w" else "construct_from"}_json_file({fname!r}): {exc}')
            opens = [e for e in log if e[0] == 'open']
            got[which] = (opens[0][1], opens[0][3]) if len(opens) == 1 else ('?', '?')
        mm = ctx.mod('model')
        ctx.expect(got['w'][0] == got['r'][0], mm.func('Model.construct_from_json_file'), f'{fname!r}: written and read with the same opener',
                   f'{fname!r} is written with the {got["w"][0]} opener but read with the {got["r"][0]} opener: the file cannot be restored')
        ctx.expect(got['w'][0] == want, mm.func('Model.persist_to_json_file'), f'{fname!r}: compression chosen by the lower-cased extension',
                   f'{fname!r} is written {got["w"][0]}, expected {want} (gzip exactly for the extensions .gz/.gzip in any letter case)')
        ctx.expect(got['w'][1] == 'wb' and got['r'][1] == 'rb', mm.func('Model.persist_to_json_file'), f'{fname!r}: binary modes wb / rb',
                   f'open modes are {got["w"][1]!r} / {got["r"][1]!r}')
    ctx.floor(24, 'file-name witnesses')


def rule_3(ctx):
    fm = ctx.mod('xlfunctions.func_xltypes')
    # value classes
    for cname in ('Number', 'Text', 'Boolean', 'DateTime', 'Blank'):
        cref = XLT + cname
        nm, new = ctx.res.class_attr(cref, '__new__')
        required = 0
        if isinstance(new, ast.FunctionDef):
            pos = new.args.args[1:]
            required = len(pos) - len(new.args.defaults)
        gm, g = ctx.res.class_attr(cref, '__getnewargs__')
        rm_, red = ctx.res.class_attr(cref, '__reduce__')
        rm2, red2 = ctx.res.class_attr(cref, '__getnewargs_ex__')
        ok = required == 0 or isinstance(g, ast.FunctionDef) or isinstance(red, ast.FunctionDef) or isinstance(red2, ast.FunctionDef)
        ctx.expect(ok, fm.cls(cname), f'{cname} instances are reconstructible',
                   f'{cname}.__new__ needs {required} argument(s) but the class defines neither __getnewargs__ nor __reduce__: '
                   'jsonpickle cannot rebuild values computed before persist() - they come back as plain dicts')
        if isinstance(g, ast.FunctionDef) and required:
            r = last_return(g)
            ok = r is not None and isinstance(r.value, ast.Tuple) and len(r.value.elts) == required \
                and ast.unparse(r.value.elts[0]) == 'self.value'
            ctx.expect(ok, g, f'{cname}.__getnewargs__ returns (self.value,)', '__getnewargs__ does not return the value the instance holds')
    slots = fm.cls('ExcelType')
    # error classes: pickle / jsonpickle / copy rebuild an exception as cls(*instance.args) - interpreted as written
    xm = ctx.mod('xlfunctions.xlerrors')
    from xlsa.guards import World
    for qual in xm.classes:
        cref = XLERR + qual
        if not is_excel_error_ref(ctx, cref):
            continue
        im, init = ctx.res.class_attr(cref, '__init__')
        required = len(init.args.args) - 1 - len(init.args.defaults)
        ctor_args = [(), ('Error in cell $Sheet1!A1',)] if required == 0 else [('#CODE!',), ('#CODE!', 'Error in cell $Sheet1!A1')]
        problems = []
        for a in ctor_args:
            world = World()
            it = Interp(ctx.a, xm, {'E': Ref(cref), 'a': a}, inline_pkg=True, world=world)
            out = it.run(ast.parse('e = E(*a)\nreturn e').body)
            if out.end != 'return' or not isinstance(out.value, Rec) or not isinstance(out.value.f.get('args'), tuple):
                raise Unmodelled(f'{qual}{a!r} ends in {out.end} {out.value!r}')
            stored = out.value.f['args']
            it2 = Interp(ctx.a, xm, {'E': Ref(cref), 'a': stored}, inline_pkg=True, world=world)
            out2 = it2.run(ast.parse('return E(*a)').body)
            if out2.end != 'return':
                problems.append(f'{qual}{a!r} keeps Exception.args == {stored!r}, and {qual}(*{stored!r}) ends in {out2.end} {out2.value!r}')
        ctx.expect(not problems, xm.cls(qual), f'{qual}(*args) accepts the stored exception arg(s)',
                   '; '.join(problems) + ': pickle/jsonpickle/copy rebuild an exception as cls(*args), so a model persisted with such an error '
                   'value cannot be restored (TypeError)')
    ctx.floor(13, 'value classes + error classes')


def rule_4(ctx):
    fn, me, log, out = _run_persist(ctx, 'r', 'model.json', build_code=True)
    ctx.expect(me.f.get('built') == 1, fn, 'build_code=True re-parses the formulas', 'construct_from_json_file(build_code=True) does not call build_code()')
    order_ok = all(me.f.get(a) in ('C', 'D', 'F', 'R') for a in MAPS)
    ctx.expect(order_ok, fn, 'maps restored before compiling', 'build_code() runs before all maps are restored')
    fn2, me2, log2, out2 = _run_persist(ctx, 'r', 'model.json', build_code=False)
    ctx.expect(me2.f.get('built') == 0, fn2, 'build_code=False leaves the formulas uncompiled', 'the formulas are compiled although build_code is False')
    mm = ctx.mod('model')
    bc = mm.func('Model.build_code')
    parses = [c for c in flow.calls_in(bc) if isinstance(c.func, ast.Attribute) and c.func.attr == 'parse']
    stores = [a for a in walk_local(bc) if isinstance(a, ast.Assign) and isinstance(a.targets[0], ast.Attribute) and a.targets[0].attr == 'ast']
    ctx.expect(bool(parses) and bool(stores), bc, 'every formula cell gets a freshly parsed AST', 'build_code does not parse the formula of every cell')
    ctx.floor(4, 'recompilation facts')


def rule_5(ctx):
    """The formula ASTs are part of the persisted state (XLFormula.ast is pickled): whatever an evaluation leaves on a node
    must be rebuildable by the JSON persistence. Functions, signatures, lambdas, generators are not."""
    from . import corelemma
    n = 0
    for s in corelemma.node_state_stores(ctx):
        n += 1
        short = s['cref'].split(':')[-1]
        ctx.expect(s['unsafe'] is None, s['node'], f'{short}: object left on a persisted node by an evaluation',
                   f'{short}.{s["fn"].name} stores {s["unsafe"]} on the node (attribute {s["attr"]}): after an evaluation the model can be '
                   'written by persist_to_json_file but construct_from_json_file cannot rebuild that object (jsonpickle restores it as '
                   'plain lists/dicts or fails)')
    for cref in corelemma.node_classes(ctx):
        ctx.ok(ctx.res.lookup(cref)[1], f'{cref.split(":")[-1]}: evaluation-path stores enumerated')
    ctx.floor(4, 'node classes')


def _col_index(letters):
    n = 0
    for ch in str(letters).upper():
        n = n * 26 + (ord(ch) - 64)
    return n


_WITNESS_FIELDS = {
    'pkg:xltypes:XLRange': [
        ('a 2x2 range', {'address_str': 'Sheet1!A1:B2', 'name': 'Sheet1!A1:B2', 'cells': [['Sheet1!A1', 'Sheet1!B1'], ['Sheet1!A2', 'Sheet1!B2']],
                         'sheet': 'Sheet1', 'value': None}),
        ('a named column', {'address_str': 'Data!C1:C3', 'name': 'block', 'cells': [['Data!C1'], ['Data!C2'], ['Data!C3']], 'sheet': 'Data', 'value': None}),
    ],
    'pkg:xltypes:XLFormula': [
        ('a formula', {'formula': '=A1+1', 'sheet_name': 'Sheet1', 'reference': None, 'evaluate': True, 'tokens': [], 'terms': ['Sheet1!A1'],
                       'associated_cells': {'Sheet1!A1'}, 'ast': None}),
    ],
}


def _other_state_round_trips(ctx, cref, m, cnode, own):
    """__getstate__ / __setstate__ of a persisted class other than XLCell: taking the state leaves the instance as it was (the model
    that is persisted, copied or extracted from is used again), and a fresh instance given that state has every field back."""
    from xlsa.guards import World
    from . import values as V
    import copy
    short = cref.split(':')[-1]
    witnesses = _WITNESS_FIELDS.get(cref)
    if witnesses is None:
        ctx.unmodelled(cnode, f'{cref}: pickling hooks on a class without witness instances')
        return 0
    n = 0
    for label, fields in witnesses:
        world = World()
        src = Rec(cls=cref, **copy.deepcopy(fields))
        it = Interp(ctx.a, m, {'src': src, 'dst': Rec(cls=cref)}, inline_pkg=True, world=world, call_models=V.openpyxl_models())
        prog = 'state = src.__getstate__()\n' if '__getstate__' in own else 'state = dict(src.__dict__)\n'
        prog += 'state = dict(state)\n'        # what the pickler keeps is a snapshot
        prog += 'dst.__setstate__(state)\n' if '__setstate__' in own else 'dst.__dict__.update(state)\n'
        out = it.run(ast.parse(prog).body)
        n += 1
        if out.end == 'raise':
            ctx.bad(cnode, f'{short} state round trip with {label}', f'taking / restoring the state of {label} raises {out.value!r}')
            continue
        changed = {k: (v, src.f.get(k, '<missing>')) for k, v in fields.items() if src.f.get(k, '<missing>') != v}
        ctx.expect(not changed, cnode, f'{short}: taking the state of {label} leaves the instance unchanged',
                   f'after __getstate__ the instance itself differs: {changed} - persisting (or deep-copying, extracting from) a model must not '
                   'alter it; the original is evaluated again afterwards')
        dst = it.env['dst']
        lost = {k: (v, dst.f.get(k, '<missing>')) for k, v in fields.items() if dst.f.get(k, '<missing>') != v}
        n += 1
        ctx.expect(not lost, cnode, f'{short} state round trip with {label}',
                   f'{label} comes back from __getstate__/__setstate__ with {lost}: the restored model differs from the persisted one')
    return n


def rule_6(ctx):
    """Custom pickling hooks (__getstate__ / __setstate__ / __reduce__) of the classes that end up in the persisted maps:
    state taken from a witness instance and put into a fresh one must give back every field - whatever value the cell holds
    (a computed 0 / FALSE / blank is a value, not "unset")."""
    from xlsa.guards import World
    xm = ctx.mod('xltypes')
    n = 0
    hooks = ('__getstate__', '__setstate__', '__reduce__', '__reduce_ex__')
    persisted = [f'pkg:{m.name}:{q}' for m in ctx.repo.modules.values() for q in m.classes
                 if m.name in ('xltypes', 'tokenizer', 'ast_nodes')]
    for cref in sorted(persisted):
        m, cnode = ctx.res.lookup(cref)
        own = [h for h in hooks if isinstance(ctx.res.class_attr(cref, h)[1], ast.FunctionDef)]
        ctx.ok(cnode, f'{cref.split(":")[-1]}: pickling hooks enumerated ({", ".join(own) or "none - default protocol"})')
        n += 1
        if not own or cref != 'pkg:xltypes:XLCell' and not cref.startswith('pkg:xltypes:'):
            continue
        if any(h.startswith('__reduce') for h in own):
            ctx.unmodelled(cnode, f'{cref}: __reduce__ protocol')
            continue
        if cref != 'pkg:xltypes:XLCell':
            n += _other_state_round_trips(ctx, cref, m, cnode, own)
            continue
        # witnesses: one per kind of content
        def val(cls, v):
            return Rec(cls=XLT + cls, value=v)
        contents = [('the computed number 0', val('Number', 0)), ('the computed FALSE', val('Boolean', False)), ('a computed blank', val('Blank', None)),
                    ('the computed number 5', val('Number', 5)), ('the constant 0', 0), ('the constant text ""', ''), ('no value', None),
                    ('the constant 7.5', 7.5)]
        for label, content in contents:
            world = World()
            fields = {'address': 'Sheet1!B2', 'sheet': 'Sheet1', 'row': '2', 'row_index': 2, 'column': 'B', 'column_index': 2, 'value': content,
                      'formula': None, 'defined_names': ['nm'] if label == 'no value' else []}
            if cref != 'pkg:xltypes:XLCell':
                continue
            src = Rec(cls=cref, **fields)
            models = {'ext:openpyxl.utils.cell.column_index_from_string': _col_index, 'ext:openpyxl.utils.column_index_from_string': _col_index}
            it = Interp(ctx.a, m, {'src': src, 'dst': Rec(cls=cref)}, inline_pkg=True, world=world, call_models=models)
            prog = 'state = src.__getstate__()\n' if '__getstate__' in own else 'state = dict(src.__dict__)\n'
            prog += 'dst.__setstate__(state)\n' if '__setstate__' in own else 'dst.__dict__.update(state)\n'
            out = it.run(ast.parse(prog).body)
            if out.end == 'raise':
                ctx.bad(cnode, f'{cref.split(":")[-1]} state round trip with {label}', f'taking / restoring the state of a cell holding {label} raises {out.value!r}')
                continue
            dst = it.env['dst']
            lost = {k: (fields[k], dst.f.get(k, '<missing>')) for k in fields
                    if not (k in dst.f and (dst.f[k] is fields[k] or (not isinstance(fields[k], Rec) and dst.f[k] == fields[k]
                                                                      and type(dst.f[k]) is type(fields[k]))))}
            n += 1
            ctx.expect(not lost, cnode, f'{cref.split(":")[-1]} state round trip with {label}',
                       f'a cell holding {label} comes back from __getstate__/__setstate__ with {lost}: what an evaluation stored in the cell '
                       '(0, FALSE, a blank are values) is not in the persisted state, so the restored model differs from the persisted one')
    ctx.floor(8, 'persisted classes')


RULES = [
    ('C12.1', 'writer and reader agree on keys, attributes and options', rule_1),
    ('C12.2', 'compression predicate agrees', rule_2),
    ('C12.3', 'stored value and error classes are reconstructible', rule_3),
    ('C12.4', 'restoring recompiles the formulas', rule_4),
    ('C12.5', 'evaluation leaves only rebuildable objects on the persisted formula nodes', rule_5),
    ('C12.6', 'custom pickling hooks of persisted classes give every field back', rule_6),
]
