"""C12 - a persisted model restores to an equivalent model (structural part)."""
import ast

from xlsa import Unmodelled, AnchorMissing
from xlsa.load import walk_local, names_in, dotted
from xlsa import flow
from .common import func_params, value_returns, last_return, XLERR, XLT, is_excel_error_ref

PROPERTY = 'C12'
EXPLANATION = (
    'Decided from source: (C12.1) writer and reader agree: the same four maps are written and restored, each to the attribute '
    'it came from, with the same jsonpickle keys= option, and the reader registers the dataclasses that are stored; (C12.2) '
    'the expression choosing gzip vs plain is the same on both sides (after inlining single-assignment locals) and selects the '
    'same opener, binary modes match; (C12.3) classes whose instances an evaluation stores in cell values are reconstructible '
    'under the pickle/jsonpickle contract: value classes whose __new__ takes the value define __getnewargs__/__reduce__, '
    'and the argument tuple an error class hands to Exception.__init__ is accepted by the __init__ of every concrete error '
    'class (they are rebuilt as cls(*args)); (C12.4) restoring with build_code re-parses every formula.')
NOT_DECIDED = 'deep equality of arbitrary models, float/Unicode fidelity (jsonpickle/json behaviour)'
TRUSTED = ['jsonpickle reconstruction contract: __new__(cls, *__getnewargs__()) for objects, cls(*args) for exceptions']

MAPS = {'cells', 'defined_names', 'formulae', 'ranges'}


def _inline(expr, fn):
    """Replace single-assignment local names by their value (one level, repeated)."""
    assigns = {}
    for a in walk_local(fn):
        if isinstance(a, ast.Assign) and len(a.targets) == 1 and isinstance(a.targets[0], ast.Name):
            assigns.setdefault(a.targets[0].id, []).append(a.value)

    class T(ast.NodeTransformer):
        def visit_Name(self, n):
            if isinstance(n.ctx, ast.Load) and n.id in assigns and len(assigns[n.id]) == 1 and n.id not in func_params(fn):
                return self.visit(ast.parse(ast.unparse(assigns[n.id][0]), mode='eval').body)
            return n
    return T().visit(ast.parse(ast.unparse(expr), mode='eval').body)


def _opener_choice(fn):
    """(predicate expr, value-if-true, value-if-false) of the opener selection."""
    for n in walk_local(fn):
        if isinstance(n, ast.IfExp) and 'gzip' in ast.unparse(n).lower():
            return n.test, n.body, n.orelse, n
    for n in walk_local(fn):
        if isinstance(n, ast.If) and 'gzip' in ast.unparse(n).lower():
            return n.test, n.body, n.orelse, n
    return None


def rule_1(ctx):
    mm = ctx.mod('model')
    w = mm.func('Model.persist_to_json_file')
    r = mm.func('Model.construct_from_json_file')
    dicts = [n for n in walk_local(w) if isinstance(n, ast.Dict)]
    if not dicts:
        raise AnchorMissing('persist_to_json_file: output dict')
    d = dicts[0]
    written = {}
    for k, v in zip(d.keys, d.values):
        if isinstance(k, ast.Constant):
            written[k.value] = ast.unparse(v)
    ctx.expect(set(written) == MAPS, d, 'persisted keys', f'persisted keys are {sorted(written)}, expected {sorted(MAPS)}')
    for k, v in sorted(written.items()):
        ctx.expect(v == f'self.{k}', d, f'persisted[{k!r}] = self.{k}', f'key {k!r} stores {v}')
    restored = {}
    for a in walk_local(r):
        if isinstance(a, ast.Assign) and isinstance(a.targets[0], ast.Attribute) and isinstance(a.value, ast.Subscript) \
                and isinstance(a.value.slice, ast.Constant):
            restored[a.targets[0].attr] = a.value.slice.value
    ctx.expect(set(restored) == MAPS, r, 'restored attributes', f'restored attributes are {sorted(restored)}, expected {sorted(MAPS)}')
    for attr, key in sorted(restored.items()):
        ctx.expect(attr == key, r, f'self.{attr} = data[{key!r}]', f'attribute {attr} is restored from key {key!r}')
    enc = [c for c in flow.calls_in(w) if ctx.res.resolve(c.func, mm) == 'ext:jsonpickle.encode']
    dec = [c for c in flow.calls_in(r) if ctx.res.resolve(c.func, mm) == 'ext:jsonpickle.decode']
    if len(enc) != 1 or len(dec) != 1:
        raise AnchorMissing('jsonpickle encode/decode calls')

    def kw(c, name):
        for k in c.keywords:
            if k.arg == name:
                return ast.unparse(k.value)
        return None
    ctx.expect(kw(enc[0], 'keys') == kw(dec[0], 'keys') == 'True', enc[0], 'keys=True on both sides',
               f'encode uses keys={kw(enc[0], "keys")}, decode keys={kw(dec[0], "keys")}: non-string keys are not restored alike')
    for opt in ('unpicklable', 'make_refs', 'max_depth'):
        ctx.expect(kw(enc[0], opt) in (None, 'True') if opt != 'max_depth' else kw(enc[0], opt) is None, enc[0], f'encode option {opt} default',
                   f'encode is called with {opt}={kw(enc[0], opt)}: objects are not written in reconstructible form')
    classes = kw(dec[0], 'classes') or ''
    for cname in ('XLCell', 'XLFormula', 'XLRange', 'f_token'):
        ctx.expect(cname in classes, dec[0], f'decode registers {cname}', f'{cname} is not among the classes handed to jsonpickle.decode')
    # what is written is the encoded output, what is decoded is what was read
    wr = [c for c in flow.calls_in(w) if isinstance(c.func, ast.Attribute) and c.func.attr == 'write']
    ok = len(wr) == 1 and any(c is enc[0] for c in ast.walk(wr[0]))
    ctx.expect(ok, w, 'the encoded document is what is written', 'the bytes written are not the jsonpickle document')
    ctx.floor(18, 'writer/reader agreement facts')


def rule_2(ctx):
    mm = ctx.mod('model')
    w = mm.func('Model.persist_to_json_file')
    r = mm.func('Model.construct_from_json_file')
    cw, cr = _opener_choice(w), _opener_choice(r)
    if cw is None or cr is None:
        raise AnchorMissing('gzip/plain opener selection')
    pw = ast.dump(_inline(cw[0], w))
    pr = ast.dump(_inline(cr[0], r))
    ctx.expect(pw == pr, cr[3], 'compression predicate identical on write and read',
               f'writer chooses gzip when `{ast.unparse(_inline(cw[0], w))}`, reader when `{ast.unparse(_inline(cr[0], r))}`: a file '
               'written compressed can be read back as plain text (or vice versa)')

    def side(x):
        return ast.unparse(x) if isinstance(x, ast.expr) else ' '.join(ast.unparse(s) for s in x)
    ctx.expect(('gzip' in side(cw[1]).lower()) == ('gzip' in side(cr[1]).lower()), cr[3], 'same opener for the same predicate value',
               'writer and reader map the predicate to opposite openers')
    pred = ast.unparse(_inline(cw[0], w))
    ctx.expect('.lower()' in pred and "'.gz'" in pred and "'.gzip'" in pred and 'splitext' in pred, cw[3],
               'predicate = lower-cased extension in {.gzip, .gz}',
               f'compression is chosen by `{pred}`, not by the lower-cased file extension being .gz/.gzip')
    def opener_name(fn, choice):
        st = flow.stmt_of(choice[3])
        if isinstance(st, ast.Assign) and isinstance(st.targets[0], ast.Name):
            return st.targets[0].id
        return None
    ow, orr = opener_name(w, cw), opener_name(r, cr)
    modes_w = [ast.unparse(c.args[1]) for c in flow.calls_in(w) if isinstance(c.func, ast.Name) and c.func.id == ow and len(c.args) > 1]
    modes_r = [ast.unparse(c.args[1]) for c in flow.calls_in(r) if isinstance(c.func, ast.Name) and c.func.id == orr and len(c.args) > 1]
    ctx.expect(modes_w == ["'wb'"] and modes_r in (["'rb'"], ['"rb"']), w, 'binary modes wb / rb', f'open modes are {modes_w} / {modes_r}')
    ctx.floor(4, 'compression agreement facts')


def rule_3(ctx):
    fm = ctx.mod('xlfunctions.func_xltypes')
    # value classes
    for cname in ('Number', 'Text', 'Boolean', 'DateTime', 'Blank'):
        cref = XLT + cname
        nm, new = ctx.res.class_attr(cref, '__new__')
        required = 0
        if isinstance(new, ast.FunctionDef):
            pos = new.args.args[1:]
            required = len(pos) - len(new.args.defaults)
        gm, g = ctx.res.class_attr(cref, '__getnewargs__')
        rm_, red = ctx.res.class_attr(cref, '__reduce__')
        rm2, red2 = ctx.res.class_attr(cref, '__getnewargs_ex__')
        ok = required == 0 or isinstance(g, ast.FunctionDef) or isinstance(red, ast.FunctionDef) or isinstance(red2, ast.FunctionDef)
        ctx.expect(ok, fm.cls(cname), f'{cname} instances are reconstructible',
                   f'{cname}.__new__ needs {required} argument(s) but the class defines neither __getnewargs__ nor __reduce__: '
                   'jsonpickle cannot rebuild values computed before persist() - they come back as plain dicts')
        if isinstance(g, ast.FunctionDef) and required:
            r = last_return(g)
            ok = r is not None and isinstance(r.value, ast.Tuple) and len(r.value.elts) == required \
                and ast.unparse(r.value.elts[0]) == 'self.value'
            ctx.expect(ok, g, f'{cname}.__getnewargs__ returns (self.value,)', '__getnewargs__ does not return the value the instance holds')
    slots = fm.cls('ExcelType')
    # error classes: Exception args contract
    xm = ctx.mod('xlfunctions.xlerrors')
    base_init = xm.func('ExcelError.__init__')
    sup = [c for c in flow.calls_in(base_init) if isinstance(c.func, ast.Attribute) and c.func.attr == '__init__'
           and 'super()' in ast.unparse(c.func.value)]
    if len(sup) != 1:
        raise AnchorMissing('ExcelError.__init__: super().__init__ call')
    nargs = len(sup[0].args)
    for qual in xm.classes:
        cref = XLERR + qual
        if not is_excel_error_ref(ctx, cref):
            continue
        im, init = ctx.res.class_attr(cref, '__init__')
        pos = init.args.args[1:]
        mx = len(pos) if not init.args.vararg else 99
        mn = len(pos) - len(init.args.defaults)
        ok = mn <= nargs <= mx
        ctx.expect(ok, xm.cls(qual), f'{qual}(*args) accepts the {nargs} stored exception arg(s)',
                   f'ExcelError stores {nargs} argument(s) in Exception.args (`{ast.unparse(sup[0])}`) but {qual}.__init__ accepts '
                   f'{mn}..{mx}: pickle/jsonpickle rebuild an exception as cls(*args), so a model persisted with a {qual} value '
                   'cannot be restored (TypeError)')
    ctx.floor(13, 'value classes + error classes')


def rule_4(ctx):
    mm = ctx.mod('model')
    r = mm.func('Model.construct_from_json_file')
    ok = any(isinstance(n, ast.If) and isinstance(n.test, ast.Name) and n.test.id == 'build_code'
             and any(isinstance(c, ast.Call) and ast.unparse(c.func) == 'self.build_code' for s in n.body for c in ast.walk(s))
             for n in walk_local(r))
    ctx.expect(ok, r, 'build_code=True re-parses the formulas', 'construct_from_json_file(build_code=True) does not call build_code()')
    bc = mm.func('Model.build_code')
    loops = [n for n in walk_local(bc) if isinstance(n, ast.For) and 'self.cells' in ast.unparse(n.iter)]
    ok = len(loops) == 1 and any(isinstance(a, ast.Assign) and isinstance(a.targets[0], ast.Attribute) and a.targets[0].attr == 'ast'
                                 and 'parse' in ast.unparse(a.value) for a in ast.walk(loops[0]))
    ctx.expect(ok, bc, 'every formula cell gets a freshly parsed AST', 'build_code does not parse the formula of every cell')
    # order of assignments: all four restored before build_code
    if ok:
        assigns = [a for a in walk_local(r) if isinstance(a, ast.Assign) and isinstance(a.targets[0], ast.Attribute)
                   and a.targets[0].attr in MAPS]
        call = [c for c in flow.calls_in(r) if ast.unparse(c.func) == 'self.build_code']
        ok2 = bool(call) and all(flow.pos(a) < flow.pos(call[0]) for a in assigns)
        ctx.expect(ok2, r, 'maps restored before compiling', 'build_code() runs before all maps are restored')
    ctx.floor(3, 'recompilation facts')


RULES = [
    ('C12.1', 'writer and reader agree on keys, attributes and options', rule_1),
    ('C12.2', 'compression predicate agrees', rule_2),
    ('C12.3', 'stored value and error classes are reconstructible', rule_3),
    ('C12.4', 'restoring recompiles the formulas', rule_4),
]
