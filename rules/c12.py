"""C12 - a persisted model restores to an equivalent model (structural part)."""
import ast

from xlsa import Unmodelled, AnchorMissing
from xlsa.load import walk_local, names_in, dotted
from xlsa.consteval import Ref
from xlsa.guards import Interp, Rec, PyModel, Opaque
from xlsa import flow
from .common import func_params, value_returns, last_return, XLERR, XLT, is_excel_error_ref

PROPERTY = 'C12'
EXPLANATION = (
    'Decided from source: (C12.1) writer and reader agree: the same four maps are written and restored, each to the attribute '
    'it came from, with the same jsonpickle keys= option, and the reader registers the dataclasses that are stored; (C12.2) '
    'the expression choosing gzip vs plain is the same on both sides (after inlining single-assignment locals) and selects the '
    'same opener, binary modes match; (C12.3) classes whose instances an evaluation stores in cell values are reconstructible '
    'under the pickle/jsonpickle contract: value classes whose __new__ takes the value define __getnewargs__/__reduce__, '
    'and the argument tuple an error class hands to Exception.__init__ is accepted by the __init__ of every concrete error '
    'class (they are rebuilt as cls(*args)); (C12.4) restoring with build_code re-parses every formula.'
    ' (C12.5) whatever an evaluation leaves on the (persisted) formula nodes is rebuildable - no functions, signatures, lambdas, generators; (C12.6) custom pickling hooks of persisted classes give every field back for cells holding 0, FALSE, a blank, a number, a text (round trip interpreted on witnesses).'
    ' (C12.3) error classes are constructed as written and rebuilt as cls(*instance.args); (C12.6) the pickling hooks of every persisted class: taking the state leaves the instance unchanged and a fresh instance gets every field back.'
    ' (C12.1/.2/.4) run over a file system in memory (what the file holds decides, not which opener was named); (C12.7) file histories: a name written by larger and smaller models, plain and compressed, constants of every type, overwritten through every public route between two persists - what is restored is what was persisted last.')
NOT_DECIDED = 'deep equality of arbitrary models, float/Unicode fidelity (jsonpickle/json behaviour)'
TRUSTED = ['a file system in memory with the documented semantics of builtin open / os.open / os.fdopen / os.replace / gzip.GzipFile (truncation, creation, append, positions; gzip members produced and read by the standard library on those bytes)', 'jsonpickle.encode / decode as a registry of documents: as long as the object is large, decoded only from exactly one well-formed JSON text', 'jsonpickle reconstruction contract: __new__(cls, *__getnewargs__()) for objects, cls(*args) for exceptions']

MAPS = {'cells', 'defined_names', 'formulae', 'ranges'}


def _run_persist(ctx, which, fname, build_code=False, stored='plain'):
    """persist_to_json_file / construct_from_json_file interpreted as written on a Model whose four maps are tokens, over the
    file system in memory and the document registry of rules/vfs.py. -> (function, model record, file system, documents, outcome)"""
    import gzip as _gzip
    from . import vfs
    mm = ctx.mod('model')
    fn = mm.func('Model.persist_to_json_file' if which == 'w' else 'Model.construct_from_json_file')
    fs, docs = vfs.VFS(), vfs.Documents()
    me = Rec(cls='pkg:model:Model', cells='CELLS', defined_names='NAMES', formulae='FORMULAE', ranges='RANGES', built=0)
    models = dict(fs.models())
    models.update(docs.models())
    models['pkg:model:Model.build_code'] = lambda self_: self_.set('built', self_.get('built') + 1)
    if which == 'r':
        text = docs.encode({'cells': 'C', 'defined_names': 'D', 'formulae': 'F', 'ranges': 'R'}, keys=True).encode()
        fs.files[fname] = bytearray(_gzip.compress(text, mtime=0) if stored == 'gzip' else text)
        src = 'return m.construct_from_json_file(f, build_code=b)'
    else:
        src = 'return m.persist_to_json_file(f)'
    it = Interp(ctx.a, mm, {'m': me, 'f': fname, 'b': build_code}, inline_pkg=True, call_models=models)
    out = it.run(ast.parse(src).body)
    return fn, me, fs, docs, out


def _content(fs, fname):
    """('gzip' | 'plain', text) of a file of the file system in memory"""
    import gzip as _gzip
    raw = bytes(fs.files.get(fname, b''))
    if raw[:2] == b'\x1f\x8b':
        try:
            return 'gzip', _gzip.decompress(raw).decode('utf-8', 'replace')
        except Exception:       # noqa: BLE001 - a damaged member
            return 'gzip', None
    return 'plain', raw.decode('utf-8', 'replace')


WITNESS_FILES = [('model.json', 'plain'), ('model.gz', 'gzip'), ('model.gzip', 'gzip'), ('MODEL.JSON.GZ', 'gzip'), ('Model.Gzip', 'gzip'),
                 ('model.gz.bak', 'plain'), ('model', 'plain'), ('gz', 'plain')]


def rule_1(ctx):
    import json as _json
    try:
        fn, me, fs, docs, out = _run_persist(ctx, 'w', 'model.json')
    except Unmodelled as exc:
        raise Unmodelled(f'persist_to_json_file: {exc}')
    if out.end != 'return' or len(docs.docs) != 1:
        raise Unmodelled(f'persist_to_json_file ends in {out.end} {out.value!r} after encoding {len(docs.docs)} documents')
    payload, kw = docs.docs[0]
    want = {'cells': 'CELLS', 'defined_names': 'NAMES', 'formulae': 'FORMULAE', 'ranges': 'RANGES'}
    ctx.expect(isinstance(payload, dict) and set(payload) == MAPS, fn, 'persisted keys',
               f'persisted keys are {sorted(payload) if isinstance(payload, dict) else payload}, expected {sorted(MAPS)}')
    if isinstance(payload, dict):
        for k, v in sorted(want.items()):
            ctx.expect(payload.get(k) == v, fn, f'persisted[{k!r}] = self.{k}', f'key {k!r} stores {payload.get(k)!r}, not the {k} map of the model')
    ctx.expect(kw.get('keys') is True, fn, 'encode keys=True', f'jsonpickle.encode is called with keys={kw.get("keys")!r}')
    for opt in ('unpicklable', 'make_refs'):
        ctx.expect(kw.get(opt, True) is True, fn, f'encode option {opt} default', f'encode is called with {opt}={kw.get(opt)!r}')
    kind, text = _content(fs, 'model.json')
    try:
        ok = kind == 'plain' and _json.loads(text).get('document') == 0
    except ValueError:
        ok = False
    ctx.expect(ok, fn, 'the encoded document is what is written', f'the file holds {text[:80] if text else text!r}..., not the encoded jsonpickle document and nothing else')
    try:
        rfn, rme, rfs, rdocs, rout = _run_persist(ctx, 'r', 'model.json')
    except Unmodelled as exc:
        raise Unmodelled(f'construct_from_json_file: {exc}')
    if rout.end != 'return' or len(rdocs.decoded) != 1:
        raise Unmodelled(f'construct_from_json_file ends in {rout.end} {rout.value!r} after decoding {len(rdocs.decoded)} documents')
    dkw = rdocs.decoded[0][1]
    ctx.ok(rfn, 'the bytes read are what is decoded')
    ctx.expect(dkw.get('keys') is True and kw.get('keys') is True, rfn, 'keys=True on both sides',
               f'encode uses keys={kw.get("keys")!r}, decode keys={dkw.get("keys")!r}: non-string keys are not restored alike')
    classes = dkw.get('classes') or ()
    refs = {c.ref for c in classes if isinstance(c, Ref)} if isinstance(classes, (tuple, list, set)) else set()
    for cname, ref in (('XLCell', 'pkg:xltypes:XLCell'), ('XLFormula', 'pkg:xltypes:XLFormula'), ('XLRange', 'pkg:xltypes:XLRange'),
                       ('f_token', 'pkg:tokenizer:f_token')):
        ctx.expect(ref in refs, rfn, f'decode registers {cname}', f'{cname} is not among the classes handed to jsonpickle.decode')
    for attr, val in (('cells', 'C'), ('defined_names', 'D'), ('formulae', 'F'), ('ranges', 'R')):
        ctx.expect(rme.f.get(attr) == val, rfn, f'self.{attr} = data[{attr!r}]',
                   f'attribute {attr} is restored as {rme.f.get(attr)!r} (C=cells, D=defined_names, F=formulae, R=ranges)')
    ctx.floor(18, 'writer/reader agreement facts')


def rule_2(ctx):
    mm = ctx.mod('model')
    for fname, want in WITNESS_FILES:
        try:
            fn, me, fs, docs, out = _run_persist(ctx, 'w', fname)
        except Unmodelled as exc:
            raise Unmodelled(f'persist_to_json_file({fname!r}): {exc}')
        kind, text = _content(fs, fname) if out.end == 'return' else (f'<{out.end} {out.value!r}>', None)
        ctx.expect(kind == want, fn, f'{fname!r}: compression chosen by the lower-cased extension',
                   f'{fname!r} is written {kind}, expected {want} (gzip exactly for the extensions .gz/.gzip in any letter case)')
        ctx.expect(text is not None and '"document": 0' in text, fn, f'{fname!r}: holds the whole document',
                   f'{fname!r} holds {text[:60] if text else text!r} after persist_to_json_file')
        try:
            rfn, rme, rfs, rdocs, rout = _run_persist(ctx, 'r', fname, stored=kind if kind in ('plain', 'gzip') else want)
        except Unmodelled as exc:
            raise Unmodelled(f'construct_from_json_file({fname!r}): {exc}')
        ctx.expect(rout.end == 'return' and rme.f.get('cells') == 'C', rfn, f'{fname!r}: read the way it is written',
                   f'{fname!r} is written {kind} but construct_from_json_file on such a file ends in {rout.end} {rout.value!r} with cells = {rme.f.get("cells")!r}: '
                   'the file cannot be restored')
    ctx.floor(24, 'file-name witnesses')


def rule_3(ctx):
    fm = ctx.mod('xlfunctions.func_xltypes')
    # value classes
    for cname in ('Number', 'Text', 'Boolean', 'DateTime', 'Blank'):
        cref = XLT + cname
        nm, new = ctx.res.class_attr(cref, '__new__')
        required = 0
        if isinstance(new, ast.FunctionDef):
            pos = new.args.args[1:]
            required = len(pos) - len(new.args.defaults)
        gm, g = ctx.res.class_attr(cref, '__getnewargs__')
        rm_, red = ctx.res.class_attr(cref, '__reduce__')
        rm2, red2 = ctx.res.class_attr(cref, '__getnewargs_ex__')
        ok = required == 0 or isinstance(g, ast.FunctionDef) or isinstance(red, ast.FunctionDef) or isinstance(red2, ast.FunctionDef)
        ctx.expect(ok, fm.cls(cname), f'{cname} instances are reconstructible',
                   f'{cname}.__new__ needs {required} argument(s) but the class defines neither __getnewargs__ nor __reduce__: '
                   'jsonpickle cannot rebuild values computed before persist() - they come back as plain dicts')
        if isinstance(g, ast.FunctionDef) and required:
            r = last_return(g)
            ok = r is not None and isinstance(r.value, ast.Tuple) and len(r.value.elts) == required \
                and ast.unparse(r.value.elts[0]) == 'self.value'
            ctx.expect(ok, g, f'{cname}.__getnewargs__ returns (self.value,)', '__getnewargs__ does not return the value the instance holds')
    slots = fm.cls('ExcelType')
    # error classes: pickle / jsonpickle / copy rebuild an exception as cls(*instance.args) - interpreted as written
    xm = ctx.mod('xlfunctions.xlerrors')
    from xlsa.guards import World
    for qual in xm.classes:
        cref = XLERR + qual
        if not is_excel_error_ref(ctx, cref):
            continue
        im, init = ctx.res.class_attr(cref, '__init__')
        required = len(init.args.args) - 1 - len(init.args.defaults)
        ctor_args = [(), ('Error in cell $Sheet1!A1',)] if required == 0 else [('#CODE!',), ('#CODE!', 'Error in cell $Sheet1!A1')]
        problems = []
        for a in ctor_args:
            world = World()
            it = Interp(ctx.a, xm, {'E': Ref(cref), 'a': a}, inline_pkg=True, world=world)
            out = it.run(ast.parse('e = E(*a)\nreturn e').body)
            if out.end != 'return' or not isinstance(out.value, Rec) or not isinstance(out.value.f.get('args'), tuple):
                raise Unmodelled(f'{qual}{a!r} ends in {out.end} {out.value!r}')
            stored = out.value.f['args']
            it2 = Interp(ctx.a, xm, {'E': Ref(cref), 'a': stored}, inline_pkg=True, world=world)
            out2 = it2.run(ast.parse('return E(*a)').body)
            if out2.end != 'return':
                problems.append(f'{qual}{a!r} keeps Exception.args == {stored!r}, and {qual}(*{stored!r}) ends in {out2.end} {out2.value!r}')
        ctx.expect(not problems, xm.cls(qual), f'{qual}(*args) accepts the stored exception arg(s)',
                   '; '.join(problems) + ': pickle/jsonpickle/copy rebuild an exception as cls(*args), so a model persisted with such an error '
                   'value cannot be restored (TypeError)')
    ctx.floor(13, 'value classes + error classes')


def rule_4(ctx):
    fn, me, fs_, docs_, out = _run_persist(ctx, 'r', 'model.json', build_code=True)
    ctx.expect(me.f.get('built') == 1, fn, 'build_code=True re-parses the formulas', 'construct_from_json_file(build_code=True) does not call build_code()')
    order_ok = all(me.f.get(a) in ('C', 'D', 'F', 'R') for a in MAPS)
    ctx.expect(order_ok, fn, 'maps restored before compiling', 'build_code() runs before all maps are restored')
    fn2, me2, fs2_, docs2_, out2 = _run_persist(ctx, 'r', 'model.json', build_code=False)
    ctx.expect(me2.f.get('built') == 0, fn2, 'build_code=False leaves the formulas uncompiled', 'the formulas are compiled although build_code is False')
    mm = ctx.mod('model')
    bc = mm.func('Model.build_code')
    parses = [c for c in flow.calls_in(bc) if isinstance(c.func, ast.Attribute) and c.func.attr == 'parse']
    stores = [a for a in walk_local(bc) if isinstance(a, ast.Assign) and isinstance(a.targets[0], ast.Attribute) and a.targets[0].attr == 'ast']
    ctx.expect(bool(parses) and bool(stores), bc, 'every formula cell gets a freshly parsed AST', 'build_code does not parse the formula of every cell')
    ctx.floor(4, 'recompilation facts')


def rule_5(ctx):
    """The formula ASTs are part of the persisted state (XLFormula.ast is pickled): whatever an evaluation leaves on a node
    must be rebuildable by the JSON persistence. Functions, signatures, lambdas, generators are not."""
    from . import corelemma
    n = 0
    for s in corelemma.node_state_stores(ctx):
        n += 1
        short = s['cref'].split(':')[-1]
        ctx.expect(s['unsafe'] is None, s['node'], f'{short}: object left on a persisted node by an evaluation',
                   f'{short}.{s["fn"].name} stores {s["unsafe"]} on the node (attribute {s["attr"]}): after an evaluation the model can be '
                   'written by persist_to_json_file but construct_from_json_file cannot rebuild that object (jsonpickle restores it as '
                   'plain lists/dicts or fails)')
    for cref in corelemma.node_classes(ctx):
        ctx.ok(ctx.res.lookup(cref)[1], f'{cref.split(":")[-1]}: evaluation-path stores enumerated')
    ctx.floor(4, 'node classes')


def _col_index(letters):
    n = 0
    for ch in str(letters).upper():
        n = n * 26 + (ord(ch) - 64)
    return n


_WITNESS_FIELDS = {
    'pkg:xltypes:XLRange': [
        ('a 2x2 range', {'address_str': 'Sheet1!A1:B2', 'name': 'Sheet1!A1:B2', 'cells': [['Sheet1!A1', 'Sheet1!B1'], ['Sheet1!A2', 'Sheet1!B2']],
                         'sheet': 'Sheet1', 'value': None}),
        ('a named column', {'address_str': 'Data!C1:C3', 'name': 'block', 'cells': [['Data!C1'], ['Data!C2'], ['Data!C3']], 'sheet': 'Data', 'value': None}),
    ],
    'pkg:xltypes:XLFormula': [
        ('a formula', {'formula': '=A1+1', 'sheet_name': 'Sheet1', 'reference': None, 'evaluate': True, 'tokens': [], 'terms': ['Sheet1!A1'],
                       'associated_cells': {'Sheet1!A1'}, 'ast': None}),
    ],
}


def _other_state_round_trips(ctx, cref, m, cnode, own):
    """__getstate__ / __setstate__ of a persisted class other than XLCell: taking the state leaves the instance as it was (the model
    that is persisted, copied or extracted from is used again), and a fresh instance given that state has every field back."""
    from xlsa.guards import World
    from . import values as V
    import copy
    short = cref.split(':')[-1]
    witnesses = _WITNESS_FIELDS.get(cref)
    if witnesses is None:
        ctx.unmodelled(cnode, f'{cref}: pickling hooks on a class without witness instances')
        return 0
    n = 0
    for label, fields in witnesses:
        world = World()
        src = Rec(cls=cref, **copy.deepcopy(fields))
        it = Interp(ctx.a, m, {'src': src, 'dst': Rec(cls=cref)}, inline_pkg=True, world=world, call_models=V.openpyxl_models())
        prog = 'state = src.__getstate__()\n' if '__getstate__' in own else 'state = dict(src.__dict__)\n'
        prog += 'state = dict(state)\n'        # what the pickler keeps is a snapshot
        prog += 'dst.__setstate__(state)\n' if '__setstate__' in own else 'dst.__dict__.update(state)\n'
        out = it.run(ast.parse(prog).body)
        n += 1
        if out.end == 'raise':
            ctx.bad(cnode, f'{short} state round trip with {label}', f'taking / restoring the state of {label} raises {out.value!r}')
            continue
        changed = {k: (v, src.f.get(k, '<missing>')) for k, v in fields.items() if src.f.get(k, '<missing>') != v}
        ctx.expect(not changed, cnode, f'{short}: taking the state of {label} leaves the instance unchanged',
                   f'after __getstate__ the instance itself differs: {changed} - persisting (or deep-copying, extracting from) a model must not '
                   'alter it; the original is evaluated again afterwards')
        dst = it.env['dst']
        lost = {k: (v, dst.f.get(k, '<missing>')) for k, v in fields.items() if dst.f.get(k, '<missing>') != v}
        n += 1
        ctx.expect(not lost, cnode, f'{short} state round trip with {label}',
                   f'{label} comes back from __getstate__/__setstate__ with {lost}: the restored model differs from the persisted one')
    return n


def rule_6(ctx):
    """Custom pickling hooks (__getstate__ / __setstate__ / __reduce__) of the classes that end up in the persisted maps:
    state taken from a witness instance and put into a fresh one must give back every field - whatever value the cell holds
    (a computed 0 / FALSE / blank is a value, not "unset")."""
    from xlsa.guards import World
    xm = ctx.mod('xltypes')
    n = 0
    hooks = ('__getstate__', '__setstate__', '__reduce__', '__reduce_ex__')
    persisted = [f'pkg:{m.name}:{q}' for m in ctx.repo.modules.values() for q in m.classes
                 if m.name in ('xltypes', 'tokenizer', 'ast_nodes')]
    for cref in sorted(persisted):
        m, cnode = ctx.res.lookup(cref)
        own = [h for h in hooks if isinstance(ctx.res.class_attr(cref, h)[1], ast.FunctionDef)]
        ctx.ok(cnode, f'{cref.split(":")[-1]}: pickling hooks enumerated ({", ".join(own) or "none - default protocol"})')
        n += 1
        if not own or cref != 'pkg:xltypes:XLCell' and not cref.startswith('pkg:xltypes:'):
            continue
        if any(h.startswith('__reduce') for h in own):
            ctx.unmodelled(cnode, f'{cref}: __reduce__ protocol')
            continue
        if cref != 'pkg:xltypes:XLCell':
            n += _other_state_round_trips(ctx, cref, m, cnode, own)
            continue
        # witnesses: one per kind of content
        def val(cls, v):
            return Rec(cls=XLT + cls, value=v)
        contents = [('the computed number 0', val('Number', 0)), ('the computed FALSE', val('Boolean', False)), ('a computed blank', val('Blank', None)),
                    ('the computed number 5', val('Number', 5)), ('the constant 0', 0), ('the constant text ""', ''), ('no value', None),
                    ('the constant 7.5', 7.5)]
        for label, content in contents:
            world = World()
            fields = {'address': 'Sheet1!B2', 'sheet': 'Sheet1', 'row': '2', 'row_index': 2, 'column': 'B', 'column_index': 2, 'value': content,
                      'formula': None, 'defined_names': ['nm'] if label == 'no value' else []}
            if cref != 'pkg:xltypes:XLCell':
                continue
            src = Rec(cls=cref, **fields)
            models = {'ext:openpyxl.utils.cell.column_index_from_string': _col_index, 'ext:openpyxl.utils.column_index_from_string': _col_index}
            it = Interp(ctx.a, m, {'src': src, 'dst': Rec(cls=cref)}, inline_pkg=True, world=world, call_models=models)
            prog = 'state = src.__getstate__()\n' if '__getstate__' in own else 'state = dict(src.__dict__)\n'
            prog += 'dst.__setstate__(state)\n' if '__setstate__' in own else 'dst.__dict__.update(state)\n'
            out = it.run(ast.parse(prog).body)
            if out.end == 'raise':
                ctx.bad(cnode, f'{cref.split(":")[-1]} state round trip with {label}', f'taking / restoring the state of a cell holding {label} raises {out.value!r}')
                continue
            dst = it.env['dst']
            lost = {k: (fields[k], dst.f.get(k, '<missing>')) for k in fields
                    if not (k in dst.f and (dst.f[k] is fields[k] or (not isinstance(fields[k], Rec) and dst.f[k] == fields[k]
                                                                      and type(dst.f[k]) is type(fields[k]))))}
            n += 1
            ctx.expect(not lost, cnode, f'{cref.split(":")[-1]} state round trip with {label}',
                       f'a cell holding {label} comes back from __getstate__/__setstate__ with {lost}: what an evaluation stored in the cell '
                       '(0, FALSE, a blank are values) is not in the persisted state, so the restored model differs from the persisted one')
    ctx.floor(8, 'persisted classes')


FILE_BIG = {'A1': 1, 'A2': 2, 'A3': 3, 'A4': 4, 'B1': '=SUM(A1:A4)', 'B2': '=A1*A2+A3*A4', 'B3': '=B1&" total, "&B2&" mixed"', 'B4': '=IF(B1>5,"large workbook","small")',
            'C1': '=B1+B2', 'C2': '=C1*2', 'C3': '=MAX(A1:A4)-MIN(A1:A4)', 'C4': 'a fairly long text constant that makes this document the larger one'}
FILE_SMALL = {'A1': 7, 'B1': '=A1+1'}
FILE_WANT = {'big': {'B1': 10, 'B2': 14, 'C1': 24, 'C2': 48, 'C3': 3}, 'small': {'B1': 8}}


def rule_7(ctx):
    """Files have histories: persist_to_json_file and construct_from_json_file interpreted as written over a file system in memory
    (names -> bytes; open / os.open / gzip with their truncation, creation and position rules) - a name written several times, by
    larger and smaller models, plain and compressed, next to other files: what is restored is the model persisted last."""
    from . import workbook as W
    from . import scenarios as S
    from . import vfs
    mm = ctx.mod('model')
    anchor = mm.func('Model.persist_to_json_file')
    n = 0
    for fname in ('model.json', 'model.gz', 'state.GZIP', 'plain'):
        for order in (('big', 'small'), ('small', 'big'), ('big', 'small', 'small'), ('small',), ('big', 'big', 'small', 'big')):
            fs, docs = vfs.VFS(), vfs.Documents()
            models = dict(fs.models())
            models.update(docs.models())
            fs.files['other' + fname] = bytearray(b'not a model')
            base = W.Workbook(ctx, {'A1': 1}, models=models)
            last = None
            ok = True
            for which in order:
                wb = W.Workbook(ctx, FILE_BIG if which == 'big' else FILE_SMALL, models=models, world=base.world)
                out = wb._run(mm, {'m': wb.model, 'f': fname, 'open': Ref('builtin:open')}, 'return m.persist_to_json_file(f)')
                if out.end != 'return':
                    ok = False
                    ctx.bad(anchor, f'{fname}: written {" then ".join(order)}', f'persist_to_json_file({fname!r}) of the {which} model ends in {out.end} {out.value!r}')
                    break
                last = which
            if not ok:
                continue
            out = base._run(mm, {'f': fname, 'open': Ref('builtin:open')}, 'n = Model()\nn.construct_from_json_file(f, build_code=True)\nreturn n')
            n += 1
            label = f'{fname}: written {" then ".join(order)}, then restored'
            if out.end != 'return' or not isinstance(out.value, Rec):
                ctx.bad(anchor, label, f'after persisting the {", the ".join(order)} model to {fname!r} (in this order), construct_from_json_file({fname!r}) ends in '
                        f'{out.end} {out.value!r}; the file holds {len(fs.files.get(fname, b""))} bytes, the document written last has '
                        f'{fs.log and [e for e in fs.log if e[0] == "write" and e[1] == fname][-1][2]} - a persisted model restores to the model written last')
                continue
            restored = W.Workbook.adopt(base, out.value)
            cells = restored.model.f.get('cells')
            src = FILE_BIG if last == 'big' else FILE_SMALL
            want_keys = sorted('Sheet1!' + k for k in src)
            have = sorted(cells) if isinstance(cells, dict) else repr(cells)
            wrong = []
            if have != want_keys:
                wrong.append(f'cells {have} instead of {want_keys}')
            else:
                for a, w in FILE_WANT[last].items():
                    got = restored.value('Sheet1!' + a)
                    if not S.same(got, w):
                        wrong.append(f'{a} evaluates to {got!r} instead of {w!r}')
            ctx.expect(not wrong, anchor, label,
                       f'after persisting the {", the ".join(order)} model to {fname!r} (in this order) the restored model is not the {last} one: ' + '; '.join(wrong[:3]))
            untouched = bytes(fs.files.get('other' + fname, b'')) == b'not a model'
            ctx.expect(untouched, anchor, f'{fname}: written {" then ".join(order)}, other files untouched',
                       f'persisting to {fname!r} changed the file {"other" + fname!r}')
            n += 1
    # persisted, overwritten through every public route, persisted again: the file holds the state of the LAST persist; constants
    # that are equal for Python but not for the spreadsheet (1, TRUE, 1.0; 0, FALSE) come back as what they were
    typed = {'A1': 1, 'A2': True, 'A3': 1.0, 'A4': 0, 'A5': False, 'A6': 10, 'B1': '=A1&"|"&A2&"|"&A3', 'B2': '=IF(A2=TRUE,"yes","no")', 'B3': '=ISNUMBER(A2)',
             'B4': '=A4&"/"&A5', 'B5': '=SUM(A1:A6)', 'B6': '=A6*2'}
    routes = [('Evaluator.set_cell_value', lambda wb, a, v: wb.set(a, v)), ('Model.set_cell_value', lambda wb, a, v: wb.set_model(a, v)),
              ('Evaluator.set_cell_value with an XLCell address', lambda wb, a, v: wb.set_cell(a, v)),
              ('Model.set_cell_value with an XLCell address', lambda wb, a, v: wb.set_cell(a, v, through_model=True))]
    for fname in ('typed.json', 'typed.gz'):
        for rname, setter in routes:
            fs, docs = vfs.VFS(), vfs.Documents()
            models = dict(fs.models())
            models.update(docs.models())
            wb = W.Workbook(ctx, typed, models=models)
            want_first = {a: wb.value('Sheet1!' + a) for a in ('B1', 'B2', 'B3', 'B4', 'B5', 'B6')}
            out = wb._run(mm, {'m': wb.model, 'f': fname}, 'return m.persist_to_json_file(f)')
            setter(wb, 'Sheet1!A6', 20)
            setter(wb, 'Sheet1!A7', 5)
            out2 = wb._run(mm, {'m': wb.model, 'f': fname}, 'return m.persist_to_json_file(f)')
            res = wb._run(mm, {'f': fname}, 'n = Model()\nn.construct_from_json_file(f, build_code=True)\nreturn n')
            label = f'{fname}: persisted, A6 and A7 set through {rname}, persisted again, restored'
            n += 1
            if out.end != 'return' or out2.end != 'return' or res.end != 'return' or not isinstance(res.value, Rec):
                ctx.bad(anchor, label, f'persist / persist / restore end in {out.end}, {out2.end}, {res.end} {res.value!r}')
                continue
            restored = W.Workbook.adopt(wb, res.value)
            wrong = []
            final = dict(typed)
            final.update({'A6': 20, 'A7': 5})
            fresh = W.Workbook(ctx, final)
            expect = {a: fresh.value('Sheet1!' + a) for a in want_first}          # what a model built directly from the final contents gives
            for a, w in expect.items():
                got = restored.value('Sheet1!' + a)
                if not S.same(got, w):
                    wrong.append(f'{a} = {typed[a]} evaluates to {got!r} instead of {w!r}')
            cells = restored.model.f.get('cells')
            for a, w in (('A1', 1), ('A2', True), ('A3', 1.0), ('A4', 0), ('A5', False), ('A6', 20), ('A7', 5)):
                c = cells.get('Sheet1!' + a) if isinstance(cells, dict) else None
                v = c.f.get('value') if isinstance(c, Rec) else '<no cell>'
                if type(v) is not type(w) or v != w:
                    wrong.append(f'{a} holds {v!r} ({type(v).__name__}) instead of {w!r} ({type(w).__name__})')
            ctx.expect(not wrong, anchor, label, f'{label}: ' + '; '.join(wrong[:4]) + ' - the restored model is the model as it was persisted last, value by value')
    ctx.floor(48, 'file histories')


RULES = [
    ('C12.1', 'writer and reader agree on keys, attributes and options', rule_1),
    ('C12.2', 'compression predicate agrees', rule_2),
    ('C12.3', 'stored value and error classes are reconstructible', rule_3),
    ('C12.4', 'restoring recompiles the formulas', rule_4),
    ('C12.5', 'evaluation leaves only rebuildable objects on the persisted formula nodes', rule_5),
    ('C12.6', 'custom pickling hooks of persisted classes give every field back', rule_6),
    ('C12.7', 'file histories over a file system in memory: what is restored is what was persisted last', rule_7),
]
