"""C01 - operator precedence and associativity (structural necessary conditions)."""
import ast
import re
from fractions import Fraction

from xlsa import Unmodelled, AnchorMissing
from xlsa.consteval import Ref, Obj, Unfoldable
from xlsa.guards import Interp, Rec, PyModel, Opaque
from xlsa.load import walk_local, names_in
from xlsa import flow
from .common import (BINARY_CLASSES, ORACLE_CLASS, UNARY_MINUS, PERCENT, PY_BINOP, PY_CMPOP,
                     Lin, linear, func_params, last_return, value_returns, const_compares,
                     raise_class, XLERR, XLT)

PROPERTY = 'C01'
EXPLANATION = (
    'Decided from source, by interpreting it on witness formulas (constant propagation; nothing of the library is imported '
    "or run): (C01.1) the precedence/associativity table read by the shunting-yard loop realises Excel's operator classes "
    'as a relation; (C01.2) the tree FormulaParser.parse builds for =A1 op1 B1 op2 C1, for every ordered pair of the 12 '
    'binary operators - tokenizer, its post-processing, the shunting-yard loop and build_ast interpreted as written, the '
    "tree read back through the node classes' own eval with symbolic operator functions - is ((A1 op1 B1) op2 C1) exactly "
    'when op1 binds at least as tightly as op2; (C01.3) operand and argument order on twelve witness formulas with non-'
    'commutative operators, parsed and read back end to end; (C01.4) =A1 op B1 parsed and evaluated through the real '
    'operator functions on number cells computes A1 op B1 for the operand pairs (7,2), (2,7), (5,5), prefix minus negates, '
    'the arithmetic special methods of the value classes compute self (op) other on converted operands and divide-by-a-'
    'converted-zero gives #DIV/0! for every spelling of zero; (C01.5) unary minus / plus on either side of every binary '
    "operator, doubled, before parentheses, and percent literals next to every binary operator give the trees of Excel's "
    'grammar; (C01.6) by tokenizing and parsing witnesses: after a reference, a parenthesised expression or a call the '
    'percent sign is a postfix operator token (known finding F01), after a number literal the literal stays one operand '
    '(value/100) or carries the postfix operator, the factor is 1/100; (C01.7) the scientific-notation guard accepts Excel '
    'number mantissas; (C01.8) nothing evaluation-dependent is stored on operator/operand nodes and operator trees '
    'evaluated twice on the same nodes with changed cell values use the values of that evaluation; (C01.9) parentheses, '
    'chains of one operator, mixed chains, and blanks around operators and at both ends leave / give the expected trees. '
    '(C01.10) one witness workbook holding the parenthesised / chained / plain formula twins side by side and operators '
    'over cells that hold 0, compiled and evaluated as written: every cell equals the same formula evaluated on its own. '
    '(C01.7) the scientific-notation guard is decided by tokenizing witness formulas.'
    ' (C01.10) also: numeric literals written .5 / 5., and the same formulas after the operands were assigned through every public route (Evaluator.set_cell_value, Model.set_cell_value, both with XLCell addresses) and on a second evaluator.')
NOT_DECIDED = ('that the tokenizer emits the right token stream for every rendering (blanks, '
               'redundant parentheses), and the numeric values computed')
TRUSTED = ['Excel operator classes transcribed from the property statement (rules/common.py)', 'workbook scenarios: pandas storage of range arrays as row-major rows, numpy on Python numbers (IEEE results, 64-bit integer wrap), dateutil.parser.parse rejecting texts that are no dates, openpyxl address arithmetic, inspect.signature built from the FunctionDef']


def _operators_table(ctx):
    """The module-level dict of operator records of the parser (found by content, not by name)."""
    m = ctx.mod('parser')
    cands = {}
    for name in m.assigns:
        node = m.assign(name)
        if not isinstance(node, ast.Dict):
            continue
        try:
            val = ctx.fold(node, m)
        except Unfoldable:
            continue
        if isinstance(val, dict) and val and all(isinstance(v, Obj) for v in val.values()):
            try:
                for v in val.values():
                    _prec_assoc(v)
            except Unmodelled:
                continue
            cands[name] = val
    if len(cands) != 1:
        raise AnchorMissing(f'parser: {len(cands)} module-level tables of operator records (precedence, associativity)')
    name = next(iter(cands))
    return m, name, cands[name]


def _prec_assoc(rec):
    """(precedence, associativity) from a folded Operator record, by field role."""
    nums = [(k, v) for k, v in rec.fields.items() if isinstance(v, (int, float)) and not isinstance(v, bool)]
    assoc = [(k, v) for k, v in rec.fields.items() if v in ('left', 'right')]
    if len(nums) != 1 or len(assoc) != 1:
        raise Unmodelled(f'operator record fields not recognised: {rec.fields}')
    return nums[0][1], assoc[0][1]


def rule_1(ctx):
    m, name, table = _operators_table(ctx)
    node = m.assign(name)
    ops = {}
    for key in list(BINARY_CLASSES) + [UNARY_MINUS, PERCENT]:
        if key not in table:
            ctx.bad(node, f'{name}[{key!r}]', f'operator {key!r} missing from the precedence table')
            continue
        ops[key] = _prec_assoc(table[key])
    for a in ops:
        wrong = []
        for b in ops:
            if a == b:
                continue
            want = (ORACLE_CLASS[a] > ORACLE_CLASS[b]) - (ORACLE_CLASS[a] < ORACLE_CLASS[b])
            got = (ops[a][0] > ops[b][0]) - (ops[a][0] < ops[b][0])
            if want != got:
                wrong.append(b)
        want_assoc = 'right' if a == UNARY_MINUS else 'left'
        ok = not wrong and ops[a][1] == want_assoc
        why = ''
        if wrong:
            why = (f'precedence of {a!r} relative to {wrong} contradicts Excel\'s classes '
                   f'(u- > % > ^ > */ > +- > & > comparisons)')
        elif ops[a][1] != want_assoc:
            why = f'{a!r} must associate to the {want_assoc}, table says {ops[a][1]}'
        ctx.expect(ok, node, f'{name}[{a!r}]', why)
    ctx.floor(14, '12 binary operators + unary minus + percent')


def _tok_consts(ctx):
    tm = ctx.mod('tokenizer')
    cref = 'pkg:tokenizer:ExcelParserTokens'
    out = {}
    for cm, cnode in ctx.res.mro(cref):
        for stmt in cnode.body:
            if isinstance(stmt, ast.Assign) and isinstance(stmt.targets[0], ast.Name):
                try:
                    out[stmt.targets[0].id] = ctx.fold(stmt.value, cm)
                except Unfoldable:
                    pass
    if 'TOK_TYPE_OP_IN' not in out:
        raise AnchorMissing('tokenizer.ExcelParserTokens.TOK_TYPE_OP_IN')
    return out


def _dispatch_arms(ctx):
    """(module, shunting_yard, loop variable, [arms]) of the main token-dispatch if/elif chain."""
    m = ctx.mod('parser')
    fn = m.func('FormulaParser.shunting_yard')
    loops = [s_ for s_ in fn.body if isinstance(s_, ast.For) and isinstance(s_.target, ast.Name)]
    main = None
    for lp in loops:
        chain = [s_ for s_ in lp.body if isinstance(s_, ast.If)]
        if chain and any(isinstance(c, ast.Call) and isinstance(c.func, ast.Attribute) and c.func.attr == 'pop' for c in ast.walk(lp)) \
                and any(isinstance(w, ast.While) for w in ast.walk(lp)):
            main = lp
    if main is None:
        raise AnchorMissing('shunting_yard: main dispatch loop')
    arms = []
    for st in main.body:
        node = st
        while isinstance(node, ast.If):
            arms.append(node)
            if len(node.orelse) == 1 and isinstance(node.orelse[0], ast.If):
                node = node.orelse[0]
            else:
                break
    return m, fn, main.target.id, arms


def _operator_branch(ctx):
    """The arm of the dispatch chain that an operator token selects (decided by evaluating the arm tests)."""
    m, fn, tokname, arms = _dispatch_arms(ctx)
    consts = _tok_consts(ctx)
    probe = dict(tvalue='+', ttype=consts['TOK_TYPE_OP_IN'], tsubtype=consts['TOK_SUBTYPE_MATH'])
    arm = None
    for a in arms:
        it = Interp(ctx.a, m, {tokname: Rec(**probe)}, self_class='pkg:parser:FormulaParser', scope_fn=fn)
        try:
            if it.truth(it.ev(a.test)):
                arm = a
                break
        except Unmodelled as exc:
            raise Unmodelled(f'dispatch arm test `{ast.unparse(a.test)[:40]}`: {exc}')
    if arm is None:
        raise AnchorMissing('shunting_yard: no arm of the dispatch chain accepts an infix operator token')
    whiles = [w for st_ in arm.body for w in ast.walk(st_) if isinstance(w, ast.While)]
    if len(whiles) != 1:
        raise Unmodelled(f'operator arm has {len(whiles)} loops')
    stack_names = [c.func.value.id for st_ in arm.body for c in ast.walk(st_) if isinstance(c, ast.Call)
                   and isinstance(c.func, ast.Attribute) and c.func.attr == 'pop'
                   and isinstance(c.func.value, ast.Name)]
    if not stack_names:
        raise Unmodelled('no <stack>.pop() inside the operator arm')
    return m, fn, arm, tokname, stack_names[0], consts


def _kinds(consts):
    """13 operator kinds as abstract tokens the tokenizer emits."""
    infix = consts['TOK_TYPE_OP_IN']
    prefix = consts['TOK_TYPE_OP_PRE']
    sub = {'&': consts['TOK_SUBTYPE_CONCAT']}
    for c in ('=', '<', '>', '<=', '>=', '<>'):
        sub[c] = consts['TOK_SUBTYPE_LOGICAL']
    kinds = {}
    for op in BINARY_CLASSES:
        kinds[op] = dict(tvalue=op, ttype=infix, tsubtype=sub.get(op, consts['TOK_SUBTYPE_MATH']))
    kinds[UNARY_MINUS] = dict(tvalue='-', ttype=prefix, tsubtype='')
    return kinds


def _rule_2_fragment(ctx):
    m, fn, arm, tokname, stackname, consts = _operator_branch(ctx)
    kinds = _kinds(consts)
    # the arm must be entered for every operator kind
    wh = next(w for st_ in arm.body for w in ast.walk(st_) if isinstance(w, ast.While))
    for inc, itok in kinds.items():
        for top, ttok in kinds.items():
            env = {tokname: Rec(**itok), stackname: [Rec(**ttok)], 'self': Rec()}
            it = Interp(ctx.a, m, env, effect_receivers=(stackname,), record_unknown=True, self_class='pkg:parser:FormulaParser',
                        scope_fn=fn, call_models=_node_models())
            it.while_once = True        # the pop loop's guard is the decision: one guarded iteration on the abstract stack top
            # evaluate the arm's own test first: operator tokens must reach this arm
            entered = it.truth(it.ev(arm.test))
            construct = f'pop-guard[top={top!r},incoming={inc!r}]'
            if not entered:
                ctx.bad(arm, construct, f'operator token {inc!r} does not reach the operator branch')
                continue
            # subscripts of the stack must see the abstract top: model stack[-1]
            out = it.run(arm.body)
            popped = out.called(f'{stackname}.pop') and out.loop_entered
            if out.loop_entered is None:
                raise Unmodelled('operator loop not reached in operator branch')
            if inc == UNARY_MINUS:
                want = ORACLE_CLASS[top] > ORACLE_CLASS[inc]
            else:
                want = ORACLE_CLASS[top] >= ORACLE_CLASS[inc]
            ctx.expect(popped == want, wh, construct,
                       f'shunting-yard {"pops" if popped else "keeps"} stacked {top!r} when {inc!r} '
                       f'arrives; Excel grammar requires {"pop" if want else "keep"}')
    ctx.floor(169, '13 x 13 operator kinds')
    # a non-operator on top of the stack (parenthesis / function) is never popped by an operator
    for label, ttok in (('(', dict(tvalue='(', ttype=consts['TOK_TYPE_SUBEXPR'], tsubtype=consts['TOK_SUBTYPE_START'])),
                        ('func', dict(tvalue='SUM', ttype=consts['TOK_TYPE_FUNCTION'], tsubtype=''))):
        env = {tokname: Rec(**kinds['+']), stackname: [Rec(**ttok)], 'self': Rec()}
        it = Interp(ctx.a, m, env, effect_receivers=(stackname,), record_unknown=True, self_class='pkg:parser:FormulaParser',
                        scope_fn=fn, call_models=_node_models())
        it.while_once = True
        out = it.run(arm.body)
        ctx.expect(not (out.called(f'{stackname}.pop') and out.loop_entered), wh,
                   f'pop-guard[top={label},incoming=+]',
                   'an operator pops a parenthesis/function marker off the stack')


def _node_models():
    return {}


def rule_3(ctx):
    """Operand order through build_ast and the node classes, end to end: the left operand of a written operator is the first
    argument of its function and the right operand the second, a prefix operator takes the operand that follows it, call arguments
    keep their written order - for non-commutative operators, on distinguishable operands."""
    from . import parsetables as P
    pm = ctx.mod('parser')
    build = pm.func('FormulaParser.build_ast')
    models = P.operator_models(ctx)
    rows = [('=A1-B1', ('op', '-', 'A1', 'B1')), ('=A1/B1', ('op', '/', 'A1', 'B1')), ('=A1^B1', ('op', '^', 'A1', 'B1')), ('=A1&B1', ('op', '&', 'A1', 'B1')),
            ('=A1<B1', ('op', '<', 'A1', 'B1')), ('=A1>=B1', ('op', '>=', 'A1', 'B1')), ('=-A1', ('op', '-', 'A1')), ('=B1--A1', ('op', '-', 'B1', ('op', '-', 'A1'))),
            ('=F(A1,B1,C1)', ('call', 'F', 'A1', 'B1', 'C1')), ('=F(C1,A1-B1,G(B1,A1))', ('call', 'F', 'C1', ('op', '-', 'A1', 'B1'), ('call', 'G', 'B1', 'A1'))),
            ('=A1-B1-C1', ('op', '-', ('op', '-', 'A1', 'B1'), 'C1')), ('=A1/(B1-C1)', ('op', '/', 'A1', ('op', '-', 'B1', 'C1')))]
    for formula, want in rows:
        got = P.parse_tree(ctx, formula, models)
        ctx.expect(got == P.refify(want), build, f'operand order: {formula}',
                   f'{formula} is read as {got!r}, expected {want!r}: operands and arguments must keep their written order (A-B is not B-A)')
    ctx.floor(12, 'operand-order witnesses')


def _table(ctx, modname, name):
    m = ctx.mod(modname)
    node = m.assign(name)
    val = ctx.fold(node, m)
    if not isinstance(val, dict):
        raise Unmodelled(f'{name} is not a dict literal')
    return m, node, val


def eval_formula(ctx, formula, cells, models=None):
    """Value of a witness formula: parsed by FormulaParser.parse as written, evaluated by the node classes as written with the
    real operator functions (the objects their decorators produce); cell references read `cells` (value-class instances)."""
    from . import values as V
    from xlsa.guards import World
    pm = ctx.mod('parser')
    am = ctx.mod('ast_nodes')
    world = World()
    it = Interp(ctx.a, pm, {'p': Rec(cls='pkg:parser:FormulaParser'), 'f': formula}, inline_pkg=True, world=world)
    out = it.run([ast.parse('return p.parse(f, {})').body[0]])
    if out.end != 'return' or not isinstance(out.value, Rec):
        return (out.end, V.norm(out.value))
    cm = dict(V.numpy_models())
    cm.update(models or {})
    cm['pkg:ast_nodes:RangeNode.eval'] = lambda self_, context: cells[self_.get('token').get('tvalue')]
    ev = Interp(ctx.a, am, {'node': out.value, 'context': Rec(cls='pkg:ast_nodes:EvalContext', ref='S!Z9', sheet='S', refsheet='S', namespace={})},
                inline_pkg=True, world=world, call_models=cm)
    res = ev.run([ast.parse('return node.eval(context)').body[0]])
    return V.norm(res.value) if res.end == 'return' else (res.end, V.norm(res.value))


def rule_4(ctx):
    """operator text -> function -> arithmetic: `=A1 op B1` parsed and evaluated through the real operator functions on number
    cells, for the operand pairs (7, 2), (2, 7) and (5, 5) - every operator must compute its own Python operation with the operands
    in written order; prefix minus negates; the arithmetic special methods of the value classes compute self (op) other."""
    import operator as op_
    from . import values as V
    am = ctx.mod('ast_nodes')
    anchor = am.func('OperatorNode.eval')
    table = {'^': op_.pow, '*': op_.mul, '/': op_.truediv, '+': op_.add, '-': op_.sub, '=': op_.eq, '<>': op_.ne, '<': op_.lt, '>': op_.gt,
             '<=': op_.le, '>=': op_.ge, '&': lambda a, b: f'{a}{b}'}
    for op, fn in table.items():
        wrong = []
        for a, b in ((7, 2), (2, 7), (5, 5)):
            got = eval_formula(ctx, f'=A1{op}B1', {'A1': V.num(a), 'B1': V.num(b)})
            want = fn(a, b)
            val = got[1] if isinstance(got, tuple) and len(got) == 2 and got[0] in ('Number', 'Boolean', 'Text') else got
            if isinstance(val, Rec) or isinstance(want, bool) != isinstance(val, bool) or (val != want and not (
                    isinstance(val, (int, float)) and isinstance(want, (int, float)) and abs(val - want) < 1e-12)):
                wrong.append(f'A1={a}, B1={b}: {got!r} instead of {want!r}')
        ctx.expect(not wrong, anchor, f'INFIX_OP_TO_FUNC[{op!r}]',
                   f'=A1{op}B1 does not compute A1 {op} B1 with the operands in written order: ' + '; '.join(wrong))
    for f, cells, want in (('=-A1', {'A1': V.num(7)}, -7), ('=-A1', {'A1': V.num(-2.5)}, 2.5), ('=--A1', {'A1': V.num(3)}, 3),
                           ('=50%', {}, 0.5), ('=A1*50%', {'A1': V.num(8)}, 4.0),
                           # a whole exponent however it is spelt or stored: float cell, quotient, percent, scientific literal
                           ('=A1^B1', {'A1': V.num(-2), 'B1': V.num(2.0)}, 4), ('=(-2)^(4/2)', {}, 4), ('=-2^200%', {}, 4), ('=(-3)^2E0', {}, 9),
                           ('=1-A1^(6/3)*2', {'A1': V.num(-3)}, -17), ('=A1^B1', {'A1': V.num(-2), 'B1': V.num(3.0)}, -8), ('=2^-2', {}, 0.25),
                           ('=A1^B1', {'A1': V.num(2.0), 'B1': V.num(10)}, 1024), ('=10^20/10^19', {}, 10), ('=2^0.5*2^0.5', {}, 2.0000000000000004)):
        got = eval_formula(ctx, f, cells)
        val = got[1] if isinstance(got, tuple) and len(got) == 2 and got[0] == 'Number' else got
        ctx.expect(isinstance(val, (int, float)) and not isinstance(val, bool) and abs(val - want) < 1e-12, anchor,
                   "PREFIX_OP_TO_FUNC['-']" if f in ('=-A1', '=--A1') else f'value of {f} with {sorted((k, x.f["value"]) for k, x in cells.items())}',
                   f'{f} with {[(k, V.norm(v)) for k, v in cells.items()]} evaluates to {got!r}, expected {want!r}')
    # the arithmetic special methods of the value classes: self (op) other, also with a numeric text / boolean / blank partner
    fm = ctx.mod('xlfunctions.func_xltypes')
    cls = fm.cls('ExcelType')
    for name, sym, fn in (('__add__', '+', op_.add), ('__sub__', '-', op_.sub), ('__mul__', '*', op_.mul), ('__truediv__', '/', op_.truediv),
                          ('__pow__', '**', op_.pow)):
        wrong = []
        for (la, a, na), (lb, b, nb) in (((7, V.num(7), 7), (2, V.num(2), 2)), ((2, V.num(2), 2), (7, V.num(7), 7)),
                                         ((7, V.num(7), 7), ('"2"', V.text('2'), 2)), (('"7"', V.text('7'), 7), (2, V.num(2), 2)),
                                         (('TRUE', V.boolean(True), 1), (4, V.num(4), 4)), ((6, V.num(6), 6), ('blank+3', V.num(3), 3))):
            it = Interp(ctx.a, fm, {'a': a, 'b': b}, inline_pkg=True)
            out = it.run([ast.parse(f'return a {sym} b').body[0]])
            got = V.norm(out.value) if out.end == 'return' else (out.end, V.norm(out.value))
            want = fn(na, nb)
            ok = isinstance(got, tuple) and got[0] == 'Number' and isinstance(got[1], (int, float)) and abs(got[1] - want) < 1e-12
            if not ok:
                wrong.append(f'{la} {sym} {lb} = {got!r} instead of {want!r}')
        ctx.expect(not wrong, cls, f'ExcelType.{name}', f'{name} does not compute self {sym} other on converted operands: ' + '; '.join(wrong[:3]))
    wrong = []
    for label, zero in (('0', V.num(0)), ('0.0', V.num(0.0)), ('"0"', V.text('0')), ('"0.0"', V.text('0.0')), ('"0e0"', V.text('0e0')),
                        ('FALSE', V.boolean(False)), ('a blank', V.blank())):
        it = Interp(ctx.a, fm, {'a': V.num(7), 'b': zero}, inline_pkg=True)
        out = it.run([ast.parse('return a / b').body[0]])
        if not (out.end == 'raise' and isinstance(out.value, Ref) and out.value.ref == XLERR + 'DivZeroExcelError'):
            wrong.append(f'7 / {label}: {out.end} {V.norm(out.value)!r}')
    ctx.expect(not wrong, cls, 'ExcelType.__truediv__ zero guard',
               'division by a value that converts to zero must give #DIV/0! however the zero is spelt: ' + '; '.join(wrong))
    ctx.floor(20, '12 infix + prefix/percent rows + 5 arithmetic special methods')


DUNDER_OPS = {'__add__': ast.Add, '__sub__': ast.Sub, '__mul__': ast.Mult,
              '__truediv__': ast.Div, '__pow__': ast.Pow}


    # reflected aliases exist (recorded for C20.3; here only that the forward ones are aliased or defined)


def rule_6(ctx):
    """The percent sign, decided by tokenizing and parsing witness formulas as written: after a reference, a parenthesised
    expression or a call it is a postfix operator of its own; after a number literal the literal stays ONE operand (value / 100)
    or carries the postfix operator - never an infix operator, which would give the literal that operator's precedence
    (=8/50% would be 8/50*0.01); the factor is 1/100 everywhere."""
    from . import parsetables as P
    tm = ctx.mod('tokenizer')
    fn = tm.func('ExcelParser.getTokens')
    missing = []
    for operand in ('A1', '(A1+1)', 'SUM(A1)', '$B$2'):
        toks = P.tokens_of(ctx, f'={operand}%')
        if not (isinstance(toks, list) and toks and toks[-1][1] == 'operator-postfix'):
            missing.append(f'={operand}% -> {toks if not isinstance(toks, list) else [t[:2] for t in toks]}')
    ctx.expect(not missing, fn, 'percent emitted as postfix operator',
               'the tokenizer never emits an operator-postfix token: "%" is rewritten to "* 0.01" '
               '(precedence of *) or folded into the preceding text with float(), so the precedence '
               'class of % cannot apply (=2^(A1)% ; =A1% raises ValueError): ' + '; '.join(missing[:3]))
    for literal in ('50', '2.5'):
        toks = P.tokens_of(ctx, f'={literal}%')
        folded = isinstance(toks, list) and len(toks) == 1 and toks[0][1] == 'operand' and isinstance(toks[0][0], (int, float)) \
            and Fraction(str(toks[0][0])) == Fraction(literal) / 100
        postfix = isinstance(toks, list) and [t[1] for t in toks] == ['operand', 'operator-postfix']
        ctx.expect(folded or postfix, fn, f'percent after the number literal {literal}: one operand or operand + postfix operator',
                   f'"{literal}%" is tokenized as {toks!r}: a percent literal must stay a single operand ({literal}/100) or carry a postfix '
                   f'operator; with an infix operator it takes that operator\'s precedence (=8/{literal}% evaluates as 8/{literal}*0.01, '
                   f'=4^{literal}% as 4^{literal}*0.01)')
    # the factor is 1/100 wherever a percent sign is evaluated
    for formula, want in (('=50%', 0.5), ('=200%', 2.0), ('=0.5%', 0.005), ('=8/50%', ('op', '/', 8, 0.5)), ('=4^50%', ('op', '^', 4, 0.5))):
        got = P.parse_tree(ctx, formula)
        ok = got == P.refify(want) or (isinstance(want, float) and isinstance(got, (int, float)) and abs(got - want) < 1e-15)
        if not ok and isinstance(got, tuple) and got[:2] == ('op', '%'):
            ok = True           # a genuine postfix operator node: its function is checked by C01.4
        ctx.expect(ok, fn, f'percent factor: {formula}', f'{formula} is read as {got!r}, expected {want!r}: a percent sign divides by 100')
    ctx.floor(8, 'postfix emission + literal table + percent factors')


def rule_7(ctx):
    """A sign after a mantissa with an exponent marker belongs to the number (1.5E+3), everywhere else it is an operator -
    decided by tokenizing witness formulas with ExcelParser.getTokens as written (wherever its patterns are kept)."""
    from . import parsetables as P
    tm = ctx.mod('tokenizer')
    fn = tm.func('ExcelParser.getTokens')
    classes = {
        'one digit 1-9': ['1E', '9e'],
        'one digit 1-9 with fraction': ['1.5E', '9.25e'],
        'several integer digits': ['10E', '12e', '100e'],
        'several integer digits with fraction': ['120.75E', '10.5e'],
        'zero integer part': ['0e', '0E'],
        'zero integer part with fraction': ['0.5E', '0.25e'],
    }
    nonmembers = ['A1E', 'E', 'SHEET1E', '1', '1.5', 'RATE', '1EE', 'B2e']

    def one_number(m, sign):
        toks = P.tokens_of(ctx, f'={m}{sign}2')
        return isinstance(toks, list) and len(toks) == 1 and toks[0][0] == f'{m}{sign}2' and toks[0][1] == 'operand'
    for label, members in classes.items():
        missed = [m for m in members if not (one_number(m, '+') and one_number(m, '-'))]
        ctx.expect(not missed, fn, f'SN guard accepts mantissa class: {label}',
                   f'mantissas {missed} are not recognised as the start of a number in scientific '
                   f'notation: the sign that follows is tokenised as an operator (=10E+2 evaluates to 2)')
    for m in nonmembers:
        toks = P.tokens_of(ctx, f'={m}+2')
        ok = isinstance(toks, list) and [t[0] for t in toks] == [m, '+', '2'] and toks[1][1] == 'operator-infix'
        ctx.expect(ok, fn, f'SN guard rejects {m!r}',
                   f'{m!r} (a reference/name or a complete number) is taken for a mantissa: ={m}+2 is tokenized as {toks!r}')
    ctx.floor(14, 'mantissa classes + non-members')


def rule_8(ctx):
    """The value of an operator tree is a function of the operand values of THIS evaluation (for all assignments of the
    referenced cells): nothing evaluation-dependent is kept on operator/operand nodes, every operand is evaluated."""
    from . import corelemma
    n = corelemma.rule_node_state(ctx, only=('OperatorNode', 'OperandNode', 'ASTNode'))
    n += corelemma.rule_operator_nodes(ctx)
    ctx.floor(10, 'operator-node obligations')


def _tree_rows(ctx, rows, with_blanks):
    from . import parsetables as P
    models = P.operator_models(ctx)
    anchor = ctx.mod('parser').func('FormulaParser.parse')
    n = 0
    for i, (formula, want) in enumerate(rows):
        variants = [formula] + (P.blank_variants(formula) if with_blanks(i) else [])
        for g in variants:
            got = P.parse_tree(ctx, g, models)
            n += 1
            ctx.expect(got == P.refify(want), anchor, f'tree of {g!r}' if g != formula else f'tree of {formula}',
                       f'{g!r} is parsed as {got!r}, expected {want!r}: Excel applies the tighter-binding operator first (unary minus, then %, '
                       'then ^, then * /, then + -, then &, then the comparisons), equal levels from left to right, parentheses first, and blanks '
                       'around operators do not matter')
    return n


def rule_2(ctx):
    """Every ordered pair of the 12 binary operators: the tree FormulaParser.parse builds for =A1 op1 B1 op2 C1 (tokenizer, its
    post-processing, the shunting-yard loop and build_ast interpreted as written; the tree read back through the node classes' own
    eval with symbolic operator functions)."""
    from . import parsetables as P
    full = getattr(ctx, 'tier', 'quick') == 'thorough'
    n = _tree_rows(ctx, P.binary_pair_rows(), lambda i: full)
    ctx.floor(144, 'operator pairs')


def rule_5(ctx):
    """Unary minus and plus on either side of every binary operator, doubled, in front of parentheses; percent literals next to
    every binary operator (end to end, as C01.2)."""
    from . import parsetables as P
    full = getattr(ctx, 'tier', 'quick') == 'thorough'
    n = _tree_rows(ctx, P.unary_rows() + P.percent_rows(), lambda i: full or i % 6 == 0)
    ctx.floor(60, 'unary / percent witnesses')


def rule_9(ctx):
    """Parentheses, chains of one operator, mixed chains; and the operator-pair formulas again with blanks around every operator
    and at both ends (a sample in the quick tier, all of them in the thorough tier)."""
    from . import parsetables as P
    full = getattr(ctx, 'tier', 'quick') == 'thorough'
    n = _tree_rows(ctx, P.paren_and_chain_rows(), lambda i: True)
    pairs = P.binary_pair_rows()
    sample = [(g, want) for i, (f, want) in enumerate(pairs) if (full or i % 7 == 0) for g in P.blank_variants(f)]
    n += _tree_rows(ctx, sample, lambda i: False)
    ctx.floor(80, 'parenthesised / chained / spaced witnesses')


def rule_10(ctx):
    """One witness workbook holding MANY formulas - the parenthesised, chained and plain pairs of C01.9/C01.2 side by side, and
    operators over constant cells that hold 0 - compiled and evaluated as written: each cell's value equals the value of the same
    formula evaluated on its own over the same operand values (whose tree C01.2/C01.9 decide). Formulas that differ only in their
    parentheses, or cells whose value is zero, cannot borrow one another's result."""
    from . import parsetables as P
    from . import values as V
    from . import workbook as W
    from . import scenarios as S
    anchor = ctx.mod('model').func('Model.build_code')
    operands = {'A1': 2, 'B1': 3, 'C1': 5, 'D1': 7}
    formulas = []
    for f, _ in P.paren_and_chain_rows():
        formulas.append(f)
        plain = f.replace('(', '').replace(')', '')
        if plain not in formulas:
            formulas.append(plain)
    if ctx.tier == 'quick':
        formulas = formulas[:40]
    cells = dict(operands)
    addr_of = {}
    for i, f in enumerate(formulas, start=1):
        cells[f'F{i}'] = f
        addr_of[f] = f'F{i}'
    wb = W.Workbook(ctx, cells)
    vcells = {k: V.num(v) for k, v in operands.items()}
    for f in formulas:
        got = wb.value('Sheet1!' + addr_of[f])
        want = eval_formula(ctx, f, vcells, models=V.numpy_models())
        if isinstance(want, tuple) and len(want) == 2 and want[0] == 'raise':
            want = ('raise', 'RuntimeError')
        ctx.expect(S.same(got, want) or (isinstance(got, tuple) and isinstance(want, tuple) and got[:1] == want[:1] == ('raise',)), anchor,
                   f'one model, many formulas: {f}',
                   f'{f} evaluates to {got!r} in a model that also holds the other witness formulas, and to {want!r} on its own '
                   '(A1=2, B1=3, C1=5, D1=7): every formula text has its own tree - parentheses are part of the text')
    # operators over cells that hold zero
    zero_cells = {'A1': 0, 'B1': 0.0, 'C1': 3, 'D1': -2}
    zf = [f'={a}{op}{b}' for op in ('>=', '<', '=', '<>', '&', '+', '-', '*') for a, b in (('A1', 'B1'), ('A1', 'C1'), ('C1', 'A1'), ('B1', 'D1'), ('D1', 'B1'))]
    zcells = dict(zero_cells)
    for i, f in enumerate(zf, start=1):
        zcells[f'F{i}'] = f
    wb = W.Workbook(ctx, zcells)
    vz = {k: V.num(v) for k, v in zero_cells.items()}
    for i, f in enumerate(zf, start=1):
        got = wb.value(f'Sheet1!F{i}')
        want = eval_formula(ctx, f, vz)
        ctx.expect(S.same(got, want), anchor, f'operands read from cells holding zero: {f}',
                   f'{f} over A1=0, B1=0.0, C1=3, D1=-2 evaluates to {got!r}; the operator applied to those numbers gives {want!r}: a cell that holds '
                   '0 is the number 0, not an empty cell')
    # numeric literals in every plain notation (a digit is not needed on both sides of the decimal point)
    lit = {'A1': 3, 'L1': ('=.5+1', 1.5), 'L2': ('=2*.5', 1.0), 'L3': ('=5.+1', 6.0), 'L4': ('=2^.5', 2 ** 0.5), 'L5': ('=A1-.25', 2.75), 'L6': ('=SUM(.5,5.,1.)', 6.5),
           'L7': ('=(.25)*4', 1.0), 'L8': ('=10/.5/5.', 4.0), 'L9': ('=.5^A1^2', 0.5 ** 3 ** 2 if False else (0.5 ** 3) ** 2), 'L10': ('=0.5+.5+5.', 6.0),
           'L11': ('=12.75-.75', 12.0), 'L12': ('=-.5*2', -1.0), 'L13': ('=100*.01', 1.0), 'L14': ('=.5%*200', 1.0)}
    lcells = {k: (v[0] if isinstance(v, tuple) else v) for k, v in lit.items()}
    wb = W.Workbook(ctx, lcells)
    for a, v in lit.items():
        if not isinstance(v, tuple):
            continue
        got = wb.value('Sheet1!' + a)
        ctx.expect(S.same(got, ('Number', v[1])), anchor, f'numeric literal notation: {v[0]}',
                   f'{v[0]} (A1 = 3) evaluates to {got!r}, expected {v[1]!r}: .5 and 5. are the numbers 0.5 and 5')
    # every public way of assigning numbers to the referenced cells, one after the other on one model
    hist_ops = {'A1': 3, 'A2': 2, 'A3': 0}
    hist_f = {'Z1': '=A1^A2^A3', 'Z2': '=A1-A2*A3', 'Z3': '=-A1^2+A2/4', 'Z4': '=(A1+A2)*A3-A1', 'Z5': '=A1*A2^2%'}
    hcells = dict(hist_ops)
    hcells.update(hist_f)
    wb = W.Workbook(ctx, hcells)
    cur = dict(hist_ops)
    routes = [('Evaluator.set_cell_value', lambda a, v: wb.set(a, v)), ('Model.set_cell_value', lambda a, v: wb.set_model(a, v)),
              ('set_cell_value with an XLCell address', lambda a, v: wb.set_cell(a, v)), ('Model.set_cell_value with an XLCell address', lambda a, v: wb.set_cell(a, v, through_model=True)),
              ('Evaluator.set_cell_value', lambda a, v: wb.set(a, v))]
    assignments = [{'A1': -1.5, 'A2': 4, 'A3': 7}, {'A1': 5, 'A2': 0, 'A3': -2}, {'A1': 2, 'A2': 3, 'A3': 2}, {'A1': 10, 'A2': -3, 'A3': 0.5}, {'A1': 0, 'A2': 1, 'A3': 1}]
    for rname, setter in [('the compiled constants', None)] + list(zip([r[0] for r in routes], [r[1] for r in routes])):
        if setter is not None:
            new = assignments.pop(0)
            for a, v in new.items():
                setter('Sheet1!' + a, v)
            cur.update(new)
        for key in ('e', 'second evaluator'):
            for z, f in hist_f.items():
                got = wb.value('Sheet1!' + z, key=key)
                want = eval_formula(ctx, f, {k: V.num(v) for k, v in cur.items()}, models=V.numpy_models())
                if isinstance(want, tuple) and len(want) == 2 and want[0] == 'raise':
                    continue
                ctx.expect(S.same(got, want), anchor, f'{f} after assigning through {rname}' + ('' if key == 'e' else ' (second evaluator)'),
                           f'{f} evaluates to {got!r} after {cur} was assigned through {rname}' + ('' if key == 'e' else ', on a second evaluator over the same model')
                           + f'; the expression over those numbers is {want!r}')
    ctx.floor(130, 'workbook formulas')


RULES = [
    ('C01.1', 'precedence relation of the operator table', rule_1),
    ('C01.2', 'trees of =A1 op1 B1 op2 C1 for every ordered pair of binary operators (end to end)', rule_2),
    ('C01.3', 'reverse-Polish operand order (build_ast / OperatorNode.eval)', rule_3),
    ('C01.4', 'operator -> function -> Python operator', rule_4),
    ('C01.5', 'unary minus / plus and percent literals next to every binary operator (end to end)', rule_5),
    ('C01.6', 'percent is an operator', rule_6),
    ('C01.7', 'scientific-notation guard', rule_7),
    ('C01.8', 'operator nodes compute from the operand values of the current evaluation', rule_8),
    ('C01.9', 'parentheses, chains and blanks around operators (end to end)', rule_9),
    ('C01.10', 'one workbook with many formulas; operands read from cells holding zero', rule_10),
]
