"""C14 - aggregates over ranges equal the reference fold of the addressed cells (structural part)."""
import ast

from xlsa import Unmodelled, AnchorMissing
from xlsa.load import walk_local, names_in, dotted
from xlsa.consteval import Ref
from xlsa.guards import Interp, Rec, PyModel, Opaque
from xlsa import flow
from .common import func_params, value_returns, last_return, XLERR, XLT, raise_class
from . import c04

PROPERTY = 'C14'
EXPLANATION = (
    'Decided from source: (C14.1) only numbers reach the fold: SUM takes a coercing Tuple[XlNumber] (non-convertible items are '
    'dropped), AVERAGE/MIN/MAX filter their flattened items with Number.is_type before folding, and AVERAGE divides by the '
    'length of the very list it sums; (C14.2) folds that fail on an empty input (min, max, division by a length) are guarded on '
    'the *filtered* collection; (C14.3) SUMPRODUCT compares the shapes (rows x columns) of all arrays before multiplying and '
    'rejects a mismatch with #VALUE!; (C14.4) COUNT counts by Number.is_type, COUNTA by not Blank.is_blank, over the flattened '
    'arguments; (C14.5) the array handed to the aggregates is rebuilt from the cells on every evaluation (shares C04.1).'
    ' (C14.6) the aggregates as the evaluator calls them - the registered object, i.e. validate_args as written (casts, TYPE_TO_CAST, typing constructs) and then the body, with the real class predicates - on witness argument lists: blanks and texts take no part, a stored 0 does, arrays are flattened.'
    ' (C14.7) a witness workbook: SUM over every split and order of the same cells, AVERAGE/MIN/MAX/COUNT/COUNTA with a zero, an empty cell and a text, SUMPRODUCT, whole numbers around 2^63, formula members, and a history of edits.'
    ' (C14.7) also blank-tailed ranges under SUMPRODUCT, ranges of another sheet next to unqualified ones, booleans next to equal numbers read in four orders, the same formula text on two sheets.')
NOT_DECIDED = 'the sums themselves, permutation invariance, additivity, MIN<=AVERAGE<=MAX (numeric)'
TRUSTED = ['Number.is_type = isinstance of Number or a native number', 'workbook scenarios: pandas storage of range arrays as row-major rows, numpy on Python numbers (IEEE results, 64-bit integer wrap), dateutil.parser.parse rejecting texts that are no dates, openpyxl address arithmetic, inspect.signature built from the FunctionDef', 'pandas.concat(axis=1).prod(axis=1).sum() as row products summed']


def _reg(ctx, name):
    for f in ctx.a.registry:
        if f.name == name:
            return f
    raise AnchorMissing(f'registered function {name}')


def _num(v):
    return Rec(cls=XLT + 'Number', value=v)


def _text(v):
    return Rec(cls=XLT + 'Text', value=v)


def _blank():
    return Rec(cls=XLT + 'Blank', value=None)


class _Arr(PyModel):
    """Abstract range array: a shape and flat items."""

    def __init__(self, shape, items=None, label=''):
        self.shape = shape
        self.size = shape[0] * shape[1]
        self.flat = list(items) if items is not None else [1] * self.size
        self.values = self
        self.label = label
        self.cls = XLT + 'Array'

    def __len__(self):
        return self.shape[0]

    def __iter__(self):
        return iter(self.flat)


def _models(ctx, log=None):
    def number_is_type(v):
        if isinstance(v, Rec):
            return bool(v.f.get('cls')) and ctx.res.is_subclass(v.f['cls'], XLT + 'Number')
        return isinstance(v, (int, float))

    def is_blank(v):
        return v is None or (isinstance(v, str) and v == '') or (isinstance(v, Rec) and v.f.get('cls') == XLT + 'Blank')

    def is_error(v):
        return isinstance(v, Rec) and bool(v.f.get('cls')) and ctx.res.is_subclass(v.f['cls'], XLERR + 'ExcelError')

    def concat(*a, **k):
        if log is not None:
            log.append('product')
        return Opaque('concatenated')
    def is_type_of(cls, natives):
        def f(v):
            if isinstance(v, Rec):
                return bool(v.f.get('cls')) and ctx.res.is_subclass(v.f['cls'], XLT + cls)
            return isinstance(v, natives) and not (cls != 'Boolean' and isinstance(v, bool) and natives == (str,))
        return f
    # the class predicates (is_type, is_blank, is_error) are NOT modelled: the methods of the value classes are interpreted as written
    return {'ext:pandas.concat': concat}


def _isinst(ctx):
    def isinst(val, refs):
        refs = refs if isinstance(refs, tuple) else (refs,)
        cls = val.f.get('cls') if isinstance(val, Rec) else getattr(val, 'cls', None)
        if any(r == 'builtin:list' for r in refs) and isinstance(val, list):
            return True
        if any(r == 'builtin:tuple' for r in refs) and isinstance(val, tuple):
            return True
        return bool(cls) and any(r and ctx.res.is_subclass(cls, r) for r in refs)
    return isinst


def _body_call(ctx, f, items, log=None):
    """Partially evaluate the body of an aggregate (below the validate_args wrapper) on a tuple of items."""
    vp = next((p for p in f.params if p.kind == 'varpos'), None)
    if vp is None:
        raise Unmodelled(f'{f.name} has no var-positional parameter')
    it = Interp(ctx.a, f.module, {vp.name: tuple(items)}, isinstance_fn=_isinst(ctx), call_models=_models(ctx, log),
                inline_pkg=True, scope_fn=f.node)
    return it.run(f.node.body)


def _val(v):
    if isinstance(v, Rec) and 'value' in v.f:
        return v.f['value']
    return v


def rule_1(ctx):
    f = _reg(ctx, 'SUM')
    vp = next((p for p in f.params if p.kind == 'varpos'), None)
    ok = vp is not None and vp.annotation is not None and 'Tuple' in ast.unparse(vp.annotation) and any(
        ctx.res.resolve(x, f.module) == XLT + 'XlNumber' for x in ast.walk(vp.annotation) if isinstance(x, (ast.Name, ast.Attribute)))
    ctx.expect(ok, f.node, 'SUM folds a coercing Tuple[XlNumber]',
               'SUM no longer receives its items through the number-coercing tuple annotation: blanks/text from ranges reach the sum')
    for items, want in (((1, 2, 3.5), 6.5), ((), 0), ((4,), 4)):
        out = _body_call(ctx, f, items)
        ctx.expect(out.end == 'return' and _val(out.value) == want, f.node, f'SUM{items!r}', f'SUM{items!r} gives {out.end} {out.value!r}, expected {want}')
    rows = {
        'AVERAGE': [((2, 4), 3), ((2, 'x', 4), 3), ((2, _text('x'), _blank(), 4), 3), ((2, None, 4), 3), ((5,), 5), ((), 0)],
        'MIN': [((3, 1, 2), 1), ((3, 'x', 1), 1), ((_text('a'), 3, _blank(), 7), 3), ((), 0)],
        'MAX': [((3, 1, 2), 3), ((3, 'x', 9), 9), ((_text('z'), 3, _blank(), 7), 7), ((), 0)],
    }
    for name, cases in rows.items():
        f = _reg(ctx, name)
        wrong = []
        for items, want in cases:
            try:
                out = _body_call(ctx, f, items)
            except Unmodelled as exc:
                raise Unmodelled(f'{name}: {exc}')
            got = _val(out.value) if out.end == 'return' else f'<{out.end} {out.value!r}>'
            if got != want:
                wrong.append((items, got, want))
        ctx.expect(not wrong, f.node, f'{name} folds exactly the numeric items',
                   f'{name}{wrong[0][0]!r} gives {wrong[0][1]!r}, expected {wrong[0][2]!r}: blanks and text among the items must be '
                   f'ignored and every number folded' if wrong else '')
    ctx.floor(7, 'fold decisions')


def rule_2(ctx):
    for name in ('MIN', 'MAX', 'AVERAGE'):
        f = _reg(ctx, name)
        wrong = []
        for items in (('a',), (_text('a'), _blank()), (None,)):
            out = _body_call(ctx, f, items)
            ok = out.end == 'return' and _val(out.value) == 0
            ok = ok or (out.end == 'raise' and isinstance(out.value, (Ref, Rec)) and is_excel(ctx, out.value))
            if not ok:
                wrong.append((items, f'{out.end} {out.value!r}'))
        ctx.expect(not wrong, f.node, f'{name}: empty fold guarded on the filtered collection',
                   f'{name} over items none of which is numeric ({wrong[0][0]!r}) ends in {wrong[0][1]}: the emptiness guard looks at the '
                   f'unfiltered arguments, so min()/max()/division runs on an empty sequence ({name}("a") raises ValueError)' if wrong else '')
    ctx.floor(3, 'empty-fold sites')


def is_excel(ctx, v):
    ref = v.ref if isinstance(v, Ref) else v.f.get('cls')
    return bool(ref) and ref.startswith('pkg:') and ctx.res.is_subclass(ref, XLERR + 'ExcelError')


def rule_3(ctx):
    f = _reg(ctx, 'SUMPRODUCT')
    cases = [(((3, 1), (3, 1)), 'product'), (((3, 1), (1, 3)), 'value'), (((2, 2), (4, 1)), 'value'), (((2, 3), (2, 3), (3, 2)), 'value'),
             (((2, 3), (2, 3), (2, 3)), 'product'), (((3, 1), (4, 1)), 'value')]
    for shapes, want in cases:
        log = []
        try:
            out = _body_call(ctx, f, [_Arr(sh) for sh in shapes], log)
        except Unmodelled as exc:
            if 'product' in log:
                ctx.expect(want == 'product', f.node, f'SUMPRODUCT shapes {shapes}',
                           f'SUMPRODUCT over ranges of shapes {shapes} multiplies them; expected #VALUE! before any product '
                           '(ranges must have the same rows x columns, not merely the same number of cells)')
                continue
            raise Unmodelled(f'SUMPRODUCT: {exc}')
        if want == 'product':
            ok = 'product' in log and not (out.end == 'raise')
            got = f'{out.end} {out.value!r}, product computed: {"product" in log}'
        else:
            ok = out.end == 'raise' and isinstance(out.value, (Ref, Rec)) and (
                (out.value.ref if isinstance(out.value, Ref) else out.value.f.get('cls')) == XLERR + 'ValueExcelError') and 'product' not in log
            got = f'{out.end} {out.value!r}, product computed: {"product" in log}'
        ctx.expect(ok, f.node, f'SUMPRODUCT shapes {shapes}',
                   f'SUMPRODUCT over ranges of shapes {shapes}: {got}; expected {"the product" if want == "product" else "#VALUE! before any product"} '
                   '(ranges must have the same rows x columns, not merely the same number of cells)')
    ctx.floor(6, 'shape decisions')


def rule_4(ctx):
    rows = {
        'COUNT': [((1, 'a', None, 2.5), 2), ((_num(1), _text('1'), _blank(), _num(0)), 2), (('a',), 0)],
        'COUNTA': [((1, '', None, 'a'), 2), ((_num(0), _text('x'), _blank()), 2), ((0,), 1)],
    }
    for name, cases in rows.items():
        f = _reg(ctx, name)
        wrong = []
        for items, want in cases:
            try:
                out = _body_call(ctx, f, items)
            except Unmodelled as exc:
                raise Unmodelled(f'{name}: {exc}')
            got = _val(out.value) if out.end == 'return' else f'<{out.end} {out.value!r}>'
            if got != want:
                wrong.append((items, got, want))
        what = 'numbers' if name == 'COUNT' else 'non-empty values'
        ctx.expect(not wrong, f.node, f'{name} counts the {what}',
                   f'{name}{wrong[0][0]!r} gives {wrong[0][1]!r}, expected {wrong[0][2]!r}' if wrong else '')
    # flatten keeps every item of nested lists and arrays, in order
    xm = ctx.mod('xlfunctions.xl')
    fl = xm.func('flatten')
    p = func_params(fl)[0]
    arr = _Arr((2, 2), [1, 2, 3, 4])
    for inp, want in (([1, [2, 3], (4, [5])], [1, 2, 3, 4, 5]), ([arr, 9], [1, 2, 3, 4, 9]), ([], []), ([[], [7]], [7])):
        it = Interp(ctx.a, xm, {p: inp}, isinstance_fn=_isinst(ctx), inline_pkg=True, scope_fn=fl)
        out = it.run(fl.body)
        ctx.expect(out.end == 'return' and list(out.value) == want, fl, f'flatten keeps every item: {len(want)} item(s)',
                   f'flatten({inp!r}) gives {out.value!r}, expected {want!r}')
    ctx.floor(6, 'count predicates + flatten')


def rule_5(ctx):
    c04.rule_1(ctx)


def rule_6(ctx):
    """The aggregates as the evaluator calls them - the registered object, i.e. the validate_args wrapper with its casts, then the
    body - on witness argument lists (numbers, a zero, a blank, a text, an array): blanks and texts take no part, a zero does."""
    from . import values as V

    def nodate(*a, **k):
        from xlsa.guards import ExcRaised
        raise ExcRaised(Ref('builtin:ValueError'))      # no witness text is a date
    models = {'ext:dateutil.parser.parse': nodate}
    arr = V.array([[V.num(1), V.blank()], [V.text('x'), V.num(0)]])
    table = [
        ('AVERAGE', [V.num(4), V.blank(), V.num(6), V.text('spam')], ('Number', 5.0)),
        ('AVERAGE', [V.num(4), V.num(0), V.num(8)], ('Number', 4.0)),
        ('AVERAGE', [arr, V.num(5)], ('Number', 2.0)),
        ('MIN', [V.num(4), V.blank(), V.num(6)], ('Number', 4)),
        ('MIN', [V.num(4), V.num(0), V.num(6)], ('Number', 0)),
        ('MAX', [V.num(-4), V.blank(), V.num(-6)], ('Number', -4)),
        ('MAX', [arr, V.num(-2)], ('Number', 1)),
        ('SUM', [V.num(4), V.blank(), V.num(6)], ('Number', 10.0)),
        ('SUM', [arr, V.num(10)], ('Number', 11.0)),
        ('COUNT', [V.num(0), V.text('x'), V.blank(), V.num(2.5)], 2),
        ('COUNT', [arr], 2),
        ('COUNTA', [V.num(0), V.text('x'), V.blank()], 2),
        ('COUNTA', [arr, V.boolean(False)], 4),
    ]
    for name, args, want in table:
        f = V.registered(ctx, name)
        out = V.call(ctx, name, args, models=models)
        got = V.norm(out.value) if out.end == 'return' else f'<{out.end} {out.value!r}>'
        if isinstance(got, tuple) and got and got[0] == 'Number' and isinstance(want, int) and not isinstance(want, tuple):
            got = got[1]
        shown = ', '.join(str(V.norm(a)) for a in args)
        ctx.expect(got == want, f.node, f'{name}({shown})',
                   f'{name}({shown}) called the way the evaluator calls it gives {got!r}, expected {want!r}: blanks and texts are not part of '
                   'the addressed numbers (a blank is not a 0), a stored 0 is')
    ctx.floor(len(table), 'aggregate witnesses through the registered wrapper')


AGG_CELLS = {
    'A1': 4, 'A2': 0, 'A4': 'txt', 'B1': 2.5, 'B2': -3, 'B3': 7, 'B4': 1, 'C1': 2 ** 62, 'C2': 2 ** 62, 'C3': 2 ** 63 - 1, 'C4': 1000,
    'D1': '=B1*2', 'D2': '=B2*2', 'D3': '=B3*2',
    'S1': '=SUM(A1:B4)', 'S2': '=SUM(A1:A4)+SUM(B1:B4)', 'S3': '=SUM(B4:B4,A1:B3)', 'S4': '=SUM(A1:B2,A3:B4)', 'S5': '=SUM(B1,B2,B3,B4,A1:A4)',
    'S6': '=SUM(B4,B3,B2,B1,A1:A4)', 'T1': '=AVERAGE(A1:B4)', 'T2': '=MIN(A1:B4)', 'T3': '=MAX(A1:B4)', 'T4': '=COUNT(A1:B4)', 'T5': '=COUNTA(A1:B4)',
    'T6': '=AVERAGE(B1:B4,A1:A4)', 'T7': '=MIN(B4,A1:B3)', 'T8': '=MAX(A1:A4,B1:B4)',
    'U1': '=SUMPRODUCT(B1:B4,B1:B4)', 'U2': '=SUMPRODUCT(A1:A2,B1:B4)', 'U3': '=SUMPRODUCT(B1:B2,B3:B4)',
    'L1': '=SUM(C1:C2)', 'L2': '=SUM(C1:C1)+SUM(C2:C2)', 'L3': '=SUM(C3:C4)', 'L4': '=SUM(C3,C4)', 'L5': '=SUM(C3:C3,1000)', 'L6': '=MAX(C1:C4)',
    # ranges that end in blanks keep their shape; ranges of another sheet next to unqualified ones, in both orders
    'E1': 1, 'E2': 2, 'U4': '=SUMPRODUCT(E1:E4,B1:B4)', 'U5': '=SUMPRODUCT(E1:E4,E1:E2)', 'U6': '=SUMPRODUCT(B1:B4,E1:E4)', 'U7': '=SUMPRODUCT(E1:E4,E1:E4)',
    'Other!A1': 10, 'Other!A2': 20, 'Other!B1': 1000, 'Other!B2': 2000, 'V1': '=SUM(Other!A1:A2,B1:B2)', 'V2': '=SUM(B1:B2,Other!A1:A2)',
    'V3': '=MAX(Other!A1:A2)+B1', 'V4': '=SUM(Other!A1:A2)+SUM(B1:B2)', 'V5': '=AVERAGE(Other!A1:A2,B1)', 'V6': '=SUM(Other!A1:A2,B1,B2)',
    'V7': '=MIN(Other!A1:B2,B1:B4)', 'V8': '=COUNT(Other!A1:A2,B1:B4,E1:E4)',
    # boolean constants elsewhere in the workbook next to the numbers 1 / 0 / 1.0 inside the ranges; the same formula text on two sheets
    'W1': 1, 'W2': 2, 'W3': 3, 'X1': 0, 'X2': 5, 'X3': 1.0, 'Y1': True, 'Y2': False, 'Z1': '=IF(Y1,COUNT(W1:W3),-1)', 'Z2': '=IF(Y1,AVERAGE(W1:W3),-1)',
    'Z3': '=IF(Y2,-1,MIN(X1:X3))', 'Z4': '=MAX(X1:X3)+COUNT(X1:X3)', 'Z5': '=IF(Y1,SUM(W1:W3),0)+IF(Y2,0,COUNT(W1:X3))',
    'K1': '=SUM(A1:A2)+MAX(B1:B2)', 'Other!K1': '=SUM(A1:A2)+MAX(B1:B2)', 'K2': '=AVERAGE(A1:B2)', 'Other!K2': '=AVERAGE(A1:B2)',
    'H1': '=SUM(D1:D2,D3)', 'H2': '=MAX(D1:D3)', 'H3': '=AVERAGE(D1:D3)', 'H4': '=MIN(D1:D3)+COUNT(D1:D3)',
}
AGG_EXPECTED = {
    'S1': 11.5, 'S2': 11.5, 'S3': 11.5, 'S4': 11.5, 'S5': 11.5, 'S6': 11.5, 'T1': 11.5 / 6, 'T2': -3, 'T3': 7, 'T4': 6, 'T5': 7, 'T6': 11.5 / 6,
    'T7': -3, 'T8': 7, 'U1': 65.25, 'U2': '#VALUE!', 'U3': 2.5 * 7 - 3,
    'L1': 2 ** 63, 'L2': 2 ** 63, 'L3': 2 ** 63 + 999, 'L4': 2 ** 63 + 999, 'L5': 2 ** 63 + 999, 'L6': 2 ** 63 - 1,
    'U4': -3.5, 'U5': '#VALUE!', 'U6': -3.5, 'U7': 5, 'V1': 29.5, 'V2': 29.5, 'V3': 22.5, 'V4': 29.5, 'V5': 32.5 / 3, 'V6': 29.5, 'V7': -3, 'V8': 8,
    'Z1': 3, 'Z2': 2, 'Z3': 0, 'Z4': 8, 'Z5': 12, 'K1': 6.5, 'Other!K1': 2030, 'K2': 3.5 / 4, 'Other!K2': 3030 / 4,
    'H1': 13, 'H2': 14, 'H3': 13 / 3, 'H4': -3,
}


def rule_7(ctx):
    """A whole witness workbook, interpreted as written: the aggregates over rectangles holding numbers, a zero, an empty cell, a
    text, whole numbers near the 64-bit limit and formula cells - against hand-computed folds, over every split / order of the
    same cells; then a history of edits through the evaluator against freshly compiled models."""
    from . import workbook as W
    from . import scenarios as S
    from .c10 import _as_value
    anchor = V_registered(ctx, 'SUM')
    wb = W.Workbook(ctx, AGG_CELLS)
    for a, w in AGG_EXPECTED.items():
        got = wb.value(a if '!' in a else 'Sheet1!' + a)
        if isinstance(got, tuple) and got and got[0] == 'error-class':
            got = ('error', W.error_code(ctx, got[1]))
        ctx.expect(S.same(got, _as_value(w)), anchor, f'aggregate workbook: {a} = {AGG_CELLS[a]}',
                   f'{a} = {AGG_CELLS[a]} evaluates to {got!r}, expected {w!r}: the fold of exactly the addressed values - blanks and texts of a range '
                   'ignored, a stored 0 counted, however the cells are split into ranges and scalars and whatever their magnitude')
    # numbers 1 / 0 / 1.0 and the booleans TRUE / FALSE in one workbook, read in either order, in and outside the ranges
    typed = {'W1': 1, 'W2': 2, 'W3': 3, 'X1': 0, 'X2': 5, 'X3': 1.0, 'Y1': True, 'Y2': False, 'V1': 1, 'V2': True, 'V3': 2, 'V4': False, 'V5': 0,
             'Z1': '=IF(Y1,COUNT(W1:W3),-1)', 'Z2': '=IF(Y1,AVERAGE(W1:W3),-1)', 'Z3': '=IF(Y2,-1,MIN(X1:X3))', 'Z4': '=MAX(X1:X3)+COUNT(X1:X3)',
             'Z5': '=COUNT(V1:V5)', 'Z6': '=COUNTA(V1:V5)', 'Z7': '=MIN(V1:V5)+MAX(V1:V5)', 'Z8': '=AVERAGE(V1:V5)', 'Z9': '=COUNT(W1:W3)+COUNT(X1:X3)'}
    twant = {'Z1': 3, 'Z2': 2, 'Z3': 0, 'Z4': 8, 'Z5': 3, 'Z6': 5, 'Z7': 2, 'Z8': 1, 'Z9': 6}
    for oname, order in (('Z1 first', list(twant)), ('Z9 first', list(reversed(list(twant)))), ('the boolean cells first', ['Y1', 'Y2'] + list(twant)),
                         ('the number cells first', ['W1', 'X1', 'X3', 'V1', 'V5'] + list(twant)), ('the workbook loaded from a file', list(twant))):
        wbt = W.Workbook(ctx, typed) if oname != 'the workbook loaded from a file' else W.Workbook(ctx, sheets={'Sheet1': typed})
        for a in order:
            got = wbt.value('Sheet1!' + a)
            if a not in twant:
                continue
            ctx.expect(S.same(got, _as_value(twant[a])), anchor, f'booleans next to equal numbers ({oname}): {typed[a]}',
                       f'{a} = {typed[a]} evaluates to {got!r} when the cells are read with {oname}, expected {twant[a]!r} (W = 1, 2, 3; X = 0, 5, 1.0; Y = TRUE, FALSE; '
                       'V = 1, TRUE, 2, FALSE, 0): a number is a number and a boolean a boolean whatever was read before')
    steps = [('eval', 'H1'), ('eval', 'H2'), ('eval', 'S1'), ('set', 'B2', 40), ('eval', 'D2'), ('eval', 'H1'), ('eval', 'H2'), ('eval', 'H3'), ('eval', 'S1'),
             ('eval', 'T2'), ('set', 'A1', -100), ('eval', 'S1'), ('eval', 'T2'), ('eval', 'T1'), ('eval', 'H4'), ('set', 'B3', 0), ('eval', 'H1'), ('eval', 'U1')]
    hist = {k: v for k, v in AGG_CELLS.items() if k[0] in 'ABD' or k in ('H1', 'H2', 'H3', 'H4', 'S1', 'T2', 'T1', 'U1')}
    S.check_history(ctx, anchor, 'aggregate history', hist, steps, cache={}, check_stored=False,
                    why='An aggregate is the fold of the values its cells hold now.')
    seq = []
    for vals in ((1, 2, 3), (True, 2, 3), (1.0, 2, 3), (0, False, 0.0), (1, True, 1.0, '1'), ('a', 1), (0,), (False,), (2.5, -3, 7, 1)):
        seq += [(f, vals) for f in ('SUM', 'AVERAGE', 'MIN', 'MAX', 'COUNT', 'COUNTA')]
    S.check_call_sequence(ctx, 'aggregates', seq + list(reversed(seq)), models=V_numpy())
    ctx.floor(200, 'aggregate cells + history steps')


def V_numpy():
    from . import values as V
    from . import workbook as W
    models = V.numpy_models()
    models['ext:dateutil.parser.parse'] = W._nodate          # the witness texts are no dates
    return models


def V_registered(ctx, name):
    from . import values as V
    return V.registered(ctx, name).node


RULES = [
    ('C14.1', 'only numbers are folded', rule_1),
    ('C14.2', 'empty folds are guarded on the filtered collection', rule_2),
    ('C14.3', 'SUMPRODUCT shape guard', rule_3),
    ('C14.4', 'COUNT/COUNTA predicates, flatten', rule_4),
    ('C14.5', 'range arrays are rebuilt from the cells on every evaluation (shared with C04.1)', rule_5),
    ('C14.6', 'aggregates through the registered wrapper on witness argument lists', rule_6),
    ('C14.7', 'whole witness workbook: folds over splits and orders, large whole numbers, formula members, histories', rule_7),
]
