"""C14 - aggregates over ranges equal the reference fold of the addressed cells (structural part)."""
import ast

from xlsa import Unmodelled, AnchorMissing
from xlsa.load import walk_local, names_in, dotted
from xlsa import flow
from .common import func_params, value_returns, last_return, XLERR, XLT, raise_class
from . import c04

PROPERTY = 'C14'
EXPLANATION = (
    'Decided from source: (C14.1) only numbers reach the fold: SUM takes a coercing Tuple[XlNumber] (non-convertible items are '
    'dropped), AVERAGE/MIN/MAX filter their flattened items with Number.is_type before folding, and AVERAGE divides by the '
    'length of the very list it sums; (C14.2) folds that fail on an empty input (min, max, division by a length) are guarded on '
    'the *filtered* collection; (C14.3) SUMPRODUCT compares the shapes (rows x columns) of all arrays before multiplying and '
    'rejects a mismatch with #VALUE!; (C14.4) COUNT counts by Number.is_type, COUNTA by not Blank.is_blank, over the flattened '
    'arguments; (C14.5) the array handed to the aggregates is rebuilt from the cells on every evaluation (shares C04.1).')
NOT_DECIDED = 'the sums themselves, permutation invariance, additivity, MIN<=AVERAGE<=MAX (numeric)'
TRUSTED = ['Number.is_type = isinstance of Number or a native number']


def _reg(ctx, name):
    for f in ctx.a.registry:
        if f.name == name:
            return f
    raise AnchorMissing(f'registered function {name}')


def _is_number_filter(ctx, call, m):
    """filter(Number.is_type, X) / [x for x in X if Number.is_type(x)]"""
    if isinstance(call, ast.Call) and isinstance(call.func, ast.Name) and call.func.id == 'filter' and len(call.args) == 2:
        return ctx.res.resolve(call.args[0], m) == XLT + 'Number.is_type'
    if isinstance(call, (ast.ListComp, ast.GeneratorExp)):
        return any(isinstance(c, ast.Call) and ctx.res.resolve(c.func, m) == XLT + 'Number.is_type'
                   for g in call.generators for i in g.ifs for c in ast.walk(i))
    return False


def _filtered_names(ctx, fn, m):
    """Local names bound to a Number.is_type-filtered collection (possibly wrapped in list())."""
    out = set()
    for a in walk_local(fn):
        if isinstance(a, ast.Assign) and isinstance(a.targets[0], ast.Name):
            if any(_is_number_filter(ctx, x, m) for x in ast.walk(a.value)):
                out.add(a.targets[0].id)
    return out


def rule_1(ctx):
    f = _reg(ctx, 'SUM')
    vp = next((p for p in f.params if p.kind == 'varpos'), None)
    ok = vp is not None and vp.annotation is not None and 'Tuple' in ast.unparse(vp.annotation) and any(
        ctx.res.resolve(x, f.module) == XLT + 'XlNumber' for x in ast.walk(vp.annotation) if isinstance(x, (ast.Name, ast.Attribute)))
    ctx.expect(ok, f.node, 'SUM folds a coercing Tuple[XlNumber]',
               'SUM no longer receives its items through the number-coercing tuple annotation: blanks/text from ranges reach the sum')
    r = last_return(f.node)
    ok = r is not None and isinstance(r.value, ast.Call) and isinstance(r.value.func, ast.Name) and r.value.func.id == 'sum' \
        and len(r.value.args) == 1 and names_in(r.value.args[0]) == {vp.name if vp else ''}
    ctx.expect(ok, f.node, 'SUM returns sum(all items)', 'SUM does not return the sum over all of its (converted) items')
    for name in ('AVERAGE', 'MIN', 'MAX'):
        f = _reg(ctx, name)
        fn = f.node
        fold = {'AVERAGE': 'sum', 'MIN': 'min', 'MAX': 'max'}[name]
        calls = [c for c in flow.calls_in(fn) if isinstance(c.func, ast.Name) and c.func.id == fold]
        if not calls:
            ctx.bad(fn, f'{name} folds with {fold}()', f'{name} no longer folds with {fold}()')
            continue
        filt = _filtered_names(ctx, fn, f.module)
        for c in calls:
            arg = c.args[0] if c.args else None
            ok = arg is not None and (_is_number_filter(ctx, arg, f.module) or (isinstance(arg, ast.Name) and arg.id in filt)
                                      or any(_is_number_filter(ctx, x, f.module) for x in ast.walk(arg)))
            ctx.expect(ok, c, f'{name}: input of {fold}() is filtered with Number.is_type',
                       f'{name} folds items that were not filtered to numbers: a blank or text cell inside the range makes the '
                       f'result wrong or #VALUE!')
        if name == 'AVERAGE':
            r = last_return(fn)
            ok = False
            if r is not None and isinstance(r.value, ast.BinOp) and isinstance(r.value.op, ast.Div):
                num, den = r.value.left, r.value.right
                ok = isinstance(den, ast.Call) and isinstance(den.func, ast.Name) and den.func.id == 'len' \
                    and isinstance(num, ast.Call) and ast.dump(num.args[0]) == ast.dump(den.args[0])
            ctx.expect(ok, fn, 'AVERAGE divides by the number of items it sums',
                       'numerator and denominator of AVERAGE range over different collections')
    ctx.floor(6, 'fold inputs')


def rule_2(ctx):
    for name in ('MIN', 'MAX', 'AVERAGE'):
        f = _reg(ctx, name)
        fn = f.node
        filt = _filtered_names(ctx, fn, f.module)
        risky = []
        for c in flow.calls_in(fn):
            if isinstance(c.func, ast.Name) and c.func.id in ('min', 'max') and len(c.args) == 1 and not c.keywords:
                risky.append((c, c.args[0]))
        for b in walk_local(fn):
            if isinstance(b, ast.BinOp) and isinstance(b.op, ast.Div) and isinstance(b.right, ast.Call) \
                    and isinstance(b.right.func, ast.Name) and b.right.func.id == 'len':
                risky.append((b, b.right.args[0]))
        for node, coll in risky:
            conds = flow.path_conditions(node)
            guarded = False
            for cd in conds:
                if cd.kind != 'guard' or cd.polarity:
                    continue
                for x in ast.walk(cd.test):
                    if isinstance(x, ast.Call) and isinstance(x.func, ast.Name) and x.func.id == 'len' and x.args:
                        tested = x.args[0]
                        same = ast.dump(tested) == ast.dump(coll)
                        is_filtered = (isinstance(tested, ast.Name) and tested.id in filt) or _is_number_filter(ctx, tested, f.module)
                        folds_filtered = (isinstance(coll, ast.Name) and coll.id in filt)
                        if same and (is_filtered or not _is_number_filter(ctx, coll, f.module)):
                            guarded = True
                        if is_filtered and folds_filtered and same:
                            guarded = True
                    if isinstance(x, ast.UnaryOp) and isinstance(x.op, ast.Not) and ast.dump(x.operand) == ast.dump(coll):
                        guarded = True
            # the folded collection itself must be what the guard looked at
            if _is_number_filter(ctx, coll, f.module):
                guarded = False
            handler = any(isinstance(p, ast.Try) for p in _ancestors(node, fn))
            kind = 'min()/max() of an empty sequence' if isinstance(node, ast.Call) else 'division by len() == 0'
            ctx.expect(guarded or handler, node, f'{name}: empty fold guarded on the filtered collection',
                       f'{name}: {kind} is only guarded on the unfiltered arguments: when no argument is numeric '
                       f'({name}("a")) the fold raises ValueError/ZeroDivisionError instead of returning 0')
    ctx.floor(3, 'empty-fold sites')


def _ancestors(node, stop):
    p = node._parent
    while p is not None and p is not stop:
        yield p
        p = p._parent


def rule_3(ctx):
    f = _reg(ctx, 'SUMPRODUCT')
    fn = f.node
    cmps = [c for c in walk_local(fn) if isinstance(c, ast.Compare) and len(c.ops) == 1 and isinstance(c.ops[0], (ast.NotEq, ast.Eq))]
    deps = flow.Deps(fn)

    def from_shape(e):
        if any(isinstance(x, ast.Attribute) and x.attr == 'shape' for x in ast.walk(e)):
            return True
        for nm in names_in(e):
            for a in walk_local(fn):
                if isinstance(a, ast.Assign) and any(isinstance(t, ast.Name) and t.id == nm for t in a.targets):
                    if isinstance(a.value, ast.Attribute) and a.value.attr == 'shape':
                        return True
        return False

    guards = []
    for c in cmps:
        st = flow.stmt_of(c)
        if isinstance(st, ast.If) and st.test is c or (isinstance(st, ast.If) and c in list(ast.walk(st.test))):
            raises = [r for r in st.body if isinstance(r, ast.Raise)]
            if raises and raise_class(ctx, raises[0]) == XLERR + 'ValueExcelError' and isinstance(c.ops[0], ast.NotEq):
                guards.append((st, c))
    ok = False
    for st, c in guards:
        l, r = c.left, c.comparators[0]
        if from_shape(l) and from_shape(r):
            # inside a loop over all arrays
            in_loop = any(isinstance(p, ast.For) for p in _ancestors(st, fn))
            ok = in_loop
    ctx.expect(ok, fn, 'SUMPRODUCT rejects arrays of different shape with #VALUE!',
               'SUMPRODUCT does not compare the shape (rows x columns) of every array with the first one: ranges with the same '
               'number of cells but different shapes are multiplied')
    # the guard precedes the product
    prod = [c for c in flow.calls_in(fn) if isinstance(c.func, ast.Attribute) and c.func.attr in ('prod', 'concat', 'sum')]
    ok2 = bool(guards) and all(flow.pos(guards[0][0]) < flow.pos(c) for c in prod)
    ctx.expect(ok2, fn, 'shape guard precedes the product', 'the product is computed before the shapes were compared')
    ctx.floor(2, 'shape guard facts')


def rule_4(ctx):
    for name, pred, neg in (('COUNT', XLT + 'Number.is_type', False), ('COUNTA', XLT + 'Blank.is_blank', True)):
        f = _reg(ctx, name)
        fn = f.node
        filters = [c for c in flow.calls_in(fn) if isinstance(c.func, ast.Name) and c.func.id == 'filter' and len(c.args) == 2]
        ok = False
        for c in filters:
            a0 = c.args[0]
            if not neg:
                ok = ok or ctx.res.resolve(a0, f.module) == pred
            else:
                ok = ok or (isinstance(a0, ast.Lambda) and isinstance(a0.body, ast.UnaryOp) and isinstance(a0.body.op, ast.Not)
                            and isinstance(a0.body.operand, ast.Call) and ctx.res.resolve(a0.body.operand.func, f.module) == pred)
        ctx.expect(ok, fn, f'{name} counts by {"not " if neg else ""}{pred.split(":")[-1]}',
                   f'{name} no longer counts its items with {"not " if neg else ""}{pred.split(":")[-1]}')
        r = last_return(fn)
        ok = r is not None and isinstance(r.value, ast.Call) and isinstance(r.value.func, ast.Name) and r.value.func.id == 'len'
        ctx.expect(ok, fn, f'{name} returns the number of selected items', f'{name} does not return the length of the filtered list')
        flat = [c for c in flow.calls_in(fn) if ctx.res.resolve(c.func, f.module) == 'pkg:xlfunctions.xl:flatten']
        ctx.expect(bool(flat), fn, f'{name} flattens ranges and scalars into one list', f'{name} does not flatten its arguments')
    xm = ctx.mod('xlfunctions.xl')
    fl = xm.func('flatten')
    rec = [c for c in flow.calls_in(fl) if isinstance(c.func, ast.Name) and c.func.id == 'flatten']
    ctx.expect(bool(rec), fl, 'flatten recurses into nested lists', 'flatten() does not recurse into nested lists/tuples')
    ext = [c for c in flow.calls_in(fl) if isinstance(c.func, ast.Attribute) and c.func.attr in ('extend', 'append')]
    ctx.expect(len(ext) == 3, fl, 'flatten keeps every item (append/extend only)', 'flatten() drops or duplicates items')
    ctx.floor(8, 'count predicates + flatten')


def rule_5(ctx):
    c04.rule_1(ctx)


RULES = [
    ('C14.1', 'only numbers are folded', rule_1),
    ('C14.2', 'empty folds are guarded on the filtered collection', rule_2),
    ('C14.3', 'SUMPRODUCT shape guard', rule_3),
    ('C14.4', 'COUNT/COUNTA predicates, flatten', rule_4),
    ('C14.5', 'range arrays are rebuilt from the cells on every evaluation (shared with C04.1)', rule_5),
]
