"""C20 - financial functions satisfy their defining equations (structural part)."""
import ast

from xlsa import Unmodelled, AnchorMissing
from xlsa.consteval import Ref, Obj, Unfoldable
from xlsa.load import walk_local, names_in, dotted
from xlsa.guards import Interp, Rec, PyModel, Opaque
from xlsa import flow
from .common import func_params, value_returns, last_return, XLERR, XLT, raise_class, is_excel_error_ref

PROPERTY = 'C20'
EXPLANATION = (
    'Decided from source: (C20.1) library binding: each Excel parameter of PV/PMT reaches the numpy-financial parameter of '
    'the same meaning, IRR hands over all of its flattened cash flows, no cash-flow list is filtered by truthiness (known '
    "finding F38 for XIRR/XNPV), and _xirr interpreted with a recording model of scipy's newton hands over r -> _xnpv(r, "
    'values, dates) and starts at the guess; (C20.2) every parameter of IRR/NPV/PMT/PV/SLN/XIRR/XNPV is in the backward '
    'slice of every value-returning return; (C20.3) reflected-operator hazard: no non-commutative operator with a possibly-'
    'native left operand and a value-class right operand (positive control: VDB); (C20.4) a witness workbook: flows and '
    'dates of different lengths give #NUM! for XNPV and XIRR in both directions, a rate of -1 or below does not end in a '
    'Python exception; (C20.5) SLN = (cost-salvage)/life on witness triples; (C20.6) NPV on witness flows incl. zero flows '
    'first, in the middle and last, and SLN, as the evaluator calls them: a zero flow occupies a period. (C20.7) a witness '
    'workbook: XNPV equals its closed form, is linear in the flows and a plain sum at rate 0, XIRR returns the root of the '
    "closed form (scipy's secant iteration modelled by its documented algorithm) - dates as serials around 60, fractional "
    'serials and dates built by DATE.'
    " (C20.7) also annuity closed forms before / after / around an XIRR that does not converge (numpy's process-wide error state modelled), IRR over a row, a column and blocks.")
NOT_DECIDED = ("numeric accuracy of numpy / numpy_financial beyond the witness rows; what scipy's iteration returns when no root exists or the "
               "iteration leaves the domain (the conversion of its RuntimeError to #NUM! is not witnessed)")
TRUSTED = ['numpy_financial.pv / pmt closed forms (incl. the 0/0 the library computes at rate 0), irr as the root of the net present value by bisection', "numpy's process-wide floating point error state (seterr / errstate)", 'numpy_financial.pv/pmt/irr parameter conventions', 'scipy.optimize.newton signature', 'workbook scenarios: pandas storage of range arrays as row-major rows, numpy on Python numbers (IEEE results, 64-bit integer wrap), dateutil.parser.parse rejecting texts that are no dates, openpyxl address arithmetic, inspect.signature built from the FunctionDef', "scipy.optimize.newton without derivative = the library's secant iteration", 'pandas DataFrame from a dict of lists: column access, boolean-mask rows, stable sort_values']

FUNCS = ('IRR', 'NPV', 'PMT', 'PV', 'SLN', 'XIRR', 'XNPV')
PARAM_EXCEPTIONS = {
    ('IRR', 'guess'): 'documented as a pure performance hint of the solver',
    ('PMT', 'type'): 'the property restricts PMT to end-of-period payments',
}


def _reg(ctx, name):
    for f in ctx.a.registry:
        if f.name == name:
            return f
    raise AnchorMissing(f'registered function {name}')


def _kw(call, name, pos=None):
    for k in call.keywords:
        if k.arg == name:
            return k.value
    if pos is not None and len(call.args) > pos:
        return call.args[pos]
    return None


def rule_1(ctx):
    f = _reg(ctx, 'PV')
    fn = f.node
    deps = flow.Deps(fn)
    calls = [c for c in flow.calls_in(fn) if ctx.res.resolve(c.func, f.module) == 'ext:numpy_financial.pv']
    ctx.expect(len(calls) >= 1, fn, 'PV delegates to numpy_financial.pv', 'PV no longer computes through numpy_financial.pv')
    for c in calls:
        for lib, pos, mine in (('rate', 0, 'rate'), ('nper', 1, 'nper'), ('pmt', 2, 'pmt'), ('fv', 3, 'fv'), ('when', 4, 'type')):
            a = _kw(c, lib, pos)
            got = deps.params_reaching(a) if a is not None else set()
            ctx.expect(got == {mine}, c, f'PV: {mine} -> numpy_financial.pv({lib})',
                       f'numpy_financial.pv({lib}=...) receives `{ast.unparse(a) if a is not None else "nothing"}` (from {sorted(got)}), expected '
                       f'the PV argument {mine}')
    f = _reg(ctx, 'PMT')
    fn = f.node
    deps = flow.Deps(fn)
    calls = [c for c in flow.calls_in(fn) if ctx.res.resolve(c.func, f.module) == 'ext:numpy_financial.pmt']
    ctx.expect(len(calls) >= 1, fn, 'PMT delegates to numpy_financial.pmt', 'PMT no longer computes through numpy_financial.pmt')
    for i, c in enumerate(calls):
        for lib, pos, mine in (('rate', 0, 'rate'), ('nper', 1, 'nper'), ('pv', 2, 'pv'), ('fv', 3, 'fv')):
            a = _kw(c, lib, pos)
            got = deps.params_reaching(a) if a is not None else set()
            ctx.expect(got == {mine}, c, f'PMT call #{i}: {mine} -> numpy_financial.pmt({lib})',
                       f'numpy_financial.pmt({lib}=...) receives `{ast.unparse(a) if a is not None else "nothing"}`')
    # the call reached in the default (EXCEL) compatibility mode uses when='end', whatever `type` is
    for tval in (0, 1):
        seen = {}

        def pmt_model(*a, **kw):
            seen['when'] = kw.get('when', a[4] if len(a) > 4 else 'end')
            return 1.0
        env = {p_.name: 1.0 for p_ in f.params}
        env['type'] = tval
        it = Interp(ctx.a, f.module, env, call_models={'ext:numpy_financial.pmt': pmt_model}, scope_fn=fn, inline_pkg=True)
        try:
            it.run(fn.body)
        except Unmodelled as exc:
            raise Unmodelled(f'PMT: {exc}')
        ctx.expect(seen.get('when') in ('end', 0), fn, f'PMT pays at period end (type={tval})',
                   f'in the default compatibility mode PMT(type={tval}) calls numpy_financial.pmt with when={seen.get("when")!r}')
    f = _reg(ctx, 'IRR')
    fn = f.node
    p = func_params(fn)
    calls = [c for c in flow.calls_in(fn) if ctx.res.resolve(c.func, f.module) == 'ext:numpy_financial.irr']
    ctx.expect(len(calls) == 1, fn, 'IRR delegates to numpy_financial.irr', 'IRR no longer computes through numpy_financial.irr')
    _no_truthiness_filter(ctx, f, 'IRR')
    for name in ('XIRR', 'XNPV'):
        _no_truthiness_filter(ctx, _reg(ctx, name), name)
    # _xirr interpreted with a recording model of scipy's newton: the function handed over IS r -> _xnpv(r, values, dates) on sample
    # rates, and the start value is the guess
    fm = ctx.mod('xlfunctions.financial')
    xi = fm.func('_xirr')
    seen = {}

    def newton(interp, func, x0=None, *a, **k):
        seen['x0'] = x0 if x0 is not None else k.get('x0')
        seen['f'] = [interp.invoke(func, [r]) for r in (0.05, 0.1, 0.3)]
        return 0.123456
    newton.wants_interp = True
    flows, days = [-100.0, 40.0, 80.0], [0.0, 100.0, 365.0]
    it = Interp(ctx.a, fm, {'v': list(flows), 'd': list(days)}, inline_pkg=True, call_models={'ext:scipy.optimize.newton': newton})
    out = it.run(ast.parse('return _xirr(v, d, 0.07)').body)

    def ref(r):
        return sum(v / (1.0 + r) ** ((d - days[0]) / 365) for v, d in zip(flows, days))
    ok = out.end == 'return' and out.value == 0.123456 and seen.get('x0') == 0.07 and isinstance(seen.get('f'), list) \
        and all(isinstance(g, float) and abs(g - ref(r)) < 1e-9 for g, r in zip(seen['f'], (0.05, 0.1, 0.3)))
    ctx.expect(ok, xi, 'XIRR: Newton on r -> _xnpv(r, values, dates) from the guess',
               f'_xirr does not solve _xnpv(r, values, dates) = 0 for r starting at the guess: newton received start value {seen.get("x0")!r} and a '
               f'function with the values {seen.get("f")!r} at r = 0.05, 0.1, 0.3 (expected {[ref(r) for r in (0.05, 0.1, 0.3)]}); result {out.end} {out.value!r}')
    ctx.floor(14, 'library bindings')


def _no_truthiness_filter(ctx, f, name):
    fn = ctx.inl(f.node, keep=('_xnpv', '_xirr'))
    bad = []
    for c in flow.calls_in(fn):
        if isinstance(c.func, ast.Attribute) and c.func.attr == 'flatten' and not ctx.res.resolve(c.func, f.module):
            # Array.flatten(xltype, filt): filt=None means filter(None, ...) which drops zeros
            filt = _kw(c, 'filt', 1)
            if filt is None or (isinstance(filt, ast.Constant) and filt.value is None):
                if len(c.args) >= 1 or c.keywords:
                    bad.append(c)
        if isinstance(c.func, ast.Name) and c.func.id == 'filter' and c.args and isinstance(c.args[0], ast.Constant) and c.args[0].value is None:
            bad.append(c)
    for n in walk_local(fn):
        if isinstance(n, (ast.ListComp, ast.GeneratorExp)):
            for g in n.generators:
                for i in g.ifs:
                    if isinstance(i, ast.Name):
                        bad.append(n)
    # what Array.flatten does with filt=None
    fm = ctx.mod('xlfunctions.func_xltypes')
    fl = fm.func('Array.flatten')
    drops_falsy = any(isinstance(c.func, ast.Name) and c.func.id == 'filter' and isinstance(c.args[0], ast.Name)
                      and c.args[0].id == func_params(fl)[2] for c in flow.calls_in(fl)) and not any(
        isinstance(n, ast.If) and func_params(fl)[2] in names_in(n.test) for n in walk_local(fl))
    real_bad = [b for b in bad if not (isinstance(b, ast.Call) and isinstance(b.func, ast.Attribute) and b.func.attr == 'flatten') or drops_falsy]
    ctx.expect(not real_bad, fn, f'{name}: cash flows are not filtered by truthiness',
               f'{name} builds its cash-flow list with `{ast.unparse(real_bad[0])[:60] if real_bad else ""}`, which drops every falsy item: a cash '
               f'flow of exactly 0 disappears, later flows shift to earlier periods / the lists no longer match '
               f'({name} with a zero flow gives a wrong rate or #NUM!)')


def rule_2(ctx):
    for name in FUNCS:
        f = _reg(ctx, name)
        fn = f.node
        deps = flow.Deps(fn)
        rets = value_returns(fn)
        if not rets:
            ctx.bad(fn, f'{name} returns a value', f'{name} has no value-returning return')
            continue
        for p in f.params:
            if (name, p.name) in PARAM_EXCEPTIONS:
                ctx.ok(p.node, f'{name}.{p.name} exempt', PARAM_EXCEPTIONS[(name, p.name)])
                continue
            missing = []
            for r in rets:
                names = names_in(r.value) | deps.control_names(r, selectors_only=True)
                # through helper calls with all arguments: names in call args are part of r.value already
                if ('@' + p.name) not in deps.closure(names):
                    missing.append(r)
            ctx.expect(not missing, p.node, f'{name}.{p.name} influences every returned value',
                       f'`{ast.unparse(missing[0])[:60] if missing else ""}` in {name} does not depend on {p.name}: on that path the argument is '
                       f'ignored (e.g. a shortcut for a special case that forgets a term of the defining equation)')
    ctx.floor(20, 'parameters of the seven functions')


def _maybe_native(ctx, expr, f):
    """Can the expression be a native Python number (literal, arithmetic on natives, an unconverted default)?"""
    if isinstance(expr, ast.Constant) and isinstance(expr.value, (int, float)):
        return True
    if isinstance(expr, ast.Name):
        prm = f.param(expr.id)
        if prm is not None:
            # validate_args converts passed arguments but NOT defaults
            return prm.default is not None and isinstance(prm.default, ast.Constant) and isinstance(prm.default.value, (int, float)) \
                and not isinstance(prm.default.value, bool)
        # local: any assignment from a native literal / float()/int() call
        for a in walk_local(f.node):
            if isinstance(a, ast.Assign) and any(isinstance(t, ast.Name) and t.id == expr.id for t in a.targets):
                if isinstance(a.value, ast.Constant) and isinstance(a.value.value, (int, float)):
                    return True
                if isinstance(a.value, ast.Call) and isinstance(a.value.func, ast.Name) and a.value.func.id in ('float', 'int', 'len', 'abs'):
                    return True
    if isinstance(expr, ast.Call) and isinstance(expr.func, ast.Name) and expr.func.id in ('float', 'int', 'len'):
        return True
    return False


def _maybe_xltype(ctx, expr, f):
    """Can the expression be an ExcelType value (a converted parameter)?"""
    if isinstance(expr, ast.Name):
        prm = f.param(expr.id)
        if prm is not None and prm.annotation is not None:
            rebound = any(isinstance(a, ast.Assign) and any(isinstance(t, ast.Name) and t.id == expr.id for t in a.targets)
                          and isinstance(a.value, ast.Call) and isinstance(a.value.func, ast.Name) and a.value.func.id in ('float', 'int')
                          for a in walk_local(f.node))
            return not rebound
    return False


def _hazards(ctx, f):
    out = []
    for b in walk_local(f.node):
        if isinstance(b, ast.BinOp) and isinstance(b.op, (ast.Sub, ast.Div, ast.Pow, ast.Mod, ast.FloorDiv)):
            if _maybe_native(ctx, b.left, f) and _maybe_xltype(ctx, b.right, f):
                out.append(b)
    return out


def rule_3(ctx):
    fm = ctx.mod('xlfunctions.func_xltypes')
    cls = fm.cls('ExcelType')
    aliased = []
    for stmt in cls.body:
        if isinstance(stmt, ast.Assign) and isinstance(stmt.targets[0], ast.Name) and stmt.targets[0].id.startswith('__r') \
                and isinstance(stmt.value, ast.Name) and stmt.value.id == '__' + stmt.targets[0].id[3:]:
            aliased.append(stmt.targets[0].id)
    noncomm = {'__rsub__', '__rtruediv__', '__rpow__', '__rmod__'} & set(aliased) | (
        {'__rmod__'} if any(isinstance(s, ast.Assign) and ast.unparse(s) == '__rmod__ = __mod__' for s in fm.cls('Number').body) else set())
    ctx.note(f'reflected dunders aliased to the forward ones: {sorted(aliased)}; non-commutative among them: {sorted(noncomm)}')
    control = _hazards(ctx, _reg(ctx, 'VDB'))
    if noncomm and not control:
        ctx.errors.append('C20.3: positive control lost - VDB\'s `factor / life` (native default over a converted value) is no longer detected')
    for name in FUNCS:
        f = _reg(ctx, name)
        hz = _hazards(ctx, f) if noncomm else []
        ctx.expect(not hz, f.node, f'{name}: no reflected-operator hazard',
                   f'`{ast.unparse(hz[0]) if hz else ""}` in {name}: the left operand can be a native number (unconverted default/literal) and the '
                   f'right an Excel value; the reflected dunder is an alias of the forward one, so the operands are swapped (a - b is computed as b - a)')
    ctx.floor(7, 'functions scanned')


def rule_4(ctx):
    """Guards of the dated functions, decided on a witness workbook evaluated as written: flows and dates of different lengths
    give #NUM! (in either direction, for XNPV and XIRR) and a rate of -1 or below ends in a value or an Excel error, never in a
    Python-level exception. (What scipy's iteration does when no root exists is not decided - see NOT_DECIDED.)"""
    from . import workbook as W
    from . import values as V
    f = _reg(ctx, 'XNPV')
    cells = {'A1': -100, 'A2': 10, 'A3': 200, 'B1': 60, 'B2': 61, 'B3': 425,
             'G1': '=XNPV(0.1,A1:A3,B1:B2)', 'G2': '=XNPV(0.1,A1:A2,B1:B3)', 'G3': '=XIRR(A1:A3,B1:B2)', 'G4': '=XIRR(A1:A2,B1:B3)',
             'G5': '=XNPV(-1,A1:A3,B1:B3)', 'G6': '=XNPV(-1.5,A1:A3,B1:B3)', 'G7': '=XNPV(0.1,A1:A3,B1:B3)'}
    models = dict(V.date_models())
    models.update(V.scipy_models())
    wb = W.Workbook(ctx, cells, models=models)
    for a in ('G1', 'G2', 'G3', 'G4'):
        got = wb.value('Sheet1!' + a)
        name = cells[a][1:5]
        ok = got in (('error', '#NUM!'), ('error-class', 'NumExcelError'))
        ctx.expect(ok, _reg(ctx, name).node, f'{name}: length mismatch gives #NUM! ({cells[a]})',
                   f'{cells[a]} with three flows / two dates (or two / three) evaluates to {got!r}, expected #NUM!')
    for a in ('G5', 'G6'):
        got = wb.value('Sheet1!' + a)
        ok = not (isinstance(got, tuple) and got[:1] == ('raise',))
        ctx.expect(ok, f.node, f'XNPV at a rate of -1 or below does not crash ({cells[a]})',
                   f'{cells[a]} ends in {got!r}: a rate at which 1 + rate is zero or negative must give a value or an Excel error, not a Python exception')
    got = wb.value('Sheet1!G7')
    ctx.expect(isinstance(got, tuple) and got[0] == 'Number', f.node, 'XNPV: equal lengths are accepted', f'{cells["G7"]} evaluates to {got!r}')
    ctx.floor(7, 'guards')


def rule_5(ctx):
    """SLN on witness triples (the date-weighted closed form of XNPV is decided end to end by C20.7, NPV's by C20.6)."""
    f = _reg(ctx, 'SLN')
    p = func_params(f.node)
    wrong = []
    for cost, salvage, life, want in ((10, 2, 4, 2.0), (100, 10, 9, 10.0), (5, 5, 2, 0.0), (1000, 0, 8, 125.0)):
        it = Interp(ctx.a, f.module, {p[0]: cost, p[1]: salvage, p[2]: life}, scope_fn=f.node, inline_pkg=True)
        out = it.run(f.node.body)
        if not (out.end == 'return' and out.value == want):
            wrong.append((cost, salvage, life, out.value, want))
    ctx.expect(not wrong, f.node, 'SLN = (cost - salvage) / life',
               f'SLN{wrong[0][:3]} gives {wrong[0][3]!r}, expected {wrong[0][4]!r}' if wrong else '')
    ctx.floor(1, 'closed-form witnesses')


def rule_6(ctx):
    """NPV and SLN as the evaluator calls them (registered wrapper, casts, body) on witness cash flows; a flow of exactly 0 is a
    flow (it occupies a period), also when it comes first or last."""
    from . import values as V
    f = V.registered(ctx, 'NPV')

    def oracle(rate, flows):
        return sum(v / (1 + rate) ** (i + 1) for i, v in enumerate(flows))
    for rate, flows in ((0.1, [-100, 0, 121]), (0.1, [-10000, 3000, 0, 4200, 6800]), (0.05, [0, 0, 500]), (0.08, [100, 200, 0]), (0.1, [-100, 110])):
        out = V.call(ctx, 'NPV', [V.num(rate)] + [V.num(v) for v in flows])
        got = V.norm(out.value) if out.end == 'return' else f'<{out.end} {out.value!r}>'
        want = oracle(rate, flows)
        ok = isinstance(got, tuple) and got[0] == 'Number' and isinstance(got[1], (int, float)) and abs(got[1] - want) <= 1e-9 * max(1.0, abs(want))
        ctx.expect(ok, f.node, f'NPV({rate}, {flows})',
                   f'NPV({rate}, {", ".join(map(str, flows))}) gives {got!r}, expected {want!r} = sum of flow_i / (1+rate)^i: every listed flow, a zero '
                   'included, occupies one period')
    g = V.registered(ctx, 'SLN')
    out = V.call(ctx, 'SLN', [V.num(10000), V.num(1000), V.num(9)])
    got = V.norm(out.value) if out.end == 'return' else f'<{out.end} {out.value!r}>'
    ctx.expect(isinstance(got, tuple) and got[0] == 'Number' and abs(got[1] - 1000.0) < 1e-9, g.node, 'SLN(10000, 1000, 9)',
               f'SLN(10000, 1000, 9) gives {got!r}, expected 1000 = (cost - salvage) / life')
    ctx.floor(6, 'NPV / SLN witnesses')


XN_CELLS = {
    'A1': -100, 'A2': 10, 'A3': 200, 'B1': 60, 'B2': 61, 'B3': 425, 'C1': 30, 'C2': 60, 'C3': 400, 'D1': '=DATE(2020,1,1)', 'D2': '=DATE(2020,7,1)',
    'D3': '=DATE(2021,1,1)', 'E1': 59.5, 'E2': 61.25, 'E3': 300.75, 'F1': -1000, 'F2': 700, 'F3': 900, 'G1': '=A1+F1', 'G2': '=A2+F2', 'G3': '=A3+F3',
    'X1': '=XNPV(0.1,A1:A3,B1:B3)', 'X2': '=XNPV(0.1,A1:A3,C1:C3)', 'X3': '=XNPV(0.05,F1:F3,D1:D3)', 'X4': '=XNPV(0.1,A1:A3,E1:E3)',
    'X5': '=XNPV(0,A1:A3,B1:B3)', 'X6': '=XNPV(0.1,F1:F3,B1:B3)', 'X7': '=XNPV(0.1,G1:G3,B1:B3)', 'X8': '=XNPV(2.5,F1:F3,C1:C3)',
    'R1': '=XIRR(F1:F3,C1:C3)', 'R2': '=XIRR(A1:A3,B1:B3)', 'R3': '=XIRR(F1:F3,D1:D3,0.2)', 'R4': '=XIRR(F1:F3,E1:E3)',
}


def _xnpv_ref(rate, values, days):
    return sum(v / (1.0 + rate) ** ((d - days[0]) / 365.0) for v, d in zip(values, days))


def _xirr_ref(values, days):
    lo, hi = -0.99, 1000.0
    for _ in range(400):
        mid = (lo + hi) / 2
        if _xnpv_ref(mid, values, days) > 0:
            lo = mid
        else:
            hi = mid
    return (lo + hi) / 2


def rule_7(ctx):
    """A witness workbook, interpreted as written (scipy's secant iteration modelled by its documented algorithm): XNPV over ranges
    of flows and dates - serials on both sides of serial 60, fractional serials, dates built by DATE - equals the closed form, is
    linear in the flows and a plain sum at rate 0; XIRR returns the rate at which the closed form vanishes."""
    from . import workbook as W
    from . import scenarios as S
    from . import values as V
    anchor = _reg(ctx, 'XNPV').node if '_reg' in globals() else ctx.mod('xlfunctions.financial').func('XNPV')
    models = dict(V.date_models())
    models.update(V.scipy_models())
    wb = W.Workbook(ctx, XN_CELLS, models=models)
    A, F = [-100, 10, 200], [-1000, 700, 900]
    B, C, E = [60, 61, 425], [30, 60, 400], [59.5, 61.25, 300.75]
    D = [43831, 44013, 44197]
    G = [a + f for a, f in zip(A, F)]
    want = {'X1': _xnpv_ref(0.1, A, B), 'X2': _xnpv_ref(0.1, A, C), 'X3': _xnpv_ref(0.05, F, D), 'X4': _xnpv_ref(0.1, A, E), 'X5': 110.0,
            'X6': _xnpv_ref(0.1, F, B), 'X7': _xnpv_ref(0.1, A, B) + _xnpv_ref(0.1, F, B), 'X8': _xnpv_ref(2.5, F, C),
            'R1': _xirr_ref(F, C), 'R2': _xirr_ref(A, B), 'R3': _xirr_ref(F, D), 'R4': _xirr_ref(F, E)}
    for a, w in want.items():
        got = wb.value('Sheet1!' + a)
        val = got[1] if isinstance(got, tuple) and len(got) == 2 and got[0] == 'Number' else got
        tol = 1e-6 if a.startswith('R') else 1e-9 * max(1.0, abs(w))
        ok = isinstance(val, (int, float)) and not isinstance(val, bool) and abs(val - w) <= tol
        ctx.expect(ok, anchor, f'dated cash flows: {XN_CELLS[a]}',
                   f'{a} = {XN_CELLS[a]} evaluates to {got!r}, the defining equation gives {w!r} (flows A = {A}, F = {F}; dates B = {B}, C = {C}, '
                   f'E = {E}, D = 2020-01-01 / 2020-07-01 / 2021-01-01)')
    # annuities at rate 0 and otherwise, before and after an XIRR that does not converge - in one process
    models.update(V.npf_models())
    ann = {'K1': 30, 'K2': 444, 'L1': 40000, 'L2': 40312, 'Q9': '=XIRR(K1:K2,L1:L2)', 'P1': '=PV(0,10,100,50)', 'P2': '=PMT(0,10,1000)', 'P3': '=PV(0.05,10,-100,0,1)',
           'P4': '=NPV(0,10,20,30)', 'P5': '=PV(0,12,-50)', 'P6': '=PV(0,10,100,50,1)', 'P7': '=PMT(0.05,10,1000)', 'P8': '=PV(0.05,10,PMT(0.05,10,1000))', 'P9': '=PV(0,10,PMT(0,10,1000))'}
    awant = {'P1': -1050.0, 'P2': -100.0, 'P3': 810.7821675644058, 'P4': 60.0, 'P5': 600.0, 'P6': -1050.0, 'P7': -1000 * 0.05 / (1 - 1.05 ** -10), 'P8': 1000.0, 'P9': 1000.0}
    for oname, order in (('on their own', list(awant)), ('after an XIRR that did not converge', ['Q9'] + list(awant)), ('with the failing XIRR in between', ['P1', 'Q9', 'P2', 'Q9'] + list(awant))):
        wba = W.Workbook(ctx, ann, models=models)
        for a in order:
            got = wba.value('Sheet1!' + a)
            if a == 'Q9':
                ok = got in (('error', '#NUM!'), ('error-class', 'NumExcelError'))
                ctx.expect(ok, anchor, f'XIRR without a root ({oname})', f'{ann[a]} over flows 30, 444 evaluates to {got!r}, expected #NUM!')
                continue
            val = got[1] if isinstance(got, tuple) and len(got) == 2 and got[0] == 'Number' else got
            ok = isinstance(val, (int, float)) and not isinstance(val, bool) and abs(val - awant[a]) <= 1e-9 * max(1.0, abs(awant[a]))
            ctx.expect(ok, anchor, f'annuity closed forms {oname}: {ann[a]}',
                       f'{a} = {ann[a]} evaluates to {got!r} when the cells are evaluated {oname}; the closed form gives {awant[a]!r}')
    # IRR over flows laid out as a row, a column and a block (a rectangular range is read row by row)
    flows = [-100, 10, 20, 30, 40, 50]
    irr_ref = V.npf_models()['ext:numpy_financial.irr'](flows)
    blocks = {'a row': ({f'{c}1': v for c, v in zip('ABCDEF', flows)}, 'A1:F1'), 'a column': ({f'A{i}': v for i, v in enumerate(flows, start=1)}, 'A1:A6'),
              'a 2x3 block': ({f'{c}{r}': flows[(r - 1) * 3 + j] for r in (1, 2) for j, c in enumerate('ABC')}, 'A1:C2'),
              'a 3x2 block': ({f'{c}{r}': flows[(r - 1) * 2 + j] for r in (1, 2, 3) for j, c in enumerate('AB')}, 'A1:B3')}
    for bname, (cells_, rng) in blocks.items():
        cells_ = dict(cells_)
        cells_.update({'H1': f'=IRR({rng})', 'H2': f'=NPV(H1,{rng})'})
        wbi = W.Workbook(ctx, cells_, models=models)
        got = wbi.value('Sheet1!H1')
        val = got[1] if isinstance(got, tuple) and len(got) == 2 and got[0] == 'Number' else got
        ok = isinstance(val, (int, float)) and not isinstance(val, bool) and abs(val - irr_ref) <= 1e-6
        ctx.expect(ok, anchor, f'IRR over {bname}', f'=IRR({rng}) over the flows {flows} laid out as {bname} evaluates to {got!r}; the rate at which their net present value '
                   f'vanishes is {irr_ref!r}')
        got2 = wbi.value('Sheet1!H2')
        val2 = got2[1] if isinstance(got2, tuple) and len(got2) == 2 and got2[0] == 'Number' else got2
        ctx.expect(isinstance(val2, (int, float)) and not isinstance(val2, bool) and abs(val2) <= 1e-4, anchor, f'NPV at the IRR over {bname}',
                   f'=NPV(IRR({rng}),{rng}) evaluates to {got2!r}, expected 0 to within 1e-4: IRR and NPV read the same flows in the same order')
    ctx.floor(48, 'dated cash-flow cells')


RULES = [
    ('C20.1', 'library binding; cash flows not filtered by truthiness', rule_1),
    ('C20.2', 'parameters influence every returned value', rule_2),
    ('C20.3', 'reflected-operator hazard', rule_3),
    ('C20.4', 'guards', rule_4),
    ('C20.5', 'shape of the closed forms', rule_5),
    ('C20.6', 'NPV / SLN on witness cash flows through the registered wrapper (a zero flow occupies a period)', rule_6),
    ('C20.7', 'witness workbook: XNPV closed form / linearity, XIRR root, dates as serials around 60 and built by DATE', rule_7),
]
