"""Facts about the evaluation core shared by C04, C05, C06, C10."""
import ast

from xlsa import Unmodelled, AnchorMissing
from xlsa.load import walk_local, names_in, dotted
from xlsa import flow

LONG_LIVED = {'pkg:evaluator:Evaluator', 'pkg:model:Model', 'pkg:model:ModelCompiler'}


def core_functions(ctx):
    """(module, qualname, FunctionDef) of the functions on the recursion of Evaluator.evaluate."""
    out = []
    em = ctx.mod('evaluator')
    am = ctx.mod('ast_nodes')
    em.func('Evaluator.evaluate')
    helpers = _inlined_helpers(ctx)
    for qual, fn in em.funcs.items():
        if qual.startswith(('Evaluator.', 'EvaluatorContext.')) and fn not in helpers:
            out.append((em, qual, ctx.inl(fn)))
    for qual, fn in am.funcs.items():
        if '.' in qual and fn not in helpers:
            out.append((am, qual, ctx.inl(fn)))
    return out


def _inlined_helpers(ctx):
    """Private helpers of the evaluator / node classes that are folded into their callers by the inlined views."""
    out = set()
    for modname in ('evaluator', 'ast_nodes'):
        m = ctx.mod(modname)
        for qual, fn in m.funcs.items():
            short = qual.split('.')[-1]
            if short.startswith('_') and not short.startswith('__') and '.' in qual:
                # only when every call of it is from the same class (so the inlined callers cover it)
                out.add(fn)
    return out


def recursion_functions(ctx):
    """Functions that are on the cell -> formula -> cell recursion itself."""
    em = ctx.mod('evaluator')
    am = ctx.mod('ast_nodes')
    out = [(em, 'Evaluator.evaluate', ctx.func('evaluator', 'Evaluator.evaluate')),
           (em, 'EvaluatorContext.eval_cell', ctx.func('evaluator', 'EvaluatorContext.eval_cell'))]
    for qual, fn in am.funcs.items():
        if qual.endswith('.eval') or qual.endswith('.eval_cell'):
            out.append((am, qual, ctx.inl(fn)))
    return out


def context_classes(ctx):
    """Classes whose instances are per-evaluation contexts (subclasses of EvalContext)."""
    out = set()
    base = 'pkg:ast_nodes:EvalContext'
    for m in ctx.repo.modules.values():
        for qual, cnode in m.classes.items():
            ref = f'pkg:{m.name}:{qual}'
            if ctx.res.is_subclass(ref, base):
                out.add(ref)
    if base not in out:
        raise AnchorMissing('ast_nodes.EvalContext')
    return out


def class_of_method(m, qual):
    return f'pkg:{m.name}:{qual.rsplit(".", 1)[0]}' if '.' in qual else None


def self_attr(node):
    """'x' for self.x (Attribute on Name self), else None."""
    if isinstance(node, ast.Attribute) and isinstance(node.value, ast.Name) and node.value.id == 'self':
        return node.attr
    return None


def deref(expr, fn):
    """A local name bound once to `self.<attr>` stands for that attribute (alias of a collection)."""
    if isinstance(expr, ast.Name):
        binds = [a for a in walk_local(fn) if isinstance(a, ast.Assign) and any(isinstance(t, ast.Name) and t.id == expr.id for t in a.targets)]
        if len(binds) == 1 and self_attr(binds[0].value):
            return binds[0].value
    return expr


def constructions(ctx, cref):
    """All call sites in the package constructing the class (or a subclass is not followed)."""
    out = []
    for m in ctx.repo.modules.values():
        for n in ast.walk(m.tree):
            if isinstance(n, ast.Call) and isinstance(n.func, (ast.Name, ast.Attribute)):
                if ctx.res.resolve(n.func, m) == cref:
                    out.append((m, n))
    return out


# ---------------------------------------------------------------------------------------------
# Semantic path-condition evaluation for cells: "this site is only reached for cells in state S"
# ---------------------------------------------------------------------------------------------


CELL_STATES = {
    'no formula': lambda Rec: Rec(formula=None, value='stored', need_update=True),
    'formula not to be evaluated': lambda Rec: Rec(formula=Rec(evaluate=False, formula='=x', ast=None), value='stored', need_update=True),
    'live formula': lambda Rec: Rec(formula=Rec(evaluate=True, formula='=x', ast=None), value='stale', need_update=False),
}


def site_excluded_for(ctx, m, fn, site, state, self_class=None):
    """Three-valued: True when the path conditions of `site` are contradictory for a cell in `state`
    (the site cannot be reached for such a cell), False when they are all satisfied, None when unknown."""
    from xlsa.guards import Interp, Rec
    from .c02 import tri
    cell = CELL_STATES[state](Rec)

    def factory():
        it = Interp(ctx.a, m, {}, self_class=self_class, scope_fn=fn)
        orig_ev = it.ev

        def ev(n, _orig=orig_ev):
            if isinstance(n, (ast.Name, ast.Subscript)) and not isinstance(getattr(n, 'ctx', None), ast.Store):
                if isinstance(n, ast.Subscript) and isinstance(n.value, ast.Attribute) and n.value.attr == 'cells':
                    return cell
                if isinstance(n, ast.Name) and _name_is_cell(n.id, fn):
                    return cell
            return _orig(n)
        it.ev = ev
        return it
    conds = flow.path_conditions(site)
    unknown_relevant = False
    for c in conds:
        v = tri(factory, c.test)
        if v is not None and v != c.polarity:
            return True
        if v is None and _mentions_cell_state(c.test, fn):
            unknown_relevant = True
    return None if unknown_relevant else False


def _mentions_cell_state(test, fn):
    for x in ast.walk(test):
        if isinstance(x, ast.Attribute) and x.attr in ('formula', 'need_update', 'evaluate', 'value'):
            return True
        if isinstance(x, ast.Subscript) and isinstance(x.value, ast.Attribute) and x.value.attr == 'cells':
            return True
        if isinstance(x, ast.Name) and _name_is_cell(x.id, fn):
            return True
    return False


def _name_is_cell(name, fn):
    for n in walk_local(fn):
        if isinstance(n, ast.Assign) and any(isinstance(t, ast.Name) and t.id == name for t in n.targets):
            v = n.value
            if isinstance(v, ast.Subscript) and isinstance(v.value, ast.Attribute) and v.value.attr == 'cells':
                return True
    return False
