"""Facts about the evaluation core shared by C04, C05, C06, C10."""
import ast

from xlsa import Unmodelled, AnchorMissing
from xlsa.load import walk_local, names_in, dotted
from xlsa import flow

LONG_LIVED = {'pkg:evaluator:Evaluator', 'pkg:model:Model', 'pkg:model:ModelCompiler'}


def core_functions(ctx):
    """(module, qualname, FunctionDef) of the functions on the recursion of Evaluator.evaluate."""
    out = []
    em = ctx.mod('evaluator')
    am = ctx.mod('ast_nodes')
    em.func('Evaluator.evaluate')
    for qual, fn in em.funcs.items():
        if qual.startswith(('Evaluator.', 'EvaluatorContext.')):
            out.append((em, qual, fn))
    for qual, fn in am.funcs.items():
        if '.' in qual:
            out.append((am, qual, fn))
    return out


def recursion_functions(ctx):
    """Functions that are on the cell -> formula -> cell recursion itself."""
    em = ctx.mod('evaluator')
    am = ctx.mod('ast_nodes')
    out = [(em, 'Evaluator.evaluate', em.func('Evaluator.evaluate')),
           (em, 'EvaluatorContext.eval_cell', em.func('EvaluatorContext.eval_cell'))]
    for qual, fn in am.funcs.items():
        if qual.endswith('.eval') or qual.endswith('.eval_cell'):
            out.append((am, qual, fn))
        elif '.' in qual and qual.split('.')[0].endswith('Node') and qual.split('.')[-1].startswith('_'):
            out.append((am, qual, fn))   # private helpers of node classes
    return out


def context_classes(ctx):
    """Classes whose instances are per-evaluation contexts (subclasses of EvalContext)."""
    out = set()
    base = 'pkg:ast_nodes:EvalContext'
    for m in ctx.repo.modules.values():
        for qual, cnode in m.classes.items():
            ref = f'pkg:{m.name}:{qual}'
            if ctx.res.is_subclass(ref, base):
                out.add(ref)
    if base not in out:
        raise AnchorMissing('ast_nodes.EvalContext')
    return out


def class_of_method(m, qual):
    return f'pkg:{m.name}:{qual.rsplit(".", 1)[0]}' if '.' in qual else None


def self_attr(node):
    """'x' for self.x (Attribute on Name self), else None."""
    if isinstance(node, ast.Attribute) and isinstance(node.value, ast.Name) and node.value.id == 'self':
        return node.attr
    return None


def attr_inits(ctx, cref):
    """{attr: [value nodes]} assigned as self.attr = ... in the methods of the class (through the MRO)."""
    out = {}
    for m, cnode in ctx.res.mro(cref):
        for stmt in cnode.body:
            if isinstance(stmt, ast.FunctionDef):
                for n in walk_local(stmt):
                    if isinstance(n, ast.Assign):
                        for t in n.targets:
                            a = self_attr(t)
                            if a:
                                out.setdefault(a, []).append((stmt, n))
    return out


def constructions(ctx, cref):
    """All call sites in the package constructing the class (or a subclass is not followed)."""
    out = []
    for m in ctx.repo.modules.values():
        for n in ast.walk(m.tree):
            if isinstance(n, ast.Call) and isinstance(n.func, (ast.Name, ast.Attribute)):
                if ctx.res.resolve(n.func, m) == cref:
                    out.append((m, n))
    return out
