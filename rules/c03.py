"""C03 - references denote exactly the addressed cells on the right sheet (structural part)."""
import ast

from xlsa import Unmodelled, AnchorMissing
from xlsa.consteval import Ref, Obj, Unfoldable
from xlsa.guards import Interp, Rec, PyModel, Opaque
from xlsa.load import walk_local, names_in, dotted
from xlsa import flow
from .common import func_params, value_returns, last_return

PROPERTY = 'C03'
EXPLANATION = (
    "Decided from source: (C03.1) the package's $-remover interpreted on witness spellings (qualified, unqualified, quoted "
    'sheet, a sheet title containing $, ranges) strips $ from the coordinates only, and the terms of a formula are $-free '
    "and qualified with the formula's own sheet; (C03.2) range materialisation is total: witness workbooks with one "
    'populated cell behind 154 empty cells along a row (known finding F06) and down a column, and dense rectangles, '
    'evaluated as written; (C03.3) an evaluation context takes its sheet from the address it is built for and a reference '
    'node resolves against the current context (tables on the real constructor / full_address, lemma L3); (C03.4) the '
    'name->address map handed to the parser holds address strings; (C03.5) a witness workbook with ranges written '
    'unqualified, qualified and $-absolute, empty members and references to cells the model does not hold: every spelling '
    'is registered under the key its evaluation uses; (C03.6) resolve_ranges on witness rectangles: row-major, bounds '
    'inclusive; (C03.7) resolve_ranges / resolve_address / resolve_sheet on plain and quoted titles return the bare title. '
    '(C03.8) the reader, interpreted on an abstract workbook that repeats a formula text on two sheets, gives every cell a '
    'formula object bound to its own sheet; (C03.1/C03.3) also: XLFormula built for two sheets from one text, and one '
    'reference node resolved under two contexts, carry nothing over. (C03.9) a reference workbook with three sheets (one '
    'title a prefix of another, one with an apostrophe), defined names, $-variants, ranges with empty cells and cross-sheet'
    ' chains, loaded through the reader path and evaluated as written in both orders against hand-computed values; a second'
    ' workbook with the names bound elsewhere in the same process.'
    ' (C03.5) also addresses that name their sheet in the dict reader, sheet titles that are prefixes of one another; (C03.9) the names history repeated on an extracted model; two workbooks loaded one after the other in one process (hidden sheets, ignore_hidden, ignore lists).')
NOT_DECIDED = 'range arithmetic of openpyxl (range_boundaries), values of the cells'
TRUSTED = ['openpyxl.utils.cell.range_boundaries / get_column_letter behave as documented', 'workbook scenarios: pandas storage of range arrays as row-major rows, numpy on Python numbers (IEEE results, 64-bit integer wrap), dateutil.parser.parse rejecting texts that are no dates, openpyxl address arithmetic, inspect.signature built from the FunctionDef', 'modelled openpyxl workbook (sheetnames, _cells, defined_names)']

WITNESS = [
    # (input, expected output)
    ('$A$1', 'A1'), ('A$1', 'A1'), ('$A1', 'A1'), ('A1', 'A1'),
    ('Sheet1!$A$1', 'Sheet1!A1'), ('Sheet1!A1', 'Sheet1!A1'),
    ('$A$1:$B$3', 'A1:B3'), ('$A1:B$3', 'A1:B3'),
    ('Sheet1!$A$1:$B$3', 'Sheet1!A1:B3'),
    ("'My Sheet'!$C$7", "'My Sheet'!C7"),
    ("'Cost $'!$C$7", "'Cost $'!C7"),
]


def _is_dollar_replace(call):
    return isinstance(call, ast.Call) and isinstance(call.func, ast.Attribute) \
        and call.func.attr == 'replace' and call.args \
        and isinstance(call.args[0], ast.Constant) and call.args[0].value == '$'


def _sanitiser_funcs(ctx):
    """Package functions that take a reference text and return it with $ removed."""
    out = {}
    for m in ctx.repo.modules.values():
        for qual, fn in m.funcs.items():
            if not isinstance(fn._parent, ast.Module):
                continue
            params = func_params(fn)
            if len(params) != 1:
                continue
            rets = value_returns(fn)
            if not rets:
                continue
            if any(_is_dollar_replace(c) for c in ast.walk(fn)):
                out[f'pkg:{m.name}:{qual}'] = (m, fn)
    return out


def _sanitised(ctx, expr, fn, sanitisers, depth=0):
    """Is the value of expr (inside fn) known to have passed through a $-remover?"""
    if depth > 4:
        return False
    if isinstance(expr, ast.Call):
        if _is_dollar_replace(expr):
            return True
        ref = ctx.res.resolve(expr.func, fn._module) if isinstance(expr.func, (ast.Name, ast.Attribute)) else None
        if ref in sanitisers:
            return True
        return False
    if isinstance(expr, ast.Name):
        assigns = [n for n in walk_local(fn) if isinstance(n, ast.Assign)
                   and any(isinstance(t, ast.Name) and t.id == expr.id for t in n.targets)]
        if not assigns:
            return False
        # every assignment either is sanitised or merely re-qualifies an already sanitised value
        ok = True
        for a in assigns:
            if _sanitised(ctx, a.value, fn, sanitisers, depth + 1):
                continue
            if isinstance(a.value, ast.JoinedStr) or (isinstance(a.value, ast.Call) and isinstance(a.value.func, ast.Attribute) and a.value.func.attr == 'format'):
                # f'{sheet}!{name}': fine when the interpolated reference is the sanitised name itself
                inner = [v.value for v in ast.walk(a.value) if isinstance(v, ast.FormattedValue)] + \
                    (list(a.value.args) if isinstance(a.value, ast.Call) else [])
                refs = [v for v in inner if isinstance(v, ast.Name) and v.id == expr.id]
                others_sanitised = all(_sanitised(ctx, x, fn, sanitisers, depth + 1) for x in assigns if x is not a for x in [x.value])
                if refs and others_sanitised:
                    continue
            ok = False
        return ok
    return False


def rule_1(ctx):
    """`$` is dropped from the coordinates of a reference before a cell is looked up, the sheet part stays as it is - decided by
    interpreting the package's own remover(s) on witness spellings (also a sheet title that contains a `$`), by lemma L4 (the
    terms of a formula: $-free, qualified with the formula's own sheet) and, end to end, by the $-variants of C03.5 / C03.9."""
    um = ctx.mod('utils')
    sans = {}
    if um.has_func('strip_absolute'):
        sans['pkg:utils:strip_absolute'] = (um, um.func('strip_absolute'))       # the package's documented remover
    else:
        sans = {r: v for r, v in _sanitiser_funcs(ctx).items() if r.startswith('pkg:utils:')}
    from . import corelemma
    corelemma.rule_formula_per_sheet(ctx)
    if not sans:
        ctx.bad(ctx.mod('ast_nodes').func('RangeNode.full_address'), '$-remover exists', 'no function of the package removes $ from reference text')
    n = 0
    for ref, (m, fn) in sorted(sans.items()):
        params = func_params(fn)
        if len(params) != 1 or '.' in ref.split(':', 2)[2]:
            continue            # a method or a helper with further parameters: decided through its callers (C03.5 / C03.9)
        for inp, want in WITNESS:
            it = Interp(ctx.a, m, {'t': inp}, inline_pkg=True)
            out = it.run(ast.parse(f'return {fn.name}(t)').body)
            got = out.value if out.end == 'return' else f'<{out.end}>'
            if not isinstance(got, str) and out.end == 'return':
                break           # not a text -> text remover after all
            n += 1
            ctx.expect(got == want, fn, f'{fn.name}({inp!r})',
                       f'{fn.name}({inp!r}) yields {got!r}; the coordinates must lose their $ and the sheet '
                       f'name must stay as it is: {want!r}')
    ctx.floor(11, 'L4 + witness spellings')


def rule_2(ctx):
    """Range materialisation is total: a range-consuming function sees every cell of the rectangle however many empty cells lie
    between the populated ones - decided on witness workbooks with one populated cell behind a long run of empty cells, along a
    row and down a column, compiled and evaluated as written."""
    from . import workbook as W
    from . import scenarios as S
    ev = ctx.func('ast_nodes', 'RangeNode.eval')
    # along a row: A1:EZ1 (156 columns), only EY1 populated; down a column: A1:A156, only A155 populated
    for construct, cells, formula_addr, want in (
            ('break out of the cell loop depends on cell values', {'A1': 1, 'EY1': 40, 'A2': '=SUM(A1:EZ1)', 'A3': '=COUNT(A1:EZ1)'}, ('A2', 'A3'), (41, 2)),
            ('a populated cell below a long run of empty rows is seen', {'A1': 1, 'A155': 40, 'B1': '=SUM(A1:A156)', 'B2': '=COUNT(A1:A156)'}, ('B1', 'B2'), (41, 2))):
        wb = W.Workbook(ctx, cells)
        got = tuple(wb.value('Sheet1!' + a) for a in formula_addr)
        ok = all(S.same(g, w) for g, w in zip(got, want))
        ctx.expect(ok, ev, construct,
                   f'range materialisation stops early depending on cell values: {[cells[a] for a in formula_addr]} over one populated cell '
                   f'behind a run of empty cells evaluate to {got!r}, expected {want!r}: cells after a run of blanks are dropped '
                   '(=SUM(A1:DZ1) with only DY1 set gives 0)')
    # a dense rectangle: every member exactly once, row-major
    dense = {'A1': 1, 'B1': 2, 'C1': 4, 'A2': 8, 'B2': 16, 'C2': 32, 'E1': '=SUM(A1:C2)', 'E2': '=COUNT(A1:C2)', 'E3': '=SUM(A1:C2,A1:C2)', 'E4': '=MAX(B1:C2)-MIN(A1:B2)'}
    wb = W.Workbook(ctx, dense)
    for a, w in (('E1', 63), ('E2', 6), ('E3', 126), ('E4', 31)):
        got = wb.value('Sheet1!' + a)
        ctx.expect(S.same(got, w), ev, f'every member cell is evaluated and collected: {dense[a]}',
                   f'{dense[a]} over A1:C2 = 1, 2, 4 / 8, 16, 32 evaluates to {got!r}, expected {w}')
    ctx.floor(6, 'sparse + dense rectangles')


def rule_3(ctx):
    """One context per evaluated cell, its sheet taken from the cell's own address: the context constructor on witness addresses,
    RangeNode.full_address under witness contexts, and lemma L3 (the same node under three contexts in one world). That nested
    cells are evaluated in a context of their own is decided end to end by the cross-sheet chains of C03.9."""
    am = ctx.mod('ast_nodes')
    binit = am.func('EvalContext.__init__')
    pb = func_params(binit)
    for ref, want in (('Sheet1!A1', 'Sheet1'), ('My Sheet!B2', 'My Sheet'), ('Data!$C$3', 'Data')):
        me = Rec()
        env = {pb[0]: me, 'ref': ref, 'namespace': None, 'seen': None}
        for p_ in pb[1:]:
            env.setdefault(p_, None)
        env['ref'] = ref
        it = Interp(ctx.a, am, env, scope_fn=binit)
        out = it.run(binit.body)
        got = me.f.get('sheet'), me.f.get('refsheet'), me.f.get('ref')
        ctx.expect(got == (want, want, ref), binit, f'context for {ref!r}: sheet = refsheet = {want!r}',
                   f'an evaluation context built for {ref!r} has sheet={got[0]!r}, refsheet={got[1]!r}, ref={got[2]!r}: unqualified references '
                   f'in that cell would be resolved against the wrong sheet')
    fa = ctx.func('ast_nodes', 'RangeNode.full_address')
    pf = func_params(fa)
    for text, sheet, want in (('A1', 'Ctx', 'Ctx!A1'), ('$B$2', 'Ctx', 'Ctx!B2'), ('Other!C3', 'Ctx', 'Other!C3'),
                              ('Other!$C$3', 'Ctx', 'Other!C3'), ('A1:B2', 'My Sheet', 'My Sheet!A1:B2')):
        from . import corelemma
        mk = Interp(ctx.a, am, {}, inline_pkg=True)
        node = corelemma.build_node(mk, 'RangeNode', Rec(cls='pkg:tokenizer:f_token', tvalue=text, ttype='operand', tsubtype='range'))
        it = Interp(ctx.a, am, {pf[0]: node, pf[1]: Rec(cls='pkg:ast_nodes:EvalContext', sheet=sheet, refsheet='Ref', ref='Ref!A1')},
                    inline_pkg=True, scope_fn=fa, self_class='pkg:ast_nodes:RangeNode')
        out = it.run(fa.body)
        got = out.value if out.end == 'return' else f'<{out.end}>'
        ctx.expect(got == want, fa, f'full_address({text!r}) in a context on sheet {sheet!r}',
                   f'the reference {text!r} evaluated in a cell of sheet {sheet!r} is looked up as {got!r}, expected {want!r} '
                   '(unqualified references take the sheet of the evaluating context, qualified ones keep theirs, $ is dropped)')
    from . import corelemma
    corelemma.rule_address_per_evaluation(ctx)
    ctx.floor(8, 'context construction + address witnesses')


def rule_4(ctx):
    """Model.build_code interpreted on an abstract model: what the parser receives as the name -> address map."""
    mm = ctx.mod('model')
    bc = mm.func('Model.build_code')
    seen = []

    class _Parser(PyModel):
        def parse(self, formula, named_ranges=None, *a, **k):
            seen.append(named_ranges)
            return Opaque('ast')
    cell = Rec(cls='pkg:xltypes:XLCell', address='S!A1', value=1, formula=None, defined_names=['nm'])
    fcell = Rec(cls='pkg:xltypes:XLCell', address='S!B1', value=None, defined_names=[],
                formula=Rec(cls='pkg:xltypes:XLFormula', formula='=nm+SUM(rng)', sheet_name='S', ast=None, terms=[]))
    rng = Rec(cls='pkg:xltypes:XLRange', address_str='S!A1:A2', name='rng', cells=[['S!A1'], ['S!A2']], sheet='S', value=None)
    model = Rec(cls='pkg:model:Model', cells={'S!A1': cell, 'S!B1': fcell}, defined_names={'nm': cell, 'rng': rng}, ranges={'S!A1:A2': rng}, formulae={})
    it = Interp(ctx.a, mm, {func_params(bc)[0]: model}, inline_pkg=True, scope_fn=bc, self_class='pkg:model:Model',
                call_models={'pkg:parser:FormulaParser': lambda *a, **k: _Parser()})
    out = it.run(bc.body)
    if out.end == 'raise':
        ctx.bad(bc, 'build_code completes on the witness model', f'build_code raises {out.value!r} on a model with a named cell and a named range')
        return
    if not seen or not isinstance(seen[-1], dict):
        raise Unmodelled(f'build_code: the parser does not receive a name map ({seen[-1:]!r})')
    names = seen[-1]
    for key, cname, want in (('nm', 'XLCell', 'S!A1'), ('rng', 'XLRange', 'S!A1:A2')):
        got = names.get(key)
        ctx.expect(got == want, bc, f'name -> {cname} address text',
                   f'defined names bound to a {cname} are substituted with {got!r} instead of the address text {want!r}: '
                   f'=SUM(myrange) evaluates the cell matrix instead of the range text and yields 0')
    ctx.expect(fcell.f['formula'].f.get('ast') is not None, bc, 'every formula cell receives its parsed tree', 'build_code leaves a formula cell without AST')
    ctx.floor(3, 'classes that can sit in defined_names')


def _attr_type(ctx, cref, attr):
    cm, val = ctx.res.class_attr(cref, attr)
    if val is None:
        return 'missing'
    if isinstance(val, ast.FunctionDef):
        # property: type of what it returns
        rets = value_returns(val)
        if len(rets) == 1 and isinstance(rets[0].value, ast.Attribute) and isinstance(rets[0].value.value, ast.Name) \
                and rets[0].value.value.id == 'self':
            return _attr_type(ctx, cref, rets[0].value.attr)
        return 'computed'
    # dataclass field: look at the annotation
    for m, cnode in ctx.res.mro(cref):
        for stmt in cnode.body:
            if isinstance(stmt, ast.AnnAssign) and isinstance(stmt.target, ast.Name) and stmt.target.id == attr:
                return ast.unparse(stmt.annotation)
    return 'unannotated'


def rule_5(ctx):
    """The range registry: however a range is written in a formula - unqualified, sheet-qualified, $-absolute, twice, inside
    another call - the compiled model registers it under the key the evaluation looks it up with, creates its empty member cells,
    and a reference to a cell the model does not hold is a blank. Decided on a witness workbook compiled and evaluated as written."""
    from . import workbook as W
    from . import scenarios as S
    anchor = ctx.mod('model').func('ModelCompiler.build_ranges')
    cells = {'A1': 1, 'A2': 2, 'C3': 40, 'B1': '=SUM(A1:A3)', 'B2': '=SUM($A$1:$A$3)', 'B3': '=SUM(Sheet1!A1:A3)', 'B4': '=Z9+1', 'B5': '=COUNTA(A1:A9)',
             'B6': '=SUM(A1:A3,$A1:A$3)+MAX(Sheet1!$A$1:A3)', 'B7': '=SUM(A1:C3)', 'B8': '=ISBLANK(Z9)', 'B9': '=SUM(Sheet1!$A$1:$C$3)+Y7',
             'B10': '=A3+1', 'B11': '=SUM(B1:B3)', 'D1': 0, 'D2': 5, 'D4': 0.0, 'D5': False, 'B12': '=COUNT(D1:D5)', 'B13': '=COUNTA(D1:D5)&"|"&MIN(D1:D5)',
             'B14': '=AVERAGE(D1:D4)', 'B15': '=SUMPRODUCT(D1:D2,D1:D2)'}
    want = {'B1': 3, 'B2': 3, 'B3': 3, 'B4': 1, 'B5': 2, 'B6': 8, 'B7': 52, 'B8': True, 'B9': 52, 'B10': 1, 'B11': 9, 'B12': 3, 'B13': ('Text', '4|0'), 'B14': 5 / 3,
            'B15': 25}
    wb = W.Workbook(ctx, cells)
    for a, w in want.items():
        got = wb.value('Sheet1!' + a)
        ctx.expect(S.same(got, w), anchor, f'range registry: {cells[a]}',
                   f'{a} = {cells[a]} evaluates to {got!r}, expected {w!r} (A1 = 1, A2 = 2, C3 = 40, B1:B3 = 3 each, everything else empty): a range is registered '
                   'under the key its evaluation uses, its empty members are blank cells, a cell the model does not hold is a blank')
    ranges = wb.model.f.get('ranges')
    keys = sorted(ranges) if isinstance(ranges, dict) else ranges
    ctx.expect(isinstance(ranges, dict) and all('$' not in k and k.startswith('Sheet1!') for k in ranges), anchor,
               'range registry keys are qualified and $-free', f'the compiled model registers its ranges under {keys!r}')
    # the same through addresses that name their sheet (the dict reader's other spelling), titles that are prefixes of one another
    for first, second in (('Data', 'Data2'), ('Sheet1', 'Sheet10'), ('Sheet10', 'Sheet1')):
        cells = {f'{first}!A1': f'={second}!A1+1', f'{first}!B1': '=A1*2', f'{second}!A1': '=B1+1', f'{second}!B1': 5, f'{second}!C1': '=SUM(A1:B1)*2',
                 f'{first}!C1': f'=B1+{second}!A1+A1', f'{first}!D1': f'=SUM({second}!A1:B1)+SUM(A1:B1)', f'{first}!E1': f'=SUM($A$1:B$1)+{second}!C1'}
        want = {f'{first}!A1': 7, f'{first}!B1': 14, f'{first}!C1': 27, f'{first}!D1': 32, f'{second}!C1': 22, f'{first}!E1': 43}
        wb = W.Workbook(ctx, cells)
        for a, w in want.items():
            got = wb.value(a)
            ctx.expect(S.same(got, w), anchor, f'range registry, sheets {first}/{second}: {a.partition("!")[2]}',
                       f'{a} = {cells[a]} evaluates to {got!r}, expected {w!r} in {cells}: an unqualified reference or range means the sheet of the cell that '
                       'holds the formula, whatever the default sheet of the reader is')
        ranges = wb.model.f.get('ranges')
        keys = sorted(ranges) if isinstance(ranges, dict) else ranges
        ctx.expect(isinstance(ranges, dict) and sorted(ranges) == sorted([f'{first}!A1:B1', f'{second}!A1:B1']), anchor,
                   f'range registry keys, sheets {first}/{second}', f'the compiled model registers its ranges under {keys!r}')
    ctx.floor(30, 'range registry cells')


def rule_6(ctx):
    """Row-major, inclusive expansion decided on witness rectangles (openpyxl helpers replaced by models)."""
    um = ctx.mod('utils')
    rr = um.func('resolve_ranges')
    p = func_params(rr)
    cases = [
        ('Sheet1!A1:B2', ('Sheet1', [['Sheet1!A1', 'Sheet1!B1'], ['Sheet1!A2', 'Sheet1!B2']])),
        ("'My Sheet'!B2:D2", ('My Sheet', [['My Sheet!B2', 'My Sheet!C2', 'My Sheet!D2']])),
        ('Data!C3:C5', ('Data', [['Data!C3'], ['Data!C4'], ['Data!C5']])),
        ('Sheet1!$A$1:$B$2', ('Sheet1', [['Sheet1!A1', 'Sheet1!B1'], ['Sheet1!A2', 'Sheet1!B2']])),
        ('Sheet1!Z9', ('Sheet1', [['Sheet1!Z9']])),
        ('Sheet1!Y1:AB1', ('Sheet1', [['Sheet1!Y1', 'Sheet1!Z1', 'Sheet1!AA1', 'Sheet1!AB1']])),
    ]
    from . import values as V
    for text, want in cases:
        it = Interp(ctx.a, um, {'t': text}, call_models=V.openpyxl_models(), inline_pkg=True)
        out = it.run(ast.parse("return resolve_ranges(t, 'Sheet1')").body)
        got = out.value if out.end == 'return' else f'<{out.end} {out.value!r}>'
        if isinstance(got, tuple):
            got = (got[0], [list(r) for r in got[1]])
        ctx.expect(got == want, rr, f'resolve_ranges({text!r})',
                   f'resolve_ranges({text!r}) yields {got!r}; expected {want!r}: exactly rows x columns cells, row-major, bounds inclusive')
    ctx.floor(6, 'witness rectangles')


def rule_7(ctx):
    """Siblings resolve_address / resolve_ranges / resolve_sheet: the sheet part of a reference text is unquoted - decided by
    interpreting the three functions on witness texts (plain, quoted, quoted with blanks around, quoted with a doubled apostrophe)."""
    from . import values as V
    um = ctx.mod('utils')

    def run(src, text):
        it = Interp(ctx.a, um, {'t': text}, call_models=V.openpyxl_models(), inline_pkg=True)
        out = it.run(ast.parse(src).body)
        return out.value if out.end == 'return' else f'<{out.end} {out.value!r}>'
    for text, sheet in (('Sheet1!A1:B2', 'Sheet1'), ("'My Sheet'!A1:B2", 'My Sheet'), ("'Data 2'!$C$3", 'Data 2'), ('Data!C3', 'Data')):
        got = run('return resolve_ranges(t)', text)
        ok = isinstance(got, tuple) and got[0] == sheet and all(str(c).startswith(sheet + '!') for r in got[1] for c in r)
        ctx.expect(ok, um.func('resolve_ranges'), f'resolve_ranges: sheet text goes through resolve_sheet ({text})',
                   f'resolve_ranges({text!r}) yields {got!r}: the sheet part must be the bare title {sheet!r} - addresses that keep the quotes '
                   'are not keys of the cells map')
    for text, want in (('Sheet1!B2', ('Sheet1', 'B', '2')), ("'My Sheet'!B2", ('My Sheet', 'B', '2')), ("'Data 2'!AA10", ('Data 2', 'AA', '10'))):
        got = run('return resolve_address(t)', text)
        ctx.expect(tuple(got) == want if isinstance(got, (tuple, list)) else False, um.func('resolve_address'),
                   f'resolve_address: sheet text goes through resolve_sheet ({text})', f'resolve_address({text!r}) yields {got!r}, expected {want!r}')
    for text, want in (('Sheet1', 'Sheet1'), ("'My Sheet'", 'My Sheet'), (" 'My Sheet' ", 'My Sheet'), ('My Sheet', 'My Sheet'), ('Data_2', 'Data_2')):
        got = run('return resolve_sheet(t)', text)
        ctx.expect(got == want, um.func('resolve_sheet'), f'resolve_sheet returns the quoted or the unquoted group ({text!r})',
                   f'resolve_sheet({text!r}) yields {got!r}, expected the bare sheet title {want!r}')
    ctx.floor(12, 'sheet unquoting witnesses')


def rule_8(ctx):
    """A workbook that repeats a formula text on several sheets: every cell gets a formula bound to ITS sheet (shared with C11.3)."""
    from . import c11
    c11.rule_3(ctx)


def rule_9(ctx):
    """A reference workbook with three sheets (one title a prefix of another, one with an apostrophe), defined names, $-variants,
    ranges with blanks and cross-sheet chains - loaded through the reader path, compiled and evaluated as written: every formula
    evaluates to its hand-computed value in both evaluation orders, and a second workbook with names bound elsewhere is not
    affected by the first."""
    from . import scenarios as S
    anchor = ctx.mod('ast_nodes').func('RangeNode.eval')
    n = S.check_reference_workbook(ctx, anchor, 'reference workbook',
                                   'A reference means the cell with that sheet, column and row - an unqualified one the sheet of the formula\'s own '
                                   'cell, however evaluation got there - and a defined name the cell it is bound to in this workbook.')
    n += S.check_names_history(ctx, anchor, 'reference workbook, edits',
                               'A defined name means the cell it is bound to - its current value, however the cell was set.')
    n += S.check_loads_are_independent(ctx, anchor, 'references after an earlier load')
    ctx.floor(75, 'reference-workbook cells')


RULES = [
    ('C03.1', '$ is stripped before a cell lookup; the remover\'s decision table', rule_1),
    ('C03.2', 'range materialisation is total', rule_2),
    ('C03.3', 'one context per evaluated cell, sheet derived from its address', rule_3),
    ('C03.4', 'defined names map to address strings', rule_4),
    ('C03.5', 'range registry keys agree; missing cells are blank', rule_5),
    ('C03.6', 'row-major expansion with inclusive bounds', rule_6),
    ('C03.7', 'sheet names are unquoted by resolve_sheet in both address resolvers', rule_7),
    ('C03.8', 'loaded formulas are bound to the sheet of their own cell (shared with C11.3)', rule_8),
    ('C03.9', 'reference workbook: sheets, quoted names, defined names, $-variants, cross-sheet chains (end to end)', rule_9),
]
