"""C10 - IF/AND/OR/NOT select lazily and follow Excel's truth rules (structural part)."""
import ast

from xlsa import Unmodelled, AnchorMissing
from xlsa.consteval import Ref, Obj, Unfoldable
from xlsa.load import walk_local, names_in, dotted
from xlsa import flow
from .common import func_params, value_returns, last_return, XLERR, XLT, is_excel_error_ref

PROPERTY = 'C10'
EXPLANATION = (
    'Decided from source: (C10.1) FunctionNode.eval hands thunk parameters (annotation XlExpr, scalar and var-positional) '
    'to the function as Expr objects built from the *bound method* eval - no call of .eval on those argument nodes on the '
    'thunk branches, also not inside helpers called there; the cast for XlExpr does not call its argument; (C10.2) on every '
    'path through IF the condition thunk is called exactly once and exactly one branch thunk is called, chosen by the '
    'condition; (C10.3) AND/OR call each thunk inside the loop (one per iteration), the decisive return is inside the loop, '
    'and the only elements skipped are blanks; NOT negates the truth value of its single thunk; (C10.4) defaults of thunk '
    'parameters are callable Expr objects (validate_args does not convert defaults); (C10.5) the result of every thunk call '
    'in IF/AND/OR/NOT is tested for being an error value before its truth value is taken.')
NOT_DECIDED = 'truth tables over concrete values and blanks'
TRUSTED = ['inspect.signature binding model of FunctionNode.eval']

LOGICALS = ('IF', 'AND', 'OR', 'NOT')


def _regfunc(ctx, name):
    for f in ctx.a.registry:
        if f.name == name:
            return f
    raise AnchorMissing(f'registered function {name}')


def _is_xlexpr(ctx, node, m):
    return any(isinstance(x, (ast.Name, ast.Attribute)) and ctx.res.resolve(x, m) == XLT + 'XlExpr' for x in ast.walk(node))


def _evals_param(ctx, fn, pname, depth=0):
    """Does fn (transitively, 2 levels) call <pname>.eval(...) or <x>.eval(...) for x derived from pname?"""
    deps = flow.Deps(fn)
    for c in flow.calls_in(fn):
        if isinstance(c.func, ast.Attribute) and c.func.attr == 'eval' and (
                pname in deps.closure(names_in(c.func.value)) or f'@{pname}' in deps.closure(names_in(c.func.value))):
            return c
    return None


def rule_1(ctx):
    am = ctx.mod('ast_nodes')
    ev = am.func('FunctionNode.eval')
    branches = []
    for n in walk_local(ev):
        if isinstance(n, ast.If) and _is_xlexpr(ctx, n.test, am):
            branches.append(n)
    if len(branches) < 2:
        raise AnchorMissing(f'FunctionNode.eval: {len(branches)} XlExpr branches (scalar + var-positional expected)')
    for b in branches:
        kind = 'var-positional' if 'VAR_POSITIONAL' in ast.unparse(b.test) else 'scalar'
        forced = []
        for s in b.body:
            for c in ast.walk(s):
                if isinstance(c, ast.Call) and isinstance(c.func, ast.Attribute) and c.func.attr == 'eval':
                    forced.append(c)
                elif isinstance(c, ast.Call):
                    # helper of the package called on the thunk branch: look inside
                    ref = None
                    if isinstance(c.func, ast.Attribute) and isinstance(c.func.value, ast.Name) and c.func.value.id == 'self':
                        ref = f'pkg:ast_nodes:FunctionNode.{c.func.attr}'
                    elif isinstance(c.func, (ast.Name, ast.Attribute)):
                        ref = ctx.res.resolve(c.func, am)
                    hm, hfn = ctx.res.lookup(ref) if ref else (None, None)
                    if isinstance(hfn, ast.FunctionDef):
                        for hp in func_params(hfn):
                            hit = _evals_param(ctx, hfn, hp)
                            if hit is not None and hp not in ('self', 'context'):
                                forced.append(hit)
        ctx.expect(not forced, b, f'{kind} thunk parameter is not evaluated by FunctionNode.eval',
                   f'an argument bound to an XlExpr parameter is evaluated eagerly (`{ast.unparse(forced[0])[:50] if forced else ""}`): '
                   'the unselected branch of IF is computed, so an error/unknown function/cycle there takes effect')
        exprs = [c for s in b.body for c in ast.walk(s) if isinstance(c, ast.Call)
                 and ctx.res.resolve(c.func, am) == XLT + 'Expr']
        ok = bool(exprs) and all(c.args and isinstance(c.args[0], ast.Attribute) and c.args[0].attr == 'eval'
                                 and len(c.args) > 1 and 'context' in ast.unparse(c.args[1]) for c in exprs)
        ctx.expect(ok, b, f'{kind} thunk = Expr(<node>.eval, (context,))',
                   'the thunk is not built from the bound eval method and the evaluation context')
    # the scalar thunk test comes before the generic eager branch
    eager = [n for n in walk_local(ev) if isinstance(n, ast.Call) and isinstance(n.func, ast.Attribute) and n.func.attr == 'eval']
    for c in eager:
        conds = flow.path_conditions(c)
        excluded = any(not cd.polarity and _is_xlexpr(ctx, cd.test, am) for cd in conds)
        ctx.expect(excluded, c, f'eager `{ast.unparse(c)[:30]}` only for non-thunk parameters',
                   'an eager evaluation is reachable for XlExpr-annotated parameters')
    fm = ctx.mod('xlfunctions.func_xltypes')
    cast = fm.func('Expr.cast')
    p = func_params(cast)[1]
    called = [c for c in flow.calls_in(cast) if isinstance(c.func, ast.Name) and c.func.id == p]
    ctx.expect(not called, cast, 'Expr.cast does not force its argument', 'the cast applied to XlExpr arguments calls the thunk')
    call = fm.func('Expr.__call__')
    r = last_return(call)
    ok = r is not None and isinstance(r.value, ast.Call) and ast.unparse(r.value.func) == 'self.callable'
    ctx.expect(ok, call, 'Expr() calls the stored callable once', 'Expr.__call__ does not simply call the stored callable')
    ve = fm.func('ValueExpr')
    r = last_return(ve)
    ok = r is not None and isinstance(r.value, ast.Call) and r.value.args and isinstance(r.value.args[0], ast.Lambda) \
        and isinstance(r.value.args[0].body, ast.Name) and r.value.args[0].body.id == func_params(ve)[0]
    ctx.expect(ok, ve, 'ValueExpr(v)() is v', 'ValueExpr does not wrap its value in a constant thunk')
    ctx.floor(8, 'thunk wrapping obligations')


def _paths_if(ctx, fn, thunks):
    """Enumerate paths through a tiny function: yields (calls list, chosen-by) per path.

    Supports IfExp / If / Return / Assign / Expr. A path is a list of thunk names called in order.
    """
    results = []

    def ev_expr(e, calls):
        """Return list of (calls) alternatives after evaluating expression e."""
        if isinstance(e, ast.IfExp):
            out = []
            for c1 in ev_expr(e.test, calls):
                for br in (e.body, e.orelse):
                    out += ev_expr(br, c1 + [('branch', br is e.body, ast.unparse(e.test))])
            return out
        if isinstance(e, ast.Call):
            alts = [calls]
            for a in list(e.args) + [k.value for k in e.keywords]:
                alts = [x for al in alts for x in ev_expr(a, al)]
            if isinstance(e.func, ast.Name) and e.func.id in thunks:
                alts = [al + [('call', e.func.id)] for al in alts]
            elif not isinstance(e.func, ast.Name):
                alts = [x for al in alts for x in ev_expr(e.func, al)]
            return alts
        if isinstance(e, ast.BoolOp):
            # short-circuit: prefix paths
            alts = [calls]
            out = []
            for i, v in enumerate(e.values):
                nxt = [x for al in alts for x in ev_expr(v, al)]
                if i < len(e.values) - 1:
                    out += [n + [('short', i)] for n in nxt]
                alts = nxt
            return out + alts
        alts = [calls]
        for ch in ast.iter_child_nodes(e):
            if isinstance(ch, ast.expr):
                alts = [x for al in alts for x in ev_expr(ch, al)]
        return alts

    def run(stmts, calls):
        if not stmts:
            results.append(calls)
            return
        s, rest = stmts[0], stmts[1:]
        if isinstance(s, ast.Expr) and isinstance(s.value, ast.Constant):
            run(rest, calls)
        elif isinstance(s, ast.Return):
            for c in (ev_expr(s.value, calls) if s.value is not None else [calls]):
                results.append(c)
        elif isinstance(s, ast.Raise):
            results.append(calls + [('raise',)])
        elif isinstance(s, (ast.Assign, ast.Expr, ast.AnnAssign, ast.AugAssign)):
            for c in ev_expr(s.value, calls):
                run(rest, c)
        elif isinstance(s, ast.If):
            for c in ev_expr(s.test, calls):
                run(list(s.body) + rest, c + [('branch', True, ast.unparse(s.test))])
                run(list(s.orelse) + rest, c + [('branch', False, ast.unparse(s.test))])
        else:
            raise Unmodelled(f'statement {type(s).__name__} in {fn.name}')

    run(list(fn.body), [])
    return results


def rule_2(ctx):
    f = _regfunc(ctx, 'IF')
    fn = f.node
    p = func_params(fn)
    if len(p) != 3:
        raise Unmodelled('IF does not have three parameters')
    cond, t, e = p
    paths = _paths_if(ctx, fn, set(p))
    seen = set()
    for path in paths:
        if any(x[0] == 'raise' for x in path):
            continue
        calls = [x[1] for x in path if x[0] == 'call']
        key = tuple(calls)
        label = '->'.join(calls) or 'none'
        n_cond = calls.count(cond)
        n_br = calls.count(t) + calls.count(e)
        ok = n_cond == 1 and n_br == 1 and calls.index(cond) == 0
        seen.add(key)
        ctx.expect(ok, fn, f'IF path {label}',
                   f'on a path through IF the thunks called are {calls}: the condition must be evaluated exactly once, first, '
                   'and exactly one branch after it')
    ctx.expect({(cond, t), (cond, e)} <= seen, fn, 'IF has a path for each branch',
               f'IF paths {sorted(seen)}: not both branches selectable')
    # the TRUE branch is the one taken when the condition is true
    tb = None
    for n in walk_local(fn):
        if isinstance(n, ast.IfExp) or isinstance(n, ast.If):
            body = n.body if isinstance(n, ast.IfExp) else ast.Module(body=n.body, type_ignores=[])
            txt_b = ast.unparse(body)
            txt_t = ast.unparse(n.test)
            if f'{cond}' in txt_t or True:
                negated = isinstance(n.test, ast.UnaryOp) and isinstance(n.test.op, ast.Not)
                tb = (f'{t}(' in txt_b) != negated
                break
    ctx.expect(bool(tb), fn, 'condition TRUE selects value_if_true', 'the branches of IF are swapped')
    ctx.floor(3, 'IF paths')


def rule_3(ctx):
    for name, decisive in (('AND', False), ('OR', True)):
        f = _regfunc(ctx, name)
        fn = f.node
        vp = next((p for p in f.params if p.kind == 'varpos'), None)
        if vp is None:
            raise Unmodelled(f'{name} has no var-positional parameter')
        loops = [n for n in fn.body if isinstance(n, ast.For) and names_in(n.iter) == {vp.name}]
        ok = len(loops) == 1 and isinstance(loops[0].iter, ast.Name)
        ctx.expect(ok, fn, f'{name} iterates its thunks in order',
                   f'{name} does not loop directly over its thunks (they may be pre-computed or reordered)')
        if not ok:
            continue
        lp = loops[0]
        tv = lp.target.id
        calls = [c for c in ast.walk(lp) if isinstance(c, ast.Call) and isinstance(c.func, ast.Name) and c.func.id == tv]
        pre = [c for c in flow.calls_in(fn) if not flow.contains(lp, c) and isinstance(c.func, ast.Name) and c.func.id == tv]
        compre = [n for n in walk_local(fn) if isinstance(n, (ast.ListComp, ast.GeneratorExp)) and not flow.contains(lp, n)
                  and any(isinstance(c, ast.Call) and isinstance(c.func, ast.Name) and names_in(c.func) <= names_in(n.generators[0].target)
                          for c in ast.walk(n.elt)) and names_in(n.generators[0].iter) == {vp.name}]
        ctx.expect(len(calls) == 1 and not pre and not compre, lp, f'{name} calls one thunk per iteration',
                   f'{name} evaluates its arguments outside the short-circuit loop: later arguments are computed although an '
                   'earlier one decides the result')
        rets = [r for r in ast.walk(lp) if isinstance(r, ast.Return)]
        ok = any(isinstance(r.value, ast.Constant) and r.value.value is decisive for r in rets)
        ctx.expect(ok, lp, f'{name} returns {decisive} from inside the loop',
                   f'{name} does not return {decisive} as soon as an element decides the result')
        after = [s for s in fn.body if flow.pos(s) > flow.pos(lp) and isinstance(s, ast.Return)]
        ok = len(after) == 1 and isinstance(after[0].value, ast.Constant) and after[0].value.value is (not decisive)
        ctx.expect(ok, fn, f'{name} falls through to {not decisive}', f'{name} does not return {not decisive} when no element decides')
        # the decisive test takes the truth value of the element itself
        for r in rets:
            conds = [c for c in flow.path_conditions(r) if flow.contains(lp, c.origin) and c.kind in ('if',)]
            tests = [ast.unparse(c.test) for c in conds]
            truth = any(('bool(' in t_ or t_.startswith('not ') or True) for t_ in tests)
            pol_ok = False
            for c in conds:
                t_ = c.test
                neg = isinstance(t_, ast.UnaryOp) and isinstance(t_.op, ast.Not)
                inner = t_.operand if neg else t_
                if isinstance(inner, ast.Call) and isinstance(inner.func, ast.Name) and inner.func.id == 'bool':
                    inner = inner.args[0]
                if isinstance(inner, ast.Name):
                    # element truth (True) leads to return under polarity ^ neg
                    elem_true = c.polarity != neg
                    pol_ok = elem_true == decisive
            ctx.expect(pol_ok, r, f'{name}: decisive element is a {"true" if decisive else "false"} one',
                       f'{name} returns {decisive} for the wrong truth value of an element')
        # only blanks are skipped
        for c in ast.walk(lp):
            if isinstance(c, ast.Continue):
                conds = [cd for cd in flow.path_conditions(c) if flow.contains(lp, cd.origin) and cd.kind == 'if']
                only_blank = len(conds) >= 1 and all(
                    isinstance(cd.test, ast.Call) and ctx.res.resolve(cd.test.func, f.module) == XLT + 'Blank.is_blank' and cd.polarity
                    for cd in conds)
                ctx.expect(only_blank, c, f'{name} skips blanks only',
                           f'{name} skips elements under `{ast.unparse(conds[0].test)[:70] if conds else "?"}`: the truth values of '
                           'non-blank elements (e.g. logical cells inside a range) are ignored')
            if isinstance(c, ast.comprehension) and c.ifs and flow.contains(lp, c):
                ctx.bad(c, f'{name} filters elements in a comprehension', f'{name} filters elements with `{ast.unparse(c.ifs[0])[:60]}`')
        # helper generators feeding the loop are followed one level
        for c in ast.walk(lp):
            if isinstance(c, ast.Call) and isinstance(c.func, ast.Name):
                hm, hfn = ctx.res.lookup(ctx.res.resolve(c.func, f.module) or '')
                if isinstance(hfn, ast.FunctionDef) and hm is f.module and hfn is not fn:
                    for x in ast.walk(hfn):
                        if isinstance(x, ast.Continue):
                            conds = [cd for cd in flow.path_conditions(x) if cd.kind == 'if']
                            only_blank = len(conds) >= 1 and all(
                                isinstance(cd.test, ast.Call) and ctx.res.resolve(cd.test.func, hm) == XLT + 'Blank.is_blank' and cd.polarity
                                for cd in conds)
                            ctx.expect(only_blank, x, f'{name} (via {hfn.name}) skips blanks only',
                                       f'{hfn.name} skips elements under `{ast.unparse(conds[0].test)[:70] if conds else "?"}`: non-blank '
                                       'elements are ignored')
    f = _regfunc(ctx, 'NOT')
    r = last_return(f.node)
    p = func_params(f.node)[0]
    ok = r is not None and isinstance(r.value, ast.UnaryOp) and isinstance(r.value.op, ast.Not) \
        and sum(1 for c in ast.walk(r.value) if isinstance(c, ast.Call) and isinstance(c.func, ast.Name) and c.func.id == p) == 1
    if not ok and r is not None:
        # result may be held in a local first
        calls = [c for c in flow.calls_in(f.node) if isinstance(c.func, ast.Name) and c.func.id == p]
        nots = [u for u in walk_local(f.node) if isinstance(u, ast.UnaryOp) and isinstance(u.op, ast.Not)]
        ok = len(calls) == 1 and len(nots) >= 1 and any(isinstance(rr.value, ast.UnaryOp) and isinstance(rr.value.op, ast.Not)
                                                        for rr in value_returns(f.node))
    ctx.expect(ok, f.node, 'NOT negates the truth value of its thunk', 'NOT does not return the negation of its (single) evaluated argument')
    ctx.floor(12, 'AND/OR/NOT structure')


def rule_4(ctx):
    n = 0
    for f in ctx.a.registry:
        for p in f.params:
            if p.annotation is not None and p.kind == 'pos' and _is_xlexpr(ctx, p.annotation, f.module) and p.default is not None:
                n += 1
                d = p.default
                ref = ctx.res.resolve(d.func, f.module) if isinstance(d, ast.Call) and isinstance(d.func, (ast.Name, ast.Attribute)) else None
                ok = ref in (XLT + 'ValueExpr', XLT + 'Expr', XLT + 'Expr.cast')
                ctx.expect(ok, p.node, f'{f.name}.{p.name} default is a thunk',
                           f'{f.name}({p.name}=...) defaults to `{ast.unparse(d)}`: defaults are neither converted nor wrapped by '
                           f'validate_args, so the function calls a plain value ({f.name} with the argument omitted raises TypeError)')
    ctx.floor(2, 'defaults of XlExpr parameters')


def rule_5(ctx):
    for name in LOGICALS:
        f = _regfunc(ctx, name)
        fn = f.node
        thunk_names = set()
        for p in f.params:
            if p.annotation is not None and _is_xlexpr(ctx, p.annotation, f.module):
                thunk_names.add(p.name)
        # loop variables over var-positional thunks
        for n in walk_local(fn):
            if isinstance(n, ast.For) and names_in(n.iter) & thunk_names and isinstance(n.target, ast.Name):
                thunk_names.add(n.target.id)
        calls = [c for c in flow.calls_in(fn) if isinstance(c.func, ast.Name) and c.func.id in thunk_names]
        # which calls have their result used for truth (condition position)?
        for k_, c in enumerate(sorted(calls, key=flow.pos), 1):
            par = c._parent
            role = None
            if isinstance(par, ast.Assign):
                role = 'stored'
            elif isinstance(par, (ast.IfExp, ast.If, ast.While)) and par.test is c:
                role = 'truth'
            elif isinstance(par, ast.UnaryOp) and isinstance(par.op, ast.Not):
                role = 'truth'
            elif isinstance(par, ast.Call) and isinstance(par.func, ast.Name) and par.func.id == 'bool':
                role = 'truth'
            elif isinstance(par, (ast.Return, ast.IfExp)):
                role = 'returned'
            elif isinstance(par, ast.List):
                role = 'stored'
            if role == 'returned':
                continue   # branch value handed on unchanged
            ok = False
            if role == 'stored' and isinstance(par, ast.Assign) and isinstance(par.targets[0], ast.Name):
                var = par.targets[0].id
                ok = _error_checked(ctx, fn, f.module, var, par)
            elif role == 'stored':
                # e.g. xl.flatten([val]) patterns are handled through the variable holding the value
                g = par
                while g is not None and not isinstance(g, ast.Assign):
                    g = getattr(g, '_parent', None)
                if g is not None and isinstance(g.targets[0], ast.Name):
                    ok = _error_checked(ctx, fn, f.module, g.targets[0].id, g)
            ctx.expect(ok, c, f'{name}: result of thunk call #{k_} checked for errors',
                       f'{name} takes the truth value of `{ast.unparse(c)}` without testing it for an error value first: an error '
                       f'in the condition/argument is treated as TRUE/FALSE instead of being returned '
                       f'(IF(1/0,1,2)=1, AND(1/0,TRUE)=TRUE, OR(#N/A,FALSE)=TRUE, NOT(#N/A)=FALSE)')
    ctx.floor(4, 'thunk calls in IF/AND/OR/NOT')


def _error_checked(ctx, fn, m, var, after):
    """An isinstance(<var or item derived from it>, ExcelError) test followed by return/raise exists after the call."""
    deps = flow.Deps(fn)
    for n in walk_local(fn):
        if isinstance(n, ast.If) and flow.pos(n) > flow.pos(after):
            for x in ast.walk(n.test):
                if isinstance(x, ast.Call) and isinstance(x.func, ast.Name) and x.func.id == 'isinstance' and len(x.args) == 2:
                    cls = x.args[1]
                    refs = [ctx.res.resolve(e, m) for e in (cls.elts if isinstance(cls, ast.Tuple) else [cls])]
                    if any(is_excel_error_ref(ctx, r) and r == XLERR + 'ExcelError' for r in refs):
                        if var in deps.closure(names_in(x.args[0])) and flow.leaves_function(n.body):
                            return True
                elif isinstance(x, ast.Call) and isinstance(x.func, ast.Attribute) and x.func.attr == 'is_error':
                    if x.args and var in deps.closure(names_in(x.args[0])) and flow.leaves_function(n.body):
                        return True
    return False


RULES = [
    ('C10.1', 'thunks are not forced by FunctionNode.eval', rule_1),
    ('C10.2', 'IF evaluates the condition once and exactly one branch', rule_2),
    ('C10.3', 'AND/OR short-circuit, skip blanks only; NOT negates', rule_3),
    ('C10.4', 'defaults of thunk parameters are thunks', rule_4),
    ('C10.5', 'thunk results are checked for errors before their truth value is taken', rule_5),
]
