"""C10 - IF/AND/OR/NOT select lazily and follow Excel's truth rules (structural part)."""
import ast

from xlsa import Unmodelled, AnchorMissing
from xlsa.consteval import Ref, Obj, Unfoldable
from xlsa.load import walk_local, names_in, dotted
from xlsa.guards import Interp, Rec, PyModel, Opaque
from xlsa import flow
from .common import func_params, value_returns, last_return, XLERR, XLT, is_excel_error_ref

PROPERTY = 'C10'
EXPLANATION = (
    'Decided from source: (C10.1) a witness workbook evaluated as written: the branch that is not selected is never '
    'evaluated - its cell stays uncomputed, an unknown function, a division by zero or a reference to the cell itself in it'
    ' has no effect - for plain references and calls, for IF and the variable argument lists of AND / OR, and omitted '
    'branches take their declared defaults; (C10.2) on every path through IF the condition thunk is called exactly once and'
    ' exactly one branch thunk is called, chosen by the condition; (C10.3) AND/OR, partially evaluated on recording thunks '
    'for short sequences of truth values, blanks and array members: thunks are called left to right, none after the '
    'decisive one, and the only elements skipped are blanks; NOT negates the truth value of its single thunk; (C10.4) '
    'defaults of thunk parameters are callable Expr objects (validate_args does not convert defaults); (C10.5) the result '
    'of every thunk call in IF/AND/OR/NOT is tested for being an error value before its truth value is taken. (C10.2) also '
    'on value-class instances (0, FALSE, blank and the empty text select the else-branch); (C10.6) a failed branch '
    'evaluation leaves no trace on the evaluator (shared with C06.2). (C10.7) a witness workbook: truth of tiny non-zero '
    'numbers, blanks, ranges of formula cells, branches that would fail if evaluated, nested IF/AND/OR against hand-'
    'computed values, and a history of edits against freshly compiled models.'
    ' (C10.7) also unknown functions of every spelling in branches that are not selected, the workbook loaded through the reader path, ranges written in lower case.')
NOT_DECIDED = 'truth tables over concrete values and blanks'
TRUSTED = ['inspect.signature binding model of FunctionNode.eval', 'workbook scenarios: pandas storage of range arrays as row-major rows, numpy on Python numbers (IEEE results, 64-bit integer wrap), dateutil.parser.parse rejecting texts that are no dates, openpyxl address arithmetic, inspect.signature built from the FunctionDef']

LOGICALS = ('IF', 'AND', 'OR', 'NOT')


def _regfunc(ctx, name):
    for f in ctx.a.registry:
        if f.name == name:
            return f
    raise AnchorMissing(f'registered function {name}')


def _is_xlexpr(ctx, node, m):
    return any(isinstance(x, (ast.Name, ast.Attribute)) and ctx.res.resolve(x, m) == XLT + 'XlExpr' for x in ast.walk(node))


def rule_1(ctx):
    """Delayed parameters receive unevaluated expressions - decided on a witness workbook evaluated as written: the branch that is
    not selected is never evaluated (its cell is not computed, an unknown function, a division by zero or a reference to the
    cell itself in it has no effect), for plain references as well as for calls, for the scalar parameters of IF and the
    variable argument lists of AND / OR; omitted branches take their declared defaults."""
    from . import workbook as W
    from . import scenarios as S
    anchor = ctx.func('ast_nodes', 'FunctionNode.eval')
    cells = {'A1': 5, 'A2': 0, 'B1': '=A1*2', 'C1': '=A1*3', 'C2': '=A1*4', 'C3': '=A1*5',
             'F1': '=IF(A1>0,B1,C1)', 'F2': '=IF(A2>0,C2,B1)', 'F3': '=IF(A1>0,1,NOSUCHFUNC(1))', 'F4': '=IF(A2>0,1/0,"ok")', 'F5': '=IF(A1>0,A1,F5)',
             'F6': '=OR(A1>0,NOSUCHFUNC(1))', 'F7': '=AND(A2>0,NOSUCHFUNC(1))', 'F8': '=OR(A1>0,C3>0)', 'F9': '=IF(A2,"t")', 'F10': '=IF(A1,"t")',
             'F11': '=IF(A1>0,IF(A2>0,NOSUCHFUNC(1),"inner"),NOSUCHFUNC(2))'}
    want = {'F1': ('Number', 10), 'F2': ('Number', 10), 'F3': ('Number', 1), 'F4': ('Text', 'ok'), 'F5': ('Number', 5), 'F6': ('Boolean', True),
            'F7': ('Boolean', False), 'F8': ('Boolean', True), 'F9': ('Boolean', False), 'F10': ('Text', 't'), 'F11': ('Text', 'inner')}
    wb = W.Workbook(ctx, cells)
    for a, w in want.items():
        got = wb.value('Sheet1!' + a)
        ctx.expect(S.same(got, w), anchor, f'delayed arguments: {cells[a]}',
                   f'{a} = {cells[a]} (A1 = 5, A2 = 0) evaluates to {got!r}, expected {w!r}: only the selected branch is evaluated')
    for unselected, by in (('C1', 'F1'), ('C2', 'F2'), ('C3', 'F8')):
        st = S.stored(wb, 'Sheet1!' + unselected)
        ctx.expect(st is None or st == ('<no cell>',), anchor, f'the cell of the unselected branch of {cells[by]} is not computed',
                   f'after evaluating {by} = {cells[by]} the model holds {st!r} for {unselected}: the unselected argument was evaluated')
    ctx.floor(14, 'delayed-argument cells')


class _Thunk(PyModel):
    """A delayed argument: records every call; raises (as a Python-level failure) when it must never be evaluated."""

    def __init__(self, label, value, log, forbidden=False):
        self.label, self.value, self.log, self.forbidden = label, value, log, forbidden

    def __call__(self):
        self.log.append(self.label)
        if self.forbidden:
            from xlsa.guards import ExcRaised
            raise ExcRaised(Ref('builtin:RuntimeError'))
        return self.value


def _logic_models(ctx):
    def is_blank(v):
        return v is None or (isinstance(v, str) and v == '') or (isinstance(v, Rec) and v.f.get('cls') == XLT + 'Blank')

    def flatten(values):
        out = []
        if isinstance(values, Rec) and values.f.get('cls') == XLT + 'Array':
            values = values.f['items']
        for v in values:
            if isinstance(v, Rec) and v.f.get('cls') == XLT + 'Array':
                out.extend(v.f['items'])
            elif isinstance(v, (list, tuple)):
                out.extend(flatten(v))
            else:
                out.append(v)
        return out

    def number_is_type(v):
        if isinstance(v, Rec):
            return bool(v.f.get('cls')) and ctx.res.is_subclass(v.f['cls'], XLT + 'Number')
        return isinstance(v, (int, float))
    return {XLT + 'Blank.is_blank': is_blank, 'pkg:xlfunctions.xl:flatten': flatten, XLT + 'Number.is_type': number_is_type}


def _cellval(cls, value):
    """A value as it sits in a range cell: an instance of a value class."""
    return Rec(cls=XLT + cls, value=value, truthy=bool(value))


def _array(*items):
    return Rec(cls=XLT + 'Array', items=list(items))


def _isinst(ctx):
    def isinst(val, refs):
        refs = refs if isinstance(refs, tuple) else (refs,)
        cls = val.f.get('cls') if isinstance(val, Rec) else None
        return bool(cls) and any(r and ctx.res.is_subclass(cls, r) for r in refs)
    return isinst


def _call(ctx, f, args):
    """Partially evaluate a registered logical function on thunks. Returns the Outcome."""
    fn = f.node
    params = f.params
    env = {}
    pos = [p for p in params if p.kind == 'pos']
    vp = next((p for p in params if p.kind == 'varpos'), None)
    for p_, a in zip(pos, args):
        env[p_.name] = a
    for p_ in pos[len(args):]:
        if p_.default is not None:
            it0 = Interp(ctx.a, f.module, {}, call_models={XLT + 'ValueExpr': lambda v: _Thunk('default', v, [])})
            env[p_.name] = it0.ev(p_.default)
    if vp is not None:
        env[vp.name] = tuple(args[len(pos):])
    it = Interp(ctx.a, f.module, env, isinstance_fn=_isinst(ctx), call_models=_logic_models(ctx), inline_pkg=True, scope_fn=fn)
    return it.run(fn.body)


def rule_2(ctx):
    f = _regfunc(ctx, 'IF')
    for cond, want_branch in ((True, 'a'), (False, 'b'), (1, 'a'), (0, 'b'), (2.5, 'a'), (None, 'b')):
        log = []
        t = [_Thunk('cond', cond, log), _Thunk('a', 'A', log), _Thunk('b', 'B', log)]
        try:
            out = _call(ctx, f, t)
        except Unmodelled as exc:
            raise Unmodelled(f'IF: {exc}')
        ok = out.end == 'return' and out.value == want_branch.upper() and log.count('cond') == 1 and log.index('cond') == 0 \
            and log.count(want_branch) == 1 and len(log) == 2
        ctx.expect(ok, f.node, f'IF(condition {cond!r}): one evaluation of the condition, then only branch {want_branch}',
                   f'IF with a condition evaluating to {cond!r} evaluates {log} and yields {out.value!r}: exactly the condition and the '
                   f'selected branch ({want_branch}) must be evaluated, in that order')
    # conditions as the cells deliver them: instances of the value classes (truth by their own __bool__)
    for cls, payload, want_branch in (('Number', 0, 'b'), ('Number', 2, 'a'), ('Number', -0.5, 'a'), ('Boolean', False, 'b'), ('Boolean', True, 'a'),
                                      ('Blank', None, 'b'), ('Text', '', 'b')):
        log = []
        cond = Rec(cls=XLT + cls, value=payload)
        t = [_Thunk('cond', cond, log), _Thunk('a', 'A', log), _Thunk('b', 'B', log)]
        try:
            out = _call(ctx, f, t)
        except Unmodelled as exc:
            raise Unmodelled(f'IF: {exc}')
        ok = out.end == 'return' and out.value == want_branch.upper() and log == ['cond', want_branch]
        ctx.expect(ok, f.node, f'IF(condition {cls} {payload!r}): branch {want_branch}',
                   f'IF with a condition evaluating to the {cls} value {payload!r} evaluates {log} and ends in {out.end} {out.value!r}: expected the '
                   f'value of branch {want_branch} (0, FALSE, a blank and the empty cell content "" select the else-branch; every other number the '
                   'then-branch)')
    # omitted branches
    log = []
    out = _call(ctx, f, [_Thunk('cond', False, log), _Thunk('a', 'A', log)])
    ctx.expect(out.end == 'return' and out.value is False, f.node, 'IF(FALSE, a) yields FALSE',
               f'IF with the else-branch omitted and a false condition gives {out.end} {out.value!r}')
    ctx.floor(14, 'IF decision table')


def rule_3(ctx):
    cases = {
        'AND': [((True, True), True), ((True, False), False), ((1, 0), False), ((1, 2), True), ((True, None, True), True),
                ((None, 0), False), (('', 1), True), (([1, True], True), True), (([1, 0], True), False),
                ((_array(_cellval('Number', 1), _cellval('Boolean', True), _cellval('Boolean', False)),), False),
                ((_array(_cellval('Number', 1), _cellval('Boolean', True)), True), True),
                ((_array(_cellval('Number', 0)), True), False)],
        'OR': [((False, False), False), ((False, True), True), ((0, 0), False), ((0, 3), True), ((False, None), False),
               ((None, 1), True), (('', 0), False), (([0, False], False), False), (([0, 1], False), True),
               ((_array(_cellval('Number', 0), _cellval('Boolean', True)),), True),
               ((_array(_cellval('Boolean', False), _cellval('Number', 0)), False), False)],
    }
    for name, rows in cases.items():
        f = _regfunc(ctx, name)
        for vals, want in rows:
            log = []
            try:
                out = _call(ctx, f, [_Thunk(f't{i}', v, log) for i, v in enumerate(vals)])
            except Unmodelled as exc:
                raise Unmodelled(f'{name}: {exc}')
            ctx.expect(out.end == 'return' and out.value is want, f.node, f'{name}{vals!r}',
                       f'{name}{vals!r} gives {out.end} {out.value!r}, expected {want}: conjunction/disjunction of the truth values of the '
                       'non-blank elements (numbers true exactly when non-zero)')
        # laziness: nothing after the decisive element is evaluated
        decisive = False if name == 'AND' else True
        log = []
        out = _call(ctx, f, [_Thunk('t0', not decisive, log), _Thunk('t1', decisive, log), _Thunk('t2', None, log, forbidden=True)])
        if log != ['t0', 't1'] and out.called('<eager-generator>'):
            ctx.unmodelled(f.node, f'{name}: laziness through a generator helper is not modelled')
            continue
        ctx.expect(out.end == 'return' and out.value is decisive and log == ['t0', 't1'], f.node, f'{name} stops at the decisive argument',
                   f'{name} evaluates {log} although its second argument decides the result: arguments after the decisive one must not be evaluated')
    f = _regfunc(ctx, 'NOT')
    for v, want in ((True, False), (False, True), (0, True), (3, False)):
        log = []
        out = _call(ctx, f, [_Thunk('t', v, log)])
        ctx.expect(out.end == 'return' and out.value is want and log == ['t'], f.node, f'NOT({v!r})',
                   f'NOT({v!r}) gives {out.value!r} after evaluating {log}')
    ctx.floor(28, 'AND/OR/NOT decision tables')


def rule_4(ctx):
    n = 0
    for f in ctx.a.registry:
        for p in f.params:
            if p.annotation is not None and p.kind == 'pos' and _is_xlexpr(ctx, p.annotation, f.module) and p.default is not None:
                n += 1
                d = p.default
                ref = ctx.res.resolve(d.func, f.module) if isinstance(d, ast.Call) and isinstance(d.func, (ast.Name, ast.Attribute)) else None
                ok = ref in (XLT + 'ValueExpr', XLT + 'Expr', XLT + 'Expr.cast')
                ctx.expect(ok, p.node, f'{f.name}.{p.name} default is a thunk',
                           f'{f.name}({p.name}=...) defaults to `{ast.unparse(d)}`: defaults are neither converted nor wrapped by '
                           f'validate_args, so the function calls a plain value ({f.name} with the argument omitted raises TypeError)')
    ctx.floor(2, 'defaults of XlExpr parameters')


def rule_5(ctx):
    """An error value produced by an evaluated argument is the result."""
    err = Rec(cls=XLERR + 'DivZeroExcelError', value='#DIV/0!')
    specs = {
        'IF': ([err, 'A', 'B'], 'IF: an error condition is returned as the result'),
        'AND': ([err, True], 'AND: an error among the evaluated arguments is returned'),
        'OR': ([err, False], 'OR: an error among the evaluated arguments is returned'),
        'NOT': ([err], 'NOT: an error argument is returned'),
    }
    for name, (vals, construct) in specs.items():
        f = _regfunc(ctx, name)
        log = []
        try:
            out = _call(ctx, f, [_Thunk(f't{i}', v, log) for i, v in enumerate(vals)])
        except Unmodelled as exc:
            raise Unmodelled(f'{name}: {exc}')
        ok = out.end == 'return' and out.value is err
        ok = ok or (out.end == 'raise' and isinstance(out.value, Rec) and out.value is err)
        ctx.expect(ok, f.node, construct,
                   f'{name} takes the truth value of an argument that evaluated to #DIV/0! (result {out.value!r}) instead of returning the '
                   f'error: IF(1/0,1,2)=1, AND(1/0,TRUE)=TRUE, OR(#N/A,FALSE)=TRUE, NOT(#N/A)=FALSE')
    ctx.floor(4, 'thunk results in IF/AND/OR/NOT')


def rule_6(ctx):
    """A branch that is selected and fails must not influence later evaluations (which may select the other branch): the
    evaluator is left as it was found by every evaluation, also a failed one (shared with C06.2 / C04.5)."""
    from . import corelemma
    n = corelemma.rule_evaluator_state(ctx)
    ctx.floor(n, 'evaluator-state scenarios')


LOGIC_CELLS = {
    'A1': 5, 'A2': 0, 'A3': 4e-16, 'B1': '=A1>0', 'B2': '=NOT(A2=0)', 'B3': '=IF(A3,TRUE,FALSE)',
    'Z1': '=AND(B1:B4)', 'Z2': '=OR(B1:B4)', 'Z3': '=IF(AND(B1:B4),"all",IF(OR(B1:B4),"some","none"))', 'Z4': '=AND(A1:A3)', 'Z5': '=OR(A2,B4)',
    'L1': '=IF(A1>0,1,NOSUCHFUNC(1))', 'L2': '=IF(A2>0,NOSUCHFUNC(1),2)', 'L3': '=IF(A1>0,A1,L3)', 'L4': '=IF(A2,1/0,"ok")', 'L5': '=IF(A1,"t")',
    'L6': '=IF(A2,"t")', 'L7': '=IF(B4,"t","blank is false")', 'L8': '=IF(NOT(0),IF(AND(1,OR(0,A3)),"in","out"),"never")', 'L9': '=IF(A2,L9,IF(A1,"x",L9))',
    # branches that are not selected may call anything - however the name of the unknown function is spelt
    'U1': '=IF(TRUE,"good",_xlfn.XLOOKUP(1,A1:A3,A1:A3))', 'U2': '=IF(A2,_xlfn.LET(x,1,x+1),"good")', 'U3': '=AND(FALSE,_xlfn.NOSUCHFUNCTION(1))',
    'U4': '=OR(TRUE,_XLFN.IFS(A1,1,TRUE,2))', 'U5': '=IF(TRUE,1,SUM(1,_xlfn.NOSUCHFUNCTION(A1:A3)))', 'U6': '=IF(A1,"good",nosuch.func(1))',
    'U7': '=IF(A1>0,_xlfn.CONCAT("a","b"),_xlfn.NOPE())', 'U9': '=IF(A1,"good",@NOSUCH(1)+_xll.ADDIN.FUNC(2))',
    'T1': '=IF(1E-16,7,8)', 'T2': '=AND(1,A3)', 'T3': '=OR(0,A3)', 'T4': '=NOT(A3)', 'T5': '=IF(A3,"nz","z")', 'T6': '=NOT(A2)', 'T7': '=IF(-0.5,"nz","z")',
}
LOGIC_EXPECTED = {
    'B1': True, 'B2': False, 'B3': True, 'Z1': False, 'Z2': True, 'Z3': 'some', 'Z4': False, 'Z5': False,
    'L1': 1, 'L2': 2, 'L3': 5, 'L4': 'ok', 'L5': 't', 'L6': False, 'L7': 'blank is false', 'L8': 'in', 'L9': 'x',
    'U1': 'good', 'U2': 'good', 'U3': False, 'U4': True, 'U5': 1, 'U6': 'good', 'U7': 'ab', 'U9': 'good',
    'T1': 7, 'T2': True, 'T3': True, 'T4': False, 'T5': 'nz', 'T6': True, 'T7': 'nz',
}


def _as_value(v):
    if isinstance(v, bool):
        return ('Boolean', v)
    if isinstance(v, (int, float)):
        return ('Number', v)
    if isinstance(v, str) and v.startswith('#'):
        return ('error', v)
    return ('Text', v)


def rule_7(ctx):
    """A whole witness workbook, interpreted as written: IF / AND / OR / NOT over cells, ranges of formula cells, tiny non-zero
    numbers, blanks, branches that would fail (unknown function, division by zero, a reference to the cell itself) - every cell
    against its hand-computed value; then histories of set_cell_value / evaluate against freshly compiled models."""
    from . import workbook as W
    from . import scenarios as S
    anchor = ctx.mod('xlfunctions.logical').func('IF')
    wb = W.Workbook(ctx, LOGIC_CELLS)
    for a, w in LOGIC_EXPECTED.items():
        got = wb.value('Sheet1!' + a)
        if isinstance(got, tuple) and got and got[0] == 'error-class':
            got = ('error', W.error_code(ctx, got[1]))
        ctx.expect(S.same(got, _as_value(w)), anchor, f'logic workbook: {a} = {LOGIC_CELLS[a]}',
                   f'{a} = {LOGIC_CELLS[a]} evaluates to {got!r}, expected {w!r} (A1=5, A2=0, A3=4e-16, B4 empty): numbers are TRUE exactly when '
                   'non-zero, blanks are skipped by AND/OR and FALSE as a condition, only the selected branch is evaluated, an evaluated error is '
                   'the result')
    # the same workbook loaded through the reader path (a stored 0 is a number, not an empty cell)
    wbx = W.Workbook(ctx, sheets={'Sheet1': LOGIC_CELLS})
    for a, w in LOGIC_EXPECTED.items():
        got = wbx.value('Sheet1!' + a)
        if isinstance(got, tuple) and got and got[0] == 'error-class':
            got = ('error', W.error_code(ctx, got[1]))
        ctx.expect(S.same(got, _as_value(w)), anchor, f'logic workbook loaded from a file: {a} = {LOGIC_CELLS[a]}',
                   f'{a} = {LOGIC_CELLS[a]} evaluates to {got!r} in the model loaded through the reader, expected {w!r} (A1=5, A2=0, A3=4e-16, B4 empty)')
    # ranges written in lower case (no other formula spells them otherwise)
    lower = {'A1': True, 'A2': False, 'A3': 1, 'Y1': '=AND(a1:a3)', 'Y2': '=OR($a$1:$a$3)', 'Y3': '=IF(OR(A1:a3),10)', 'Y4': '=NOT(OR(Sheet1!a1:a3))', 'Y5': '=AND(a1:a2)',
             'Y6': '=IF(AND(a3:a3),"one","none")'}
    lwant = {'Y1': False, 'Y2': True, 'Y3': 10, 'Y4': False, 'Y5': False, 'Y6': 'one'}
    wbl = W.Workbook(ctx, lower)
    for a, w in lwant.items():
        got = wbl.value('Sheet1!' + a)
        ctx.expect(S.same(got, _as_value(w)), anchor, f'ranges written in lower case: {lower[a]}',
                   f'{a} = {lower[a]} (A1 = TRUE, A2 = FALSE, A3 = 1) evaluates to {got!r}, expected {w!r}')
    # long runs of zeros / FALSE in a range are values, not emptiness: the one TRUE behind them counts
    for filler, hit in ((0, 1), (False, True), (0.0, -2.5)):
        row = {}
        for i in range(1, 131):
            col = (chr(64 + (i - 1) // 26) if i > 26 else '') + chr(65 + (i - 1) % 26)
            row[f'{col}1'] = hit if i == 102 else filler
        row.update({'A3': '=OR(A1:DZ1)', 'A4': '=IF(OR(A1:DZ1),"some","none")', 'A5': '=NOT(OR(A1:DZ1))', 'A6': '=AND(A1:DZ1)'})
        wbz = W.Workbook(ctx, row)
        for a, w in (('A3', True), ('A4', 'some'), ('A5', False), ('A6', False)):
            got = wbz.value('Sheet1!' + a)
            ctx.expect(S.same(got, _as_value(w)), anchor, f'130 cells of {filler!r} with one {hit!r} at position 102: {row[a]}',
                       f'{row[a]} over A1:DZ1 = {filler!r} everywhere except CX1 = {hit!r} evaluates to {got!r}, expected {w!r}')
    steps = [('eval', 'Z1'), ('eval', 'Z3'), ('set', 'A2', 1), ('eval', 'Z1'), ('eval', 'Z3'), ('eval', 'L2'), ('set', 'A3', 0), ('eval', 'Z1'),
             ('eval', 'Z3'), ('eval', 'T2'), ('eval', 'T5'), ('set', 'A1', -1), ('eval', 'L1'), ('eval', 'Z2'), ('eval', 'L5'), ('set', 'A2', 0),
             ('eval', 'Z3'), ('eval', 'Z2'), ('eval', 'L6'),
             # an input made blank again through the API
             ('set', 'A1', None), ('eval', 'L5'), ('eval', 'B1'), ('eval', 'Z2'), ('set', 'A3', None), ('eval', 'B3'), ('eval', 'T5'), ('set', 'A1', 3), ('eval', 'L5')]
    hist_cells = {k: v for k, v in LOGIC_CELLS.items() if k[0] in 'AB' or k in ('Z1', 'Z2', 'Z3', 'L1', 'L2', 'L5', 'L6', 'T2', 'T5')}
    S.check_history(ctx, anchor, 'logic history', hist_cells, steps, cache={}, check_stored=False,
                    why='AND / OR / IF over ranges and cells see the current values of their precedents.')
    ctx.floor(100, 'logic cells + history steps')


RULES = [
    ('C10.1', 'thunks are not forced by FunctionNode.eval', rule_1),
    ('C10.2', 'IF evaluates the condition once and exactly one branch', rule_2),
    ('C10.3', 'AND/OR short-circuit, skip blanks only; NOT negates', rule_3),
    ('C10.4', 'defaults of thunk parameters are thunks', rule_4),
    ('C10.5', 'thunk results are checked for errors before their truth value is taken', rule_5),
    ('C10.6', 'a failed branch evaluation leaves no trace on the evaluator (shared with C06.2)', rule_6),
    ('C10.7', 'whole witness workbook: truth rules, lazy branches, ranges of formula cells, histories', rule_7),
]
