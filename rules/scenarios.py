"""Scenario checks over whole witness workbooks (rules/workbook.py): histories of set / evaluate against freshly compiled
models, evaluation orders, several evaluators over one model, several models in one process, values against hand-computed
tables. Each check interprets the library as written; nothing here knows how the library achieves the behaviour."""
from xlsa import Unmodelled
from xlsa.guards import Rec
from . import values as V
from . import workbook as W


def fresh_value(ctx, cells, addr, cache=None, **kw):
    """Value of addr in a freshly compiled model holding `cells` (a world of its own per input state; the cells of one state are
    evaluated in that one fresh model - that their order does not matter is what check_orders decides)."""
    skey = (tuple(sorted((k, repr(v)) for k, v in cells.items())), tuple(sorted((k, repr(v)) for k, v in kw.items())))
    if cache is None:
        return W.Workbook(ctx, cells, **kw).value(addr)
    if skey not in cache:
        cache[skey] = (W.Workbook(ctx, cells, **kw), {})
    wb, vals = cache[skey]
    if addr not in vals:
        vals[addr] = wb.value(addr)
    return vals[addr]


def same(a, b):
    if isinstance(a, tuple) and isinstance(b, tuple) and len(a) == len(b) == 2 and a[0] == b[0] == 'Number' \
            and isinstance(a[1], (int, float)) and isinstance(b[1], (int, float)) and not isinstance(a[1], bool) and not isinstance(b[1], bool):
        return abs(a[1] - b[1]) <= 1e-9 * max(1.0, abs(a[1]), abs(b[1]))
    return a == b and type(a) is type(b)


def stored(wb, addr):
    """model.cells[addr].value as get_cell_value would return it (normalised)."""
    cells = wb.model.f.get('cells')
    cell = cells.get(addr) if isinstance(cells, dict) else None
    if not isinstance(cell, Rec):
        return ('<no cell>',)
    return V.norm(cell.f.get('value'))


def check_history(ctx, anchor, label, cells, steps, sheet='Sheet1', why='', cache=None, check_stored=True, through_model=False):
    """steps: ('set', coord, native) | ('eval', coord). After every evaluate the value must equal what a freshly compiled model
    with the current inputs returns, and the model must store it."""
    wb = W.Workbook(ctx, cells)
    cur = dict(cells)
    n = 0
    trail = []
    for step in steps:
        if step[0] == 'set':
            if through_model:
                wb.set_model(f'{sheet}!{step[1]}', step[2])
            else:
                wb.set(f'{sheet}!{step[1]}', step[2])
            cur[step[1]] = step[2]
            trail.append(f'set {step[1]}={step[2]!r}')
            continue
        addr = f'{sheet}!{step[1]}'
        got = wb.value(addr)
        want = fresh_value(ctx, cur, addr, cache)
        n += 1
        ctx.expect(same(got, want), anchor, f'{label}: evaluate {step[1]} after [{"; ".join(trail) or "nothing"}]',
                   f'after {"; ".join(trail) or "no change"}, evaluate({step[1]}) returns {got!r}; a freshly compiled model with the same inputs '
                   f'returns {want!r}. {why}')
        if check_stored and same(got, want) and not (isinstance(got, tuple) and got and got[0] == 'raise'):
            st = stored(wb, addr)
            n += 1
            ctx.expect(same(st, got), anchor, f'{label}: stored value of {step[1]} after [{"; ".join(trail) or "nothing"}]',
                       f'the model stores {st!r} for {step[1]} after it evaluated to {got!r}')
        trail.append(f'evaluate {step[1]}')
        if len(trail) > 6:
            trail = ['...'] + trail[-5:]
    return n


def check_orders(ctx, anchor, label, cells, addrs, sheet='Sheet1', why='', cache=None):
    """Every addr evaluated alone in a fresh model is the reference; evaluating them all in one model - forwards, backwards,
    twice - and on a second evaluator over the same model must give the same values."""
    ref = {a: fresh_value(ctx, cells, f'{sheet}!{a}', cache) for a in addrs}
    n = 0
    for oname, order in (('in written order, twice', list(addrs) + list(addrs)), ('in reverse order', list(reversed(addrs)))):
        wb = W.Workbook(ctx, cells)
        for i, a in enumerate(order):
            got = wb.value(f'{sheet}!{a}')
            n += 1
            ctx.expect(same(got, ref[a]), anchor, f'{label}: {a} evaluated {oname}',
                       f'{a} evaluates to {got!r} when the cells are evaluated {oname} (position {i + 1}); evaluated alone in a fresh model it is '
                       f'{ref[a]!r}. {why}')
        if oname.startswith('in written'):
            for a in addrs[::3]:
                got = wb.value(f'{sheet}!{a}', key='second')
                n += 1
                ctx.expect(same(got, ref[a]), anchor, f'{label}: {a} on a second evaluator over the same model',
                           f'a second Evaluator over the model returns {got!r} for {a}, the reference is {ref[a]!r}. {why}')
    return n


def constants_snapshot(wb):
    cells = wb.model.f.get('cells')
    out = {}
    for addr, cell in (cells.items() if isinstance(cells, dict) else []):
        if not isinstance(cell, Rec):
            continue
        f = cell.f.get('formula')
        if isinstance(f, Rec):
            out[addr] = ('formula', f.f.get('formula'))
        else:
            out[addr] = ('constant', V.norm(cell.f.get('value')), type(cell.f.get('value')).__name__)
    names = wb.model.f.get('defined_names')
    out['<names>'] = tuple(sorted(names)) if isinstance(names, dict) else None
    return out
