"""Scenario checks over whole witness workbooks (rules/workbook.py): histories of set / evaluate against freshly compiled
models, evaluation orders, several evaluators over one model, several models in one process, values against hand-computed
tables. Each check interprets the library as written; nothing here knows how the library achieves the behaviour."""
from xlsa import Unmodelled
from xlsa.guards import Rec
from . import values as V
from . import workbook as W


def fresh_value(ctx, cells, addr, cache=None, **kw):
    """Value of addr in a freshly compiled model holding `cells` (a world of its own per input state; the cells of one state are
    evaluated in that one fresh model - that their order does not matter is what check_orders decides)."""
    skey = (tuple(sorted((k, repr(v)) for k, v in cells.items())), tuple(sorted((k, repr(v)) for k, v in kw.items())))
    if cache is None:
        return W.Workbook(ctx, cells, **kw).value(addr)
    if skey not in cache:
        cache[skey] = (W.Workbook(ctx, cells, **kw), {})
    wb, vals = cache[skey]
    if addr not in vals:
        vals[addr] = wb.value(addr)
    return vals[addr]


def _num(v):
    """Functions that answer with a native number or truth value: the same value as the library's object."""
    if isinstance(v, bool):
        return ('Boolean', v)
    if isinstance(v, (int, float)):
        return ('Number', v)
    return v


def same(a, b):
    a, b = _num(a), _num(b)
    if isinstance(a, tuple) and isinstance(b, tuple) and len(a) == len(b) == 2 and a[0] == b[0] == 'Number' \
            and isinstance(a[1], (int, float)) and isinstance(b[1], (int, float)) and not isinstance(a[1], bool) and not isinstance(b[1], bool):
        if a[1] == b[1] or (a[1] != a[1] and b[1] != b[1]):                  # also infinities and NaN
            return True
        return abs(a[1] - b[1]) <= 1e-9 * max(1.0, abs(a[1]), abs(b[1]))
    return a == b and type(a) is type(b)


def stored(wb, addr):
    """model.cells[addr].value as get_cell_value would return it (normalised)."""
    cells = wb.model.f.get('cells')
    cell = cells.get(addr) if isinstance(cells, dict) else None
    if not isinstance(cell, Rec):
        return ('<no cell>',)
    return V.norm(cell.f.get('value'))


def check_history(ctx, anchor, label, cells, steps, sheet='Sheet1', why='', cache=None, check_stored=True, through_model=False):
    """steps: ('set', coord, native) | ('eval', coord). After every evaluate the value must equal what a freshly compiled model
    with the current inputs returns, and the model must store it."""
    wb = W.Workbook(ctx, cells)
    cur = dict(cells)
    n = 0
    trail = []
    for step in steps:
        if step[0] == 'set':
            if through_model == 'cell':
                wb.set_cell(f'{sheet}!{step[1]}', step[2])           # the address given as an XLCell object
                back = wb.get_cell(f'{sheet}!{step[1]}')
                n += 1
                ctx.expect(same(back, V.norm(step[2])) or back == step[2], anchor, f'{label}: get_cell_value(XLCell {step[1]}) after set {step[1]}={step[2]!r}',
                           f'set_cell_value(XLCell({step[1]}), {step[2]!r}) then get_cell_value(XLCell({step[1]})) returns {back!r}')
            elif through_model:
                wb.set_model(f'{sheet}!{step[1]}', step[2])
            else:
                wb.set(f'{sheet}!{step[1]}', step[2])
            if step[2] is None:
                cur.pop(step[1], None)          # a cell set to None is an empty cell
            else:
                cur[step[1]] = step[2]
            trail.append(f'set {step[1]}={step[2]!r}')
            continue
        addr = f'{sheet}!{step[1]}'
        got = wb.value(addr)
        want = fresh_value(ctx, cur, addr, cache)
        n += 1
        ctx.expect(same(got, want), anchor, f'{label}: evaluate {step[1]} after [{"; ".join(trail) or "nothing"}]',
                   f'after {"; ".join(trail) or "no change"}, evaluate({step[1]}) returns {got!r}; a freshly compiled model with the same inputs '
                   f'returns {want!r}. {why}')
        if check_stored and same(got, want) and not (isinstance(got, tuple) and got and got[0] == 'raise'):
            st = stored(wb, addr)
            n += 1
            ctx.expect(same(st, got), anchor, f'{label}: stored value of {step[1]} after [{"; ".join(trail) or "nothing"}]',
                       f'the model stores {st!r} for {step[1]} after it evaluated to {got!r}')
        trail.append(f'evaluate {step[1]}')
        if len(trail) > 6:
            trail = ['...'] + trail[-5:]
    return n


def check_orders(ctx, anchor, label, cells, addrs, sheet='Sheet1', why='', cache=None):
    """Every addr evaluated alone in a fresh model is the reference; evaluating them all in one model - forwards, backwards,
    twice - and on a second evaluator over the same model must give the same values. (Quick tier: every fourth cell gets a
    fresh model of its own, the others take the value of the reverse-order run as reference - the two runs must still agree.)"""
    ref = {}
    for i, a in enumerate(addrs):
        if ctx.tier != 'quick' or i % 4 == 0:
            ref[a] = W.Workbook(ctx, cells).value(f'{sheet}!{a}')
    if len(ref) < len(addrs):
        wb0 = W.Workbook(ctx, cells)
        for a in reversed(addrs):
            v = wb0.value(f'{sheet}!{a}')
            ref.setdefault(a, v)
    n = 0
    for oname, order in (('in written order, twice', list(addrs) + list(addrs)), ('in reverse order', list(reversed(addrs)))):
        wb = W.Workbook(ctx, cells)
        for i, a in enumerate(order):
            got = wb.value(f'{sheet}!{a}')
            n += 1
            ctx.expect(same(got, ref[a]), anchor, f'{label}: {a} evaluated {oname}',
                       f'{a} evaluates to {got!r} when the cells are evaluated {oname} (position {i + 1}); evaluated alone in a fresh model it is '
                       f'{ref[a]!r}. {why}')
        if oname.startswith('in written'):
            for a in addrs[::3]:
                got = wb.value(f'{sheet}!{a}', key='second')
                n += 1
                ctx.expect(same(got, ref[a]), anchor, f'{label}: {a} on a second evaluator over the same model',
                           f'a second Evaluator over the model returns {got!r} for {a}, the reference is {ref[a]!r}. {why}')
    return n


def constants_snapshot(wb):
    cells = wb.model.f.get('cells')
    out = {}
    for addr, cell in (cells.items() if isinstance(cells, dict) else []):
        if not isinstance(cell, Rec):
            continue
        f = cell.f.get('formula')
        if isinstance(f, Rec):
            out[addr] = ('formula', f.f.get('formula'))
        else:
            out[addr] = ('constant', V.norm(cell.f.get('value')), type(cell.f.get('value')).__name__)
    names = wb.model.f.get('defined_names')
    out['<names>'] = tuple(sorted(names)) if isinstance(names, dict) else None
    return out


# ------------------------------------------------------------------------------------------------------------------
# a reference workbook with several sheets (one name a prefix of another, one with an apostrophe), defined names,
# $-variants and cross-sheet chains; the expected values are computed by hand
# ------------------------------------------------------------------------------------------------------------------
REF_SHEETS = {
    'Data': {'A1': 2, 'A2': 3, 'A3': 5, 'B1': '=A1*10', 'B2': '=SUM(A1:A3)', 'B3': '=B1+B2', 'C1': "='Data 2'!B1+B1", 'C2': '=rate*2',
             'C3': '=base+rate', 'C4': "=SUM('Data 2'!A1:A3)+SUM(A1:A3)", 'C5': "='Data 2'!C5+A1", 'C6': '=SUM($A$1:A$3)+$A2', 'C7': '=Z9+1',
             'C8': '=COUNTA(A1:A9)', 'C9': '=A5+1', 'C10': '=A6&"x"', 'C11': '=IF(A7,"t","empty is false")', 'C12': '=SUM(A1:A9)',
             'C13': "=SUM('Data 2'!B1:B2)+MAX('Data 2'!B1:B3)", 'C14': "=SUM(B1:B3)+SUM('Data 2'!B1:B2)"},
    'Data 2': {'A1': 100, 'A2': 200, 'A3': 300, 'B1': '=SUM(A1:A3)', 'B2': '=A1*10', 'B3': '=Data!B3+B1', 'C1': '=Data!C1+B2', 'C5': '=B2+A2',
               'C6': "=Data!C5+'Data 2'!A1"},
    "It's": {'A1': 7, 'B2': "='It''s'!A1*2", 'B3': "=SUM('It''s'!A1:A1)+Data!A1", 'B4': '=$A$1+A$1+$A1', 'B5': "='Data 2'!$B$2+'It''s'!$A$1"},
}
REF_NAMES = {'rate': "'Data 2'!$A$2", 'base': 'Data!$A$3'}
REF_EXPECTED = {
    'Data!B1': 20, 'Data!B2': 10, 'Data!B3': 30, 'Data!C1': 620, 'Data!C2': 400, 'Data!C3': 205, 'Data!C4': 610, 'Data!C5': 1202, 'Data!C6': 13,
    'Data!C7': 1, 'Data!C8': 3, 'Data!C9': 1, 'Data!C10': 'x', 'Data!C11': 'empty is false', 'Data!C12': 10, 'Data!C13': 2600, 'Data!C14': 1660,
    'Data 2!B1': 600, 'Data 2!B2': 1000, 'Data 2!B3': 630, 'Data 2!C1': 1620, 'Data 2!C5': 1200, 'Data 2!C6': 1302,
    "It's!B2": 14, "It's!B3": 9, "It's!B4": 21, "It's!B5": 1007, 'rate': 200, 'base': 5,
}


def check_reference_workbook(ctx, anchor, label, why):
    """Every formula cell of the reference workbook (loaded through the reader path), evaluated in two orders; then a second
    workbook with the same formula texts and names bound elsewhere, compiled in the same process."""
    n = 0
    for oname, order in (('in written order', list(REF_EXPECTED)), ('in reverse order', list(reversed(list(REF_EXPECTED))))):
        wb = W.Workbook(ctx, sheets=REF_SHEETS, names=REF_NAMES)
        for addr in order:
            got = wb.value(addr)
            want = ('Number', REF_EXPECTED[addr]) if not isinstance(REF_EXPECTED[addr], str) else ('Text', REF_EXPECTED[addr])
            n += 1
            sheet, _, coord = addr.rpartition('!')
            text = REF_SHEETS[sheet][coord] if sheet else f'the defined name {addr} -> {REF_NAMES[addr]}'
            ctx.expect(same(got, want), anchor, f'{label}: {addr} = {text} ({oname})',
                       f'{addr} ({text}) evaluates to {got!r} {oname}, expected {REF_EXPECTED[addr]}. {why}')
    world = wb.world
    sheets2 = {k: dict(v) for k, v in REF_SHEETS.items()}
    sheets2['Data']['A1'] = 4
    names2 = {'rate': 'Data!$A$1', 'base': "'Data 2'!$A$3"}
    wb2 = W.Workbook(ctx, sheets=sheets2, names=names2, world=world)
    for addr, want in (('Data!C2', 8), ('Data!C3', 304), ('Data!B1', 40), ('rate', 4)):
        got = wb2.value(addr)
        n += 1
        ctx.expect(same(got, ('Number', want)), anchor, f'{label}: second workbook in the same process, {addr}',
                   f'in a second workbook with the same formula texts, A1 = 4 and the names bound elsewhere (rate -> Data!A1, base -> Data 2!A3) '
                   f'{addr} evaluates to {got!r}, expected {want}. {why}')
    return n


def check_names_history(ctx, anchor, label, why):
    """The reference workbook again, now with edits: an input is set through its address and through its defined name, formulas
    that reach it through the name, through a range, across sheets and through other formulas are re-evaluated and compared with
    hand-computed values (and the name itself evaluates to the new value)."""
    wb = W.Workbook(ctx, sheets=REF_SHEETS, names=REF_NAMES)
    first = ['Data!C2', 'Data!C3', 'Data!C5', 'Data 2!C6', 'Data!C4', 'rate']
    for a in first:
        wb.value(a)
    steps = [
        ('set', 'Data 2!A2', 500), ('eval', 'Data!C2', 1000), ('eval', 'Data!C3', 505), ('eval', 'rate', 500), ('eval', 'Data 2!C5', 1500),
        ('eval', 'Data!C5', 1502), ('eval', 'Data 2!C6', 1602), ('eval', 'Data!C4', 910),
        ('set', 'base', 50), ('eval', 'Data!C3', 550), ('eval', 'Data!B2', 55), ('eval', 'Data!B3', 75), ('eval', 'Data 2!B3', 975), ('eval', 'base', 50),
        ('set', 'rate', 1), ('eval', 'Data!C2', 2), ('eval', 'Data 2!B1', 401), ('eval', 'Data!C1', 421), ('eval', 'Data 2!C1', 1421),
    ]
    n = 0
    focus = sorted({st[1] for st in steps if st[0] == 'eval'} | set(first))
    sub = W.Workbook(ctx, sheets=REF_SHEETS, names=REF_NAMES).extracted(focus)      # the same history on a model extracted for these cells and names
    for kind, book in (('', wb), (' (in the model extracted for these cells)', sub)):
        trail = []
        for st in steps:
            if st[0] == 'set':
                book.set(st[1], st[2])
                trail.append(f'set {st[1]}={st[2]}')
                continue
            got = book.value(st[1])
            n += 1
            ctx.expect(same(got, ('Number', st[2])), anchor, f'{label}{kind}: {st[1]} after [{"; ".join(trail)}]',
                       f'after {"; ".join(trail)}{kind}, {st[1]} evaluates to {got!r}, expected {st[2]}. {why}')
    return n


def check_loads_are_independent(ctx, anchor, label):
    """Two workbooks loaded one after the other in ONE process: the first with hidden sheets and every documented keyword of the
    loader (ignore_hidden=True, an ignore list), the second - with visible sheets of the same titles - with the defaults. The
    second model is what it is in a process of its own."""
    first = {'Data': {'A1': 1, 'B2': 2}, 'Calc 2': {'B2': 3}, 'Sheet1': {'A1': '=Data!A1'}}
    second = {'Data': {'A1': 42, 'B1': 10, 'B2': 13, 'A3': 0}, 'Calc 2': {'B2': 200, 'A1': 1},
              'Sheet1': {'A1': 1, 'C1': '=Data!A1', 'C2': '=SUM(Data!A1:B3)', 'C3': "='Calc 2'!B2+A1", 'C4': '=Rate*2', 'C5': "=SUM('Calc 2'!A1:B2)"}}
    names = {'Rate': 'Data!$B$2'}
    want = {'Sheet1!C1': 42, 'Sheet1!C2': 65, 'Sheet1!C3': 201, 'Sheet1!C4': 26, 'Sheet1!C5': 201, 'Rate': 13}
    n = 0
    for how, kw in (('ignore_hidden=True', {'ignore_hidden': True}), ('ignore_sheets=["Data"]', {'ignore_sheets': ['Data']}), ('ignore_hidden=False', {'ignore_hidden': False})):
        one = W.Workbook(ctx, sheets=first, names={'Rate': 'Data!$B$2'}, hidden={'Data': 'hidden', 'Calc 2': 'veryHidden'}, **kw)
        two = W.Workbook(ctx, sheets=second, names=names, world=one.world)
        cells = two.model.f.get('cells')
        held = sorted(k for k in cells if k.startswith(('Data!', 'Calc 2!'))) if isinstance(cells, dict) else cells
        n += 1
        ctx.expect(isinstance(cells, dict) and {'Data!A1', 'Data!B2', 'Calc 2!B2'} <= set(cells), anchor, f'{label}: cells of the second workbook after a load with {how}',
                   f'a workbook whose sheets Data and Calc 2 are hidden was loaded with {how}; a second workbook with visible sheets of these titles, loaded with '
                   f'the defaults in the same process, then holds only {held} of them')
        for addr, w in want.items():
            got = two.value(addr)
            n += 1
            ctx.expect(same(got, ('Number', w)), anchor, f'{label}: {addr} of the second workbook after a load with {how}',
                       f'after another workbook was loaded with {how}, {addr} of a workbook loaded with the defaults evaluates to {got!r}, expected {w}: '
                       'what one load was told to leave out is no business of the next')
    return n


def footprint(wb):
    """{root: number of container elements reachable from it} for everything that outlives an evaluation in the world of `wb`:
    module-level values, class attributes, default-argument objects, memo tables, the model and its evaluators."""
    from xlsa.guards import PyModel
    world = wb.world
    roots = {}
    for k, v in world.globals.items():
        roots[f'module-level {k}'] = v
    for k, v in world.classattrs.items():
        roots[f'class attribute {k[0].rpartition(":")[2]}.{k[1]}'] = v
    for i, (k, v) in enumerate(sorted(world.__dict__.get('default_values', {}).items())):
        roots[f'default argument object #{i}'] = v
    for k, v in world.__dict__.items():
        if k not in ('globals', 'classattrs', 'default_values', 'call_counts', 'funcobjs') and isinstance(v, (dict, list, set)):
            roots[f'interpreter table {k}'] = None          # bookkeeping of the checker itself
    roots['the model'] = wb.model
    for key, ev in wb.evaluators.items():
        roots[f'evaluator {key!r}'] = ev
    out = {}
    for name, root in roots.items():
        seen = set()
        total = 0
        stack = [root]
        while stack:
            v = stack.pop()
            if id(v) in seen:
                continue
            seen.add(id(v))
            if isinstance(v, Rec):
                if str(v.f.get('cls', '')).endswith((':XLCell', ':XLFormula', ':XLRange')) and name != 'the model' and not name.startswith('evaluator'):
                    total += 1
                    continue
                total += len(v.f)
                stack.extend(v.f.values())
            elif isinstance(v, dict):
                total += len(v)
                stack.extend(v.values())
                stack.extend(k for k in v if isinstance(k, (Rec, tuple)))
            elif isinstance(v, (list, tuple, set, frozenset)):
                total += len(v)
                stack.extend(v)
            elif isinstance(v, PyModel) and hasattr(v, '__dict__'):
                for a, x in vars(v).items():
                    if a not in ('interp', 'world'):
                        stack.append(x)
        out[name] = total
    return out


def check_call_sequence(ctx, label, seq, models=None, wrap=None):
    """Library calls made one after the other in ONE process give what each gives in a process of its own (a memo keyed by
    equality - 1 / TRUE / 1.0, "a" / "A" -, a module-level default, a cache edited in place would show here).
    seq: [(function name, argument tuple)]; wrap: native -> value instance (default: the native value itself)."""
    from xlsa.guards import World
    shared = World()
    alone = {}
    n = 0

    def outcome(name, args, world):
        out = V.call(ctx, name, [wrap(a) if wrap else a for a in args], models=models, world=world)
        return V.norm(out.value) if out.end == 'return' else f'<{out.end} {V.norm(out.value)!r}>'
    for i, (name, args) in enumerate(seq):
        key = (name, repr(args))
        if key not in alone:
            alone[key] = outcome(name, args, None)
        got = outcome(name, args, shared)
        n += 1
        ctx.expect(got == alone[key] or same(got, alone[key]), V.registered(ctx, name).node, f'{label}: call {i + 1} of a sequence in one process: {name}{args!r}',
                   f'{name}{args!r} gives {got!r} as call {i + 1} of a sequence of calls in one process ({", ".join(f"{n_}{a_!r}" for n_, a_ in seq[max(0, i - 3):i])} before it) '
                   f'and {alone[key]!r} on its own: what one call computed or was given is no business of the next')
    return n
