"""C13 - an extracted sub-model computes the same values as the full model (structural part)."""
import ast

from xlsa import Unmodelled, AnchorMissing
from xlsa.load import walk_local, names_in, dotted
from xlsa import flow
from .common import func_params, value_returns, last_return

PROPERTY = 'C13'
EXPLANATION = (
    'Decided from source: (C13.1) dependency closure: the statements of extract() that add cells because a formula '
    'mentions them feed back into the statements that scan formulas for terms (common loop whose work-set grows, recursion, '
    'or a helper with that property) - a single pass copies direct dependencies only; (C13.2) terms that denote ranges (":") '
    'are not looked up in the cells map and the ranges of the extracted model are populated; (C13.3) every object stored '
    'into the extracted model derives from the original through copy.deepcopy, and extract() stores nothing into the '
    'original model; (C13.5) set_cell_value/get_cell_value write and read through the cells map (names and cells are '
    'separate copies in the extracted model), so the same input change has the same effect on both models; (C13.4) focus entries are taken from cells and from defined names, and the extracted model is compiled.')
NOT_DECIDED = 'value equality after arbitrary input changes'
TRUSTED = ['copy.deepcopy yields an independent object graph']


def _extract(ctx):
    mm = ctx.mod('model')
    fn = mm.func('ModelCompiler.extract')
    p = func_params(fn)
    if len(p) < 2:
        raise Unmodelled('extract(model, focus)')
    ext = None
    for a in walk_local(fn):
        if isinstance(a, ast.Assign) and isinstance(a.value, ast.Call) and ctx.res.resolve(a.value.func, mm) == 'pkg:model:Model':
            ext = a.targets[0].id
    if ext is None:
        raise AnchorMissing('extract: construction of the extracted Model')
    return mm, fn, p[0], ext


def rule_1(ctx):
    mm, fn, orig, ext = _extract(ctx)
    # scan: loops reading `.terms`; add: stores into ext.cells whose key derives from a term
    deps = flow.Deps(fn)
    scans = [n for n in walk_local(fn) if isinstance(n, ast.For) and any(
        isinstance(x, ast.Attribute) and x.attr == 'terms' for x in ast.walk(n.iter))]
    if not scans:
        raise AnchorMissing('extract: loop over formula terms')
    term_names = set()
    for s in scans:
        term_names |= names_in(s.target)
    adds = []
    for a in walk_local(fn):
        if isinstance(a, ast.Assign):
            for t in a.targets:
                if isinstance(t, ast.Subscript) and ast.unparse(t.value) == f'{ext}.cells':
                    src = deps.closure(names_in(t.slice))
                    if src & term_names:
                        adds.append(a)
    if not adds:
        ctx.bad(fn, 'cells mentioned by formulas are added', 'extract() never adds the cells that the copied formulas mention')
    for a in adds:
        # closure: add must be inside a loop that re-scans what it adds: the outermost loop around the add also contains a scan of
        # ext.cells (or iterates a work-list that the add extends), or the add is in a recursive helper
        closed = False
        p = a._parent
        while p is not None and p is not fn:
            if isinstance(p, (ast.While,)):
                if any(flow.contains(p, s) for s in scans):
                    closed = True
            if isinstance(p, ast.For):
                # for over a list that is extended inside the loop (work-list)
                it_names = names_in(p.iter)
                grows = any(isinstance(c, ast.Call) and isinstance(c.func, ast.Attribute) and c.func.attr in ('append', 'extend', 'add', 'update')
                            and isinstance(c.func.value, ast.Name) and c.func.value.id in it_names for c in ast.walk(p))
                if grows and any(flow.contains(p, s) for s in scans):
                    closed = True
            p = p._parent
        # recursion: a nested/helper function that calls itself
        enc = a
        while enc is not None and not isinstance(enc, ast.FunctionDef):
            enc = enc._parent
        if enc is not None and enc is not fn:
            if any(isinstance(c.func, ast.Name) and c.func.id == enc.name for c in flow.calls_in(enc)):
                closed = True
        ctx.expect(closed, a, 'cells added for formula terms are scanned again (transitive closure)',
                   'extract() copies the cells a focused formula mentions in one pass and never scans the formulas of the cells '
                   'it just added: with A4=A3+1, A3=A2+1, A2=A1+1 and focus [A4] the extracted model lacks A2 and A1 and A4 '
                   'evaluates to 2 instead of 4')
    ctx.floor(1, 'add sites')


def rule_2(ctx):
    mm, fn, orig, ext = _extract(ctx)
    deps = flow.Deps(fn, through_stores=False)
    scans = [n for n in walk_local(fn) if isinstance(n, ast.For) and any(
        isinstance(x, ast.Attribute) and x.attr == 'terms' for x in ast.walk(n.iter))]
    term_names = set()
    for s in scans:
        term_names |= names_in(s.target)
    lookups = []
    for n in walk_local(fn):
        if isinstance(n, ast.Subscript) and ast.unparse(n.value) == f'{orig}.cells' and isinstance(n.ctx, ast.Load):
            if deps.closure(names_in(n.slice)) & term_names:
                lookups.append(n)
    for k_, n in enumerate(sorted(lookups, key=flow.pos), 1):
        conds = flow.path_conditions(n)
        guarded = any(any(isinstance(x, ast.Constant) and x.value == ':' for x in ast.walk(c.test)) for c in conds) or any(
            isinstance(c.test, ast.Compare) and isinstance(c.test.ops[0], ast.In) and ast.unparse(c.test.comparators[0]) == f'{orig}.cells'
            and ast.dump(c.test.left) == ast.dump(n.slice) and c.polarity
            for c in conds)
        # a filter where the work-list is built counts too
        for a in walk_local(fn):
            if isinstance(a, ast.Call) and isinstance(a.func, ast.Attribute) and a.func.attr == 'append' and a.args \
                    and names_in(a.args[0]) & term_names and isinstance(a.func.value, ast.Name) \
                    and a.func.value.id in deps.closure(names_in(n.slice)):
                cs = flow.path_conditions(a)
                if any(any(isinstance(x, ast.Constant) and x.value == ':' for x in ast.walk(c.test)) for c in cs):
                    guarded = True
        ctx.expect(guarded, n, f'term-keyed lookup #{k_} in the original cells map excludes range terms',
                   'a formula term is looked up in the cells map without excluding range terms ("A1:A2"): extracting a cell whose '
                   'formula refers to a range raises KeyError')
    stores_ranges = [a for a in walk_local(fn) if isinstance(a, ast.Assign) and any(
        isinstance(t, ast.Subscript) and ast.unparse(t.value) == f'{ext}.ranges' for t in a.targets)]
    builds = [c for c in flow.calls_in(fn) if isinstance(c.func, ast.Attribute) and c.func.attr == 'build_ranges']
    ctx.expect(bool(stores_ranges) or bool(builds), fn, 'ranges of the extracted model are populated',
               'extract() never fills the ranges registry of the extracted model: range references in extracted formulas cannot '
               'be materialised (each range is read as a single missing cell)')
    ctx.floor(2, 'term lookups + range registry')
    if not lookups:
        ctx.errors.append('C13.2: no term-keyed lookup in the original cells map found')


def rule_3(ctx):
    mm, fn, orig, ext = _extract(ctx)
    n = 0
    for a in walk_local(fn):
        if not isinstance(a, ast.Assign):
            continue
        for t in a.targets:
            base = t
            while isinstance(base, (ast.Subscript, ast.Attribute)):
                base = base.value
            if isinstance(base, ast.Name) and base.id == orig and isinstance(t, (ast.Subscript, ast.Attribute)):
                n += 1
                ctx.bad(a, f'store into the original model `{ast.unparse(t)[:40]}`', 'extract() modifies the model it extracts from')
            into_ext = isinstance(base, ast.Name) and base.id == ext and isinstance(t, (ast.Subscript, ast.Attribute))
            # cell.formula = ... for cells of the extracted model
            is_cell_attr = isinstance(t, ast.Attribute) and isinstance(t.value, ast.Name) and t.attr in ('formula', 'value')
            if into_ext or is_cell_attr:
                if orig in names_in(a.value) or into_ext:
                    n += 1
                    v = a.value
                    ok = isinstance(v, ast.Call) and ctx.res.resolve(v.func, mm) == 'ext:copy.deepcopy'
                    ctx.expect(ok, a, f'`{ast.unparse(t)[:45]}` receives a deep copy',
                               f'`{ast.unparse(t)[:45]}` is assigned `{ast.unparse(v)[:50]}` without copy.deepcopy: the extracted model '
                               'shares objects with the original, so set_cell_value / evaluation on one changes the other')
    # no mutating calls on the original
    for c in flow.calls_in(fn):
        if isinstance(c.func, ast.Attribute) and c.func.attr in ('pop', 'clear', 'update', 'append', 'remove', 'setdefault', 'build_code', 'set_cell_value'):
            root = c.func.value
            while isinstance(root, (ast.Attribute, ast.Subscript)):
                root = root.value
            if isinstance(root, ast.Name) and root.id == orig:
                ctx.bad(c, f'mutating call `{ast.unparse(c)[:40]}` on the original', 'extract() mutates the original model')
    ctx.floor(5, 'stores into the extracted model')


def rule_4(ctx):
    mm, fn, orig, ext = _extract(ctx)
    loops = [n for n in fn.body if isinstance(n, ast.For) and names_in(n.iter) == {func_params(fn)[1]}]
    ctx.expect(len(loops) == 1, fn, 'every focus entry is visited', 'extract() does not iterate over the focus list')
    if loops:
        txt = ast.unparse(loops[0])
        ctx.expect(f'{orig}.cells' in txt and f'{orig}.defined_names' in txt, loops[0], 'focus resolves cells and defined names',
                   'focus entries are not looked up both as cell addresses and as defined names')
        ctx.expect(f'{ext}.defined_names' in txt, loops[0], 'focused names are kept in the extracted model',
                   'a focused defined name is not stored in the extracted model')
    r = last_return(fn)
    ok = r is not None and isinstance(r.value, ast.Name) and r.value.id == ext
    ctx.expect(ok, fn, 'extract returns the extracted model', 'extract() does not return the model it built')
    built = [c for c in flow.calls_in(fn) if ast.unparse(c.func) == f'{ext}.build_code']
    ctx.expect(len(built) == 1 and (not r or flow.pos(built[0]) < flow.pos(r)), fn, 'extracted model is compiled',
               'the extracted model is returned without compiled formulas')
    ctx.floor(4, 'focus handling facts')


def rule_5(ctx):
    """After extraction the XLCell held by defined_names and the one in the cells map are *separate* deep copies, so input
    changes applied to both models agree only if set/get go through the cells map (shared with C04.4)."""
    mm, fn, orig, ext = _extract(ctx)
    copies = [a for a in walk_local(fn) if isinstance(a, ast.Assign) and isinstance(a.value, ast.Call)
              and ctx.res.resolve(a.value.func, mm) == 'ext:copy.deepcopy']
    into_names = [a for a in copies if any(f'{ext}.defined_names' in ast.unparse(t) for t in a.targets)]
    into_cells = [a for a in copies if any(f'{ext}.cells' in ast.unparse(t) for t in a.targets)]
    ctx.note(f'extract() deep-copies {len(into_names)} name object(s) and {len(into_cells)} cell object(s) separately: '
             'name objects and cell objects of the extracted model are not aliases')
    from . import c04
    c04.rule_4(ctx)


RULES = [
    ('C13.1', 'dependency closure of extract', rule_1),
    ('C13.2', 'range terms are not looked up as cells; ranges populated', rule_2),
    ('C13.3', 'no aliasing with the original, original unchanged', rule_3),
    ('C13.4', 'focus handling and compilation', rule_4),
    ('C13.5', 'input changes reach the cells map in both models (shared with C04.4)', rule_5),
]
