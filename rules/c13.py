"""C13 - an extracted sub-model computes the same values as the full model (structural part)."""
import ast

from xlsa import Unmodelled, AnchorMissing
from xlsa.load import walk_local, names_in, dotted
from xlsa.consteval import Ref
from xlsa.guards import Interp, Rec, PyModel, Opaque
from xlsa import flow
from .common import func_params, value_returns, last_return

PROPERTY = 'C13'
EXPLANATION = (
    'Decided from source: (C13.1) dependency closure: extract() is partially evaluated on abstract models (a chain, a '
    'diamond, a deeper tree) and every transitive precedent of the focus must be in the extracted cells map '
    '- a single pass copies direct dependencies only; (C13.2) terms that denote ranges (":") '
    'are not looked up in the cells map and the ranges of the extracted model are populated; (C13.3) every object found '
    'in the extracted model after the run is a copy.deepcopy (identity-preserving model) of the original\'s object and still '
    'carries its formula, and extract() stores nothing into the original model; (C13.5) set_cell_value/get_cell_value write and read through the cells map (names and cells are '
    'separate copies in the extracted model), so the same input change has the same effect on both models; (C13.4) focus entries are taken from cells and from defined names, and the extracted model is compiled.'
    ' (C13.2) also: references to cells the model does not hold and defined names used in focused formulas; (C13.6) the terms extract() follows are those of the formula itself: own text, own sheet, nothing carried over between formulas of equal text.'
    ' (C13.7) a witness workbook (two sheets, chains, ranges, names for cells and a range, names spelt in another case): for every focus list the model extracted by ModelCompiler.extract (as written, copy protocol included) agrees with the full model on every focused cell before and after the same edits; the original is unchanged.'
    ' (C13.7) also range members that are 0 / FALSE / 0.0, edits and calculations before the extraction, cells of another sheet that the workbook does not store.')
NOT_DECIDED = 'value equality after arbitrary input changes'
TRUSTED = ['copy.deepcopy yields an independent object graph', 'workbook scenarios: pandas storage of range arrays as row-major rows, numpy on Python numbers (IEEE results, 64-bit integer wrap), dateutil.parser.parse rejecting texts that are no dates, openpyxl address arithmetic, inspect.signature built from the FunctionDef', 'copy protocol: __getstate__ / __setstate__ honoured by deepcopy']


def _model(cells=None, defined_names=None):
    """Abstract Model instance: the four maps; its real methods are inlined on demand, build_code is counted."""
    return Rec(cls='pkg:model:Model', cells=cells if cells is not None else {}, defined_names=defined_names if defined_names is not None else {},
               formulae={}, ranges={}, built=0)


def _is_model(v):
    return isinstance(v, Rec) and v.f.get('cls') == 'pkg:model:Model'


def _cell(addr, terms=None, label=None):
    formula = Rec(cls='pkg:xltypes:XLFormula', terms=list(terms), formula='=' + '+'.join(terms), ast=None) if terms is not None else None
    return Rec(cls='pkg:xltypes:XLCell', address=addr, formula=formula, value=label or addr, origin=addr)


def _deepcopy(obj):
    """Model of copy.deepcopy on abstract objects: a distinct object that remembers what it was copied from."""
    if isinstance(obj, Rec):
        new = Rec(**{k: (_deepcopy(v) if isinstance(v, Rec) else (list(v) if isinstance(v, list) else v)) for k, v in obj.f.items()})
        new.set('copied_from', obj)
        return new
    if isinstance(obj, list):
        return [_deepcopy(x) for x in obj]
    if isinstance(obj, dict):
        return {k: _deepcopy(v) for k, v in obj.items()}
    return obj


def _xlrange(addr, members):
    """A range as ModelCompiler.build_ranges registers it: address text and the matrix of member addresses."""
    return Rec(cls='pkg:xltypes:XLRange', address_str=addr, name=addr, cells=[[a] for a in members], value=None, sheet=addr.split('!')[0])


def _run_extract(ctx, cells, names, focus, ranges=None):
    mm = ctx.mod('model')
    fn = mm.func('ModelCompiler.extract')
    p = func_params(fn)
    model = _model(dict(cells), dict(names))
    model.set('ranges', dict(ranges or {}))     # a compiled model: every range term of a formula is registered

    def isinst(val, refs):
        refs = refs if isinstance(refs, tuple) else (refs,)
        if any(r == 'builtin:str' for r in refs) and isinstance(val, str):
            return True
        cls = val.f.get('cls') if isinstance(val, Rec) else getattr(val, 'cls', None)
        return bool(cls) and isinstance(cls, str) and any(r and ctx.res.is_subclass(cls, r) for r in refs)
    it = Interp(ctx.a, mm, {p[0]: model, p[1]: list(focus)}, isinstance_fn=isinst, inline_pkg=True, scope_fn=fn,
                call_models={'ext:copy.deepcopy': _deepcopy, 'ext:copy.copy': lambda v: v, 'pkg:model:Model': lambda: _model(),
                             'pkg:model:Model.build_code': lambda self_: self_.set('built', self_.get('built') + 1)})
    out = it.run(fn.body)
    return model, out


def rule_1(ctx):
    """Dependency closure decided on abstract models: a chain, a diamond and a deeper tree."""
    mm = ctx.mod('model')
    fn = mm.func('ModelCompiler.extract')
    S = 'Sheet1!'
    cases = {
        'chain A4<-A3<-A2<-A1, focus A4': ({S + 'A1': _cell(S + 'A1'), S + 'A2': _cell(S + 'A2', [S + 'A1']), S + 'A3': _cell(S + 'A3', [S + 'A2']),
                                            S + 'A4': _cell(S + 'A4', [S + 'A3']), S + 'Z9': _cell(S + 'Z9')}, [S + 'A4'],
                                           {S + 'A1', S + 'A2', S + 'A3', S + 'A4'}),
        'direct dependencies only, focus B1': ({S + 'A1': _cell(S + 'A1'), S + 'A2': _cell(S + 'A2'), S + 'B1': _cell(S + 'B1', [S + 'A1', S + 'A2']),
                                                S + 'Z9': _cell(S + 'Z9')}, [S + 'B1'], {S + 'A1', S + 'A2', S + 'B1'}),
        'diamond D<-B,C<-A, focus D': ({S + 'A1': _cell(S + 'A1'), S + 'B1': _cell(S + 'B1', [S + 'A1']), S + 'C1': _cell(S + 'C1', [S + 'A1']),
                                        S + 'D1': _cell(S + 'D1', [S + 'B1', S + 'C1'])}, [S + 'D1'], {S + 'A1', S + 'B1', S + 'C1', S + 'D1'}),
    }
    for label, (cells, focus, want) in cases.items():
        try:
            model, out = _run_extract(ctx, cells, {}, focus)
        except Unmodelled as exc:
            raise Unmodelled(f'extract: {exc}')
        ext = out.value if out.end == 'return' else None
        got = set(ext.get('cells')) if _is_model(ext) else f'<{out.end} {out.value!r}>'
        construct = 'cells added for formula terms are scanned again (transitive closure)' if 'chain' in label or 'diamond' in label \
            else 'direct dependencies of the focus are extracted'
        if isinstance(got, set):
            lost = []
            for k_, v_ in ext.get('cells').items():
                o_ = cells.get(k_)
                if o_ is not None and o_.f.get('formula') is not None:
                    f_ = v_.f.get('formula') if isinstance(v_, Rec) else None
                    if not (isinstance(f_, Rec) and f_.f.get('terms') == o_.f['formula'].f['terms']):
                        lost.append(k_)
            ctx.expect(not lost, fn, f'extracted formula cells keep their formula: {label}',
                       f'the formula cells {lost} are extracted without their formula (only a value): they no longer follow input changes')
        ctx.expect(got == want, fn, f'{construct}: {label}',
                   f'extract({label}) contains the cells {sorted(got) if isinstance(got, set) else got}, expected {sorted(want)}: '
                   'everything the focus depends on, directly or transitively, must be extracted (with A4=A3+1, A3=A2+1, A2=A1+1 and '
                   'focus [A4] the extracted A4 evaluates to 2 instead of 4)')
    ctx.floor(3, 'dependency shapes')


def rule_2(ctx):
    mm = ctx.mod('model')
    fn = mm.func('ModelCompiler.extract')
    S = 'Sheet1!'
    cells = {S + 'A1': _cell(S + 'A1'), S + 'A2': _cell(S + 'A2'), S + 'B1': _cell(S + 'B1', [S + 'A1:A2'])}
    model, out = _run_extract(ctx, cells, {}, [S + 'B1'], ranges={S + 'A1:A2': _xlrange(S + 'A1:A2', [S + 'A1', S + 'A2'])})
    ok = out.end == 'return'
    ctx.expect(ok, fn, 'a range term of a focused formula is not looked up as a cell',
               f'extracting a cell whose formula refers to a range ends in {out.end} {out.value!r}: the range term "Sheet1!A1:A2" is looked up '
               'in the cells map (KeyError)')
    if ok:
        ext = out.value
        ctx.expect({S + 'A1', S + 'A2'} <= set(ext.get('cells')), fn, 'member cells of a referenced range are extracted',
                   f'the member cells of the referenced range are missing from the extracted model: {sorted(ext.get("cells"))}')
        ctx.expect(bool(ext.get('ranges')) or ext.get('built') > 0, fn, 'ranges of the extracted model are populated',
                   'extract() never fills the ranges registry of the extracted model')
    else:
        ctx.bad(fn, 'ranges of the extracted model are populated',
                'extract() never fills the ranges registry of the extracted model: range references in extracted formulas cannot be '
                'materialised')
    # a reference to a cell the model does not hold (a blank): the full model evaluates it as blank, extraction must not fail
    cells = {S + 'A1': _cell(S + 'A1'), S + 'B1': _cell(S + 'B1', [S + 'A1', S + 'Z9'])}
    model, out = _run_extract(ctx, cells, {}, [S + 'B1'])
    ok = out.end == 'return' and _is_model(out.value) and {S + 'A1', S + 'B1'} <= set(out.value.get('cells'))
    ctx.expect(ok, fn, 'a reference to a cell absent from the model (blank) is tolerated',
               f'extracting a cell whose formula refers to a cell the model does not hold ends in {out.end} {out.value!r}: '
               'the full model evaluates =A1+Z9 with an empty Z9, the extraction raises KeyError')
    # a defined name used inside a focused formula: the name and its cell are dependencies
    q1 = _cell(S + 'Q1')
    cells = {S + 'Q1': q1, S + 'B1': _cell(S + 'B1', [S + 'rate'])}
    model, out = _run_extract(ctx, cells, {'rate': q1}, [S + 'B1'])
    ok = out.end == 'return' and _is_model(out.value) and S + 'Q1' in out.value.get('cells') and 'rate' in out.value.get('defined_names')
    ctx.expect(ok, fn, 'a defined name used in a focused formula is extracted with its cell',
               f'extracting a cell whose formula uses a defined name ends in {out.end} '
               f'{(sorted(out.value.get("cells")), sorted(out.value.get("defined_names"))) if out.end == "return" and _is_model(out.value) else out.value!r}: '
               'the name and the cell it is bound to must be part of the extracted model')
    ctx.floor(4, 'range terms, blank references and names')


def rule_3(ctx):
    mm = ctx.mod('model')
    fn = mm.func('ModelCompiler.extract')
    S = 'Sheet1!'
    named = _cell(S + 'N1', [S + 'A1'])
    cells = {S + 'A1': _cell(S + 'A1'), S + 'B1': _cell(S + 'B1', [S + 'A1']), S + 'N1': named, S + 'C1': _cell(S + 'C1', [S + 'D1']),
             S + 'D1': _cell(S + 'D1')}
    rng = Rec(cls='pkg:xltypes:XLRange', cells=[[S + 'A1'], [S + 'B1']], name='rng', address_str=S + 'A1:B1')
    before_keys = set(cells)
    before_ids = {k: id(v) for k, v in cells.items()}
    before_ranges = set()
    model, out = _run_extract(ctx, cells, {'nm': named, 'rng': rng}, [S + 'C1', 'nm', 'rng'])
    if out.end != 'return' or not _is_model(out.value):
        raise Unmodelled(f'extract on the aliasing witness ends in {out.end} {out.value!r}')
    ext = out.value
    shared = [k for k, v in ext.get('cells').items() if any(v is o for o in cells.values())]
    ctx.expect(not shared, fn, 'extracted cells are copies',
               f'the extracted model holds the very cell objects of the original for {shared}: set_cell_value / evaluation on one model '
               'changes the other')
    shared_f = [k for k, v in ext.get('cells').items() if isinstance(v, Rec) and v.f.get('formula') is not None
                and any(v.f['formula'] is o.f.get('formula') for o in cells.values())]
    ctx.expect(not shared_f, fn, 'extracted formulas are copies', f'formula objects are shared with the original for {shared_f}')
    shared_n = [k for k, v in ext.get('defined_names').items() if v is named or v is rng]
    ctx.expect(not shared_n, fn, 'extracted defined names are copies', f'defined-name objects are shared with the original: {shared_n}')
    ctx.expect(set(model.get('cells')) == before_keys and all(id(model.get('cells')[k]) == before_ids[k] for k in before_keys)
               and set(model.get('defined_names')) == {'nm', 'rng'} and set(model.get('ranges')) == before_ranges and not model.get('formulae')
               and model.get('built') == 0, fn, 'the original model is left unchanged',
               'extract() adds, removes or replaces entries of the original model')
    ctx.expect({'nm', 'rng'} <= set(ext.get('defined_names')) and {S + 'N1', S + 'A1', S + 'B1', S + 'C1', S + 'D1'} <= set(ext.get('cells')), fn,
               'focused names and their cells are extracted',
               f'focused defined names / their cells are missing: names {sorted(ext.get("defined_names"))}, cells {sorted(ext.get("cells"))}')
    ctx.floor(5, 'aliasing witnesses')


def rule_4(ctx):
    mm = ctx.mod('model')
    fn = mm.func('ModelCompiler.extract')
    S = 'Sheet1!'
    cells = {S + 'A1': _cell(S + 'A1'), S + 'B1': _cell(S + 'B1', [S + 'A1'])}
    model, out = _run_extract(ctx, cells, {}, [S + 'B1', 'unknown', 42])
    ok = out.end == 'return' and _is_model(out.value)
    ctx.expect(ok, fn, 'extract returns the extracted model', f'extract() ends in {out.end} {out.value!r}')
    if ok:
        ctx.expect(out.value.get('built') == 1, fn, 'extracted model is compiled', 'the extracted model is returned without compiled formulas')
        ctx.expect(S + 'B1' in out.value.get('cells'), fn, 'every focus entry is visited', 'a focused cell is missing from the extracted model')
    ctx.floor(2, 'focus handling facts')


def rule_5(ctx):
    """After extraction the XLCell held by defined_names and the one in the cells map are *separate* deep copies, so input
    changes applied to both models agree only if set/get go through the cells map (shared with C04.4)."""
    from . import c04
    c04.rule_4(ctx)


def rule_6(ctx):
    """extract() follows formula.terms: they must name the formula's own precedents (own text, own sheet) - shared with C03.1."""
    from . import corelemma
    corelemma.rule_formula_per_sheet(ctx)
    ctx.floor(1, 'formula terms')


EXTRACT_SHEETS = {
    'Calc': {'A1': 1, 'A2': 100, 'B1': '=A1+1', 'C1': '=B1*2', 'D1': '=SUM(B1:C1)+A2', 'E1': '=D1-C1', 'F1': '=rate*2', 'F2': '=Rate*2',
             'F3': '=IF(total>20,RATE,-1)', 'G1': '=SUM(block)+$A$1', 'G2': '=SUM(Data!B1:B3)', 'G3': '=F2+G1+E1', 'H1': '=Data!C1+A1', 'H2': '=Z9+A1',
             # range members that are zero / FALSE / 0.0 are values, not blanks
             'J1': 0, 'J2': 4, 'J3': 8, 'K1': False, 'K2': 0.0, 'K3': True, 'I1': '=AVERAGE(J1:J4)', 'I2': '=COUNT(J1:J4)+COUNTA(K1:K4)', 'I3': '=AND(K1:K3)',
             'I4': '=MIN(J1:J3)+COUNT(K2:K2)',
             # cells of another sheet that the workbook does not store are blanks in both models
             'H3': '=A1+Other!C5', 'H4': '=IF(Other!D4=0,A2,A1)', 'H5': '=H3*10', 'H6': "=SUM(Other!E7:F8)+A1"},
    'Other': {'B1': 0.5},
    'Data': {'B1': 4, 'B2': 6, 'B3': 11, 'C1': '=B1*B2', 'C2': '=SUM(B1:B3)'},
}
EXTRACT_NAMES = {'rate': 'Data!$B$2', 'total': 'Data!$C$2', 'block': 'Data!$B$1:$B$3'}
EXTRACT_FOCI = [['Calc!E1'], ['Calc!F1'], ['Calc!F2'], ['Calc!F3'], ['Calc!G1'], ['Calc!G3'], ['Calc!H1', 'Calc!H2'], ['rate', 'Calc!G2'], ['Calc!C1', 'total'],
                ['Calc!I1', 'Calc!I2'], ['Calc!I3', 'Calc!I4'], ['Calc!H3'], ['Calc!H4', 'Calc!H5'], ['Calc!H6']]
EXTRACT_EDITS = [('Calc!A1', 5), ('Data!B2', 60), ('Data!B1', -4), ('Calc!J2', 0), ('Calc!B1', 100), ('Data!C2', 7)]      # the last two overwrite formula cells


def rule_7(ctx):
    """A witness workbook with two sheets, chains, ranges, defined names for cells and for a range (also spelt in another case),
    loaded, compiled and evaluated as written; for every focus list ModelCompiler.extract (as written) is evaluated next to the
    full model: each focused cell / name has the same value in both, before and after the same input changes were applied to
    both; and the full model is unchanged by the extraction."""
    from . import workbook as W
    from . import scenarios as S
    anchor = ctx.mod('model').func('ModelCompiler.extract')
    n = 0
    foci = EXTRACT_FOCI if ctx.tier != 'quick' else EXTRACT_FOCI[:9:2] + [EXTRACT_FOCI[3]] + EXTRACT_FOCI[9:]
    for focus in foci:
        full = W.Workbook(ctx, sheets=EXTRACT_SHEETS, names=EXTRACT_NAMES)
        before = S.constants_snapshot(full)
        for a in focus:         # the usual life of a model: evaluated before it is extracted from
            full.value(a)
        sub = full.extracted(focus)
        after = S.constants_snapshot(full)
        n += 1
        ctx.expect(before == after, anchor, f'extraction of {focus} leaves the original model unchanged',
                   f'cells / formulas / names of the full model differ after extract({focus})')
        trail = 'no change'
        for step in [None] + EXTRACT_EDITS:
            if step is not None:
                full.set(step[0], step[1])
                sub.set(step[0], step[1])
                trail = f'{trail}; {step[0]}={step[1]}' if trail != 'no change' else f'{step[0]}={step[1]}'
            for a in focus:
                vf, vs = full.value(a), sub.value(a)
                n += 1
                ctx.expect(S.same(vf, vs), anchor, f'focus {focus}: {a} after {trail}',
                           f'{a} is {vf!r} in the full model and {vs!r} in the model extracted for {focus} (after {trail}): the extracted model '
                           'must hold everything the focus depends on - cells, ranges, names, however they are spelt in the formulas')
    # the usual life of a model before it is extracted from: edited and calculated several times; then the same edit on both
    # models before the extracted one has calculated anything
    for focus in (['Calc!G1'], ['rate', 'Calc!G2'], ['Calc!I1', 'Calc!I2'], ['Calc!D1', 'Calc!E1']):
        for pre in (1, 2):
            full = W.Workbook(ctx, sheets=EXTRACT_SHEETS, names=EXTRACT_NAMES)
            for step in EXTRACT_EDITS[:pre]:
                full.set(step[0], step[1])
                for a in focus:
                    full.value(a)
            sub = full.extracted(focus)
            later = [('Data!B3', 110), ('Calc!J1', 6), ('Calc!A2', -7)]
            trail = f'{pre} edit(s) and calculations before the extraction'
            for step in later:
                full.set(step[0], step[1])
                sub.set(step[0], step[1])
                trail = f'{trail}; {step[0]}={step[1]} on both'
                for a in focus:
                    vf, vs = full.value(a), sub.value(a)
                    n += 1
                    ctx.expect(S.same(vf, vs), anchor, f'focus {focus}: {a} after {trail}',
                               f'{a} is {vf!r} in the full model and {vs!r} in the model extracted for {focus} (after {trail})')
    # a formula that was switched off (XLFormula.evaluate = False: the stored value stands) is switched off in the extracted model too
    for focus in (['Calc!B1'], ['Calc!E1'], ['Calc!D1', 'Calc!C1']):
        full = W.Workbook(ctx, sheets=EXTRACT_SHEETS, names=EXTRACT_NAMES)
        cell = full.model.f['cells']['Calc!B1']
        cell.f['formula'].f['evaluate'] = False
        cell.f['value'] = 40
        sub = full.extracted(focus)
        for a in focus:
            vf, vs = full.value(a), sub.value(a)
            n += 1
            ctx.expect(S.same(vf, vs), anchor, f'focus {focus}: {a} with the formula of Calc!B1 switched off',
                       f'{a} is {vf!r} in the full model and {vs!r} in the model extracted for {focus} when Calc!B1 holds the value 40 and its formula is not to be evaluated')
    ctx.floor(64, 'extracted-model evaluations')


RULES = [
    ('C13.1', 'dependency closure of extract', rule_1),
    ('C13.2', 'range terms are not looked up as cells; ranges populated', rule_2),
    ('C13.3', 'no aliasing with the original, original unchanged', rule_3),
    ('C13.4', 'focus handling and compilation', rule_4),
    ('C13.5', 'input changes reach the cells map in both models (shared with C04.4)', rule_5),
    ('C13.6', 'the terms extract() follows are those of the formula itself (shared with C03.1)', rule_6),
    ('C13.7', 'witness workbook: full and extracted model agree for every focus, before and after the same edits', rule_7),
]
