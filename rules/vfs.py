"""A file system in memory for the persistence rules: names -> bytes, descriptors, file objects with a position - the semantics of
builtin open / os.open / os.fdopen / os.replace / gzip.GzipFile / gzip.open that decide whether what is read back is what was
written last (truncation, append, exclusive creation, positions). Real bytes throughout; gzip members are produced and read by the
standard library's own gzip on those bytes (a library model, nothing of the package is run)."""
import gzip as _gzip
import io as _io
import json as _json
import os as _os
import zlib as _zlib

from xlsa.consteval import Ref
from xlsa.guards import ExcRaised, PyModel, Unmodelled


def _raise(name):
    raise ExcRaised(Ref('builtin:' + name))


class VFile(PyModel):
    """A binary (or text) file object over one entry of the file system."""

    def __init__(self, fs, name, readable, writable, append=False, text=False, fd=None):
        self.fs, self.name, self.readable, self.writable, self.append, self.text, self.fd = fs, name, readable, writable, append, text, fd
        self.pos = len(fs.files[name]) if append else 0
        self.closed = False
        self.mode = ('r' if readable and not writable else 'w') + ('' if text else 'b')

    def _check(self):
        if self.closed:
            _raise('ValueError')

    def write(self, data):
        self._check()
        if not self.writable:
            raise ExcRaised(Ref('ext:io.UnsupportedOperation'))
        if self.text:
            if not isinstance(data, str):
                _raise('TypeError')
            data = data.encode('utf-8')
        elif isinstance(data, str) or not isinstance(data, (bytes, bytearray, memoryview)):
            if isinstance(data, str):
                _raise('TypeError')
            raise Unmodelled(f'file.write({type(data).__name__})')
        data = bytes(data)
        buf = self.fs.files[self.name]
        if self.append:
            self.pos = len(buf)
        if self.pos > len(buf):
            buf.extend(b'\0' * (self.pos - len(buf)))
        buf[self.pos:self.pos + len(data)] = data
        self.pos += len(data)
        self.fs.log.append(('write', self.name, len(data)))
        return len(data)

    def read(self, n=-1):
        self._check()
        if not self.readable:
            raise ExcRaised(Ref('ext:io.UnsupportedOperation'))
        buf = self.fs.files[self.name]
        end = len(buf) if n is None or n < 0 else min(len(buf), self.pos + n)
        data = bytes(buf[self.pos:end])
        self.pos = max(self.pos, end)
        self.fs.log.append(('read', self.name, len(data)))
        if self.text:
            try:
                return data.decode('utf-8')
            except UnicodeDecodeError:
                _raise('UnicodeDecodeError')
        return data

    def seek(self, off, whence=0):
        self._check()
        base = {0: 0, 1: self.pos, 2: len(self.fs.files[self.name])}[whence]
        self.pos = max(0, base + off)
        return self.pos

    def tell(self):
        return self.pos

    def truncate(self, size=None):
        self._check()
        size = self.pos if size is None else size
        buf = self.fs.files[self.name]
        if size < len(buf):
            del buf[size:]
        else:
            buf.extend(b'\0' * (size - len(buf)))
        return size

    def flush(self):
        self._check()

    def fileno(self):
        if self.fd is None:
            self.fd = self.fs._new_fd(self.name, self)
        return self.fd

    def close(self):
        if not self.closed:
            self.closed = True
            if self.fd is not None:
                self.fs.fds.pop(self.fd, None)

    def __enter__(self):
        self._check()
        return self

    def __exit__(self, *exc):
        self.close()
        return False


class _Adapter(_io.RawIOBase):
    """What the standard gzip module sees of a VFile."""

    def __init__(self, vf):
        _io.RawIOBase.__init__(self)
        self.vf = vf

    def readable(self):
        return self.vf.readable

    def writable(self):
        return self.vf.writable

    def seekable(self):
        return True

    def write(self, data):
        return self.vf.write(bytes(data))

    def readinto(self, b):
        data = self.vf.read(len(b))
        b[:len(data)] = data
        return len(data)

    def seek(self, off, whence=0):
        return self.vf.seek(off, whence)

    def tell(self):
        return self.vf.tell()


class VGzip(PyModel):
    """gzip.GzipFile / gzip.open over the file system: one member written on close, all members read on read()."""

    def __init__(self, fs, filename=None, mode=None, compresslevel=9, fileobj=None, mtime=None):
        self.fs = fs
        if fileobj is not None and not isinstance(fileobj, VFile):
            raise Unmodelled(f'GzipFile(fileobj={fileobj!r})')
        if mode is None:
            mode = fileobj.mode if fileobj is not None else 'rb'
        if 't' in mode or 'U' in mode:
            raise Unmodelled(f'gzip mode {mode!r}')
        self.writing = mode[0] in 'wax'
        self.own = fileobj is None
        self.under = fileobj if fileobj is not None else fs.open(filename, mode.replace('b', '') + 'b')
        if self.writing and not self.under.writable:
            raise ExcRaised(Ref('builtin:OSError'))
        self.level = compresslevel
        self.chunks = []
        self.closed = False
        self.name = filename

    def write(self, data):
        if self.closed:
            _raise('ValueError')
        if not self.writing:
            raise ExcRaised(Ref('builtin:OSError'))
        if not isinstance(data, (bytes, bytearray, memoryview)):
            _raise('TypeError')
        self.chunks.append(bytes(data))
        return len(data)

    def read(self, n=-1):
        if self.closed:
            _raise('ValueError')
        if self.writing:
            raise ExcRaised(Ref('builtin:OSError'))
        try:
            with _gzip.GzipFile(fileobj=_Adapter(self.under), mode='rb') as gz:
                return gz.read() if n is None or n < 0 else gz.read(n)
        except (_gzip.BadGzipFile, OSError):
            raise ExcRaised(Ref('ext:gzip.BadGzipFile'))
        except EOFError:
            _raise('EOFError')
        except _zlib.error:
            raise ExcRaised(Ref('ext:zlib.error'))

    def flush(self, *a):
        pass

    def close(self):
        if self.closed:
            return
        self.closed = True
        if self.writing:
            self.under.write(_gzip.compress(b''.join(self.chunks), self.level, mtime=0))
        if self.own:
            self.under.close()

    def __enter__(self):
        return self

    def __exit__(self, *exc):
        self.close()
        return False


class VFS:
    def __init__(self):
        self.files = {}
        self.fds = {}
        self.next_fd = 3
        self.log = []

    # -- builtin open -----------------------------------------------------------------------------------------------
    def open(self, name, mode='r', *a, **k):
        if isinstance(name, int) and not isinstance(name, bool):
            return self.fdopen(name, mode)
        if not isinstance(name, str) or not isinstance(mode, str):
            raise Unmodelled(f'open({name!r}, {mode!r})')
        kind = [c for c in mode if c in 'rwax']
        if len(kind) != 1 or set(mode) - set('rwaxbt+'):
            _raise('ValueError')
        kind = kind[0]
        plus = '+' in mode
        self.log.append(('open', name, mode))
        if kind == 'r':
            if name not in self.files:
                _raise('FileNotFoundError')
        elif kind == 'w':
            self.files[name] = bytearray()
        elif kind == 'x':
            if name in self.files:
                _raise('FileExistsError')
            self.files[name] = bytearray()
        else:
            self.files.setdefault(name, bytearray())
        return VFile(self, name, readable=kind == 'r' or plus, writable=kind != 'r' or plus, append=kind == 'a', text='b' not in mode)

    # -- os level ---------------------------------------------------------------------------------------------------
    def _new_fd(self, name, vf=None, flags=0):
        fd = self.next_fd
        self.next_fd += 1
        self.fds[fd] = (name, flags, vf)
        return fd

    def os_open(self, name, flags, mode=0o777, *a, **k):
        if not isinstance(name, str) or not isinstance(flags, int):
            raise Unmodelled(f'os.open({name!r}, {flags!r})')
        self.log.append(('os.open', name, flags))
        if name in self.files:
            if flags & _os.O_CREAT and flags & _os.O_EXCL:
                _raise('FileExistsError')
        elif flags & _os.O_CREAT:
            self.files[name] = bytearray()
        else:
            _raise('FileNotFoundError')
        acc = flags & (_os.O_WRONLY | _os.O_RDWR)
        if flags & _os.O_TRUNC and acc:
            del self.files[name][:]
        return self._new_fd(name, None, flags)

    def fdopen(self, fd, mode='r', *a, **k):
        if fd not in self.fds:
            _raise('OSError')
        name, flags, vf = self.fds[fd]
        acc = flags & (_os.O_WRONLY | _os.O_RDWR)
        want_write = any(c in mode for c in 'wax+')
        want_read = 'r' in mode or '+' in mode
        if (want_write and not acc) or (want_read and acc == _os.O_WRONLY):
            _raise('OSError')         # the mode must agree with the access mode of the descriptor
        out = VFile(self, name, readable=acc != _os.O_WRONLY, writable=bool(acc), append=bool(flags & _os.O_APPEND) or 'a' in mode,
                    text='b' not in mode, fd=fd)
        self.fds[fd] = (name, flags, out)
        return out

    def os_write(self, fd, data):
        if fd not in self.fds:
            _raise('OSError')
        name, flags, vf = self.fds[fd]
        if vf is None:
            vf = self.fdopen(fd, 'wb' if flags & _os.O_WRONLY else 'r+b')
        return vf.write(data)

    def os_close(self, fd):
        if fd not in self.fds:
            _raise('OSError')
        name, flags, vf = self.fds.pop(fd)
        if vf is not None:
            vf.closed = True

    def replace(self, src, dst, *a, **k):
        if src not in self.files:
            _raise('FileNotFoundError')
        self.files[dst] = self.files.pop(src)
        self.log.append(('replace', src, dst))

    def remove(self, name, *a, **k):
        if name not in self.files:
            _raise('FileNotFoundError')
        del self.files[name]

    def exists(self, name):
        return name in self.files

    def getsize(self, name):
        if name not in self.files:
            _raise('FileNotFoundError')
        return len(self.files[name])

    def chmod(self, *a, **k):
        return None

    def models(self):
        return {
            'builtin:open': self.open, 'ext:io.open': self.open,
            'ext:gzip.GzipFile': lambda *a, **k: VGzip(self, *a, **k),
            'ext:gzip.open': lambda filename, mode='rb', compresslevel=9, **k: VGzip(self, filename, mode, compresslevel),
            'ext:os.open': self.os_open, 'ext:os.fdopen': self.fdopen, 'ext:os.write': self.os_write, 'ext:os.close': self.os_close,
            'ext:os.replace': self.replace, 'ext:os.rename': self.replace, 'ext:os.remove': self.remove, 'ext:os.unlink': self.remove,
            'ext:os.path.exists': self.exists, 'ext:os.path.isfile': self.exists, 'ext:os.path.getsize': self.getsize,
            'ext:os.chmod': self.chmod, 'ext:os.fchmod': self.chmod, 'ext:os.fsync': lambda fd: None,
            'ext:os.path.splitext': _os.path.splitext, 'ext:os.path.basename': _os.path.basename, 'ext:os.path.dirname': _os.path.dirname,
            'ext:os.path.join': _os.path.join, 'ext:os.fspath': lambda p: p if isinstance(p, (str, bytes)) else _raise('TypeError'),
        }


class Documents:
    """jsonpickle.encode / decode as a registry: encode(obj) is a JSON text that names the object and is as long as the object is
    large; decode(text) accepts exactly one well-formed JSON document and hands back the object it names."""

    def __init__(self):
        self.docs = []
        self.decoded = []

    def size(self, obj):
        from xlsa.guards import Rec
        if isinstance(obj, dict):
            return 1 + sum(self.size(k) + self.size(v) for k, v in obj.items())
        if isinstance(obj, (list, tuple, set)):
            return 1 + sum(self.size(x) for x in obj)
        if isinstance(obj, Rec):
            return 1 + sum(self.size(v) for k, v in obj.f.items() if k not in ('ast',))
        return 1

    def snapshot(self, obj, depth=0, seen=None):
        """What the document holds: a deep copy of the plain structure at encode time (later changes of the model do not change
        a file already written)."""
        from xlsa.guards import Rec
        seen = {} if seen is None else seen
        if id(obj) in seen:
            return seen[id(obj)]
        if isinstance(obj, dict):
            out = {}
            seen[id(obj)] = out
            for k, v in obj.items():
                out[k] = self.snapshot(v, depth + 1, seen)
            return out
        if isinstance(obj, list):
            out = []
            seen[id(obj)] = out
            out.extend(self.snapshot(x, depth + 1, seen) for x in obj)
            return out
        if isinstance(obj, tuple):
            return tuple(self.snapshot(x, depth + 1, seen) for x in obj)
        if isinstance(obj, Rec):
            out = Rec()
            seen[id(obj)] = out
            for k, v in obj.f.items():
                out.f[k] = self.snapshot(v, depth + 1, seen)
            return out
        return obj

    def encode(self, obj, **kw):
        self.docs.append((self.snapshot(obj), dict(kw)))
        return _json.dumps({'document': len(self.docs) - 1, 'padding': 'x' * (8 * self.size(obj))})

    def decode(self, data, **kw):
        if isinstance(data, (bytes, bytearray)):
            try:
                data = bytes(data).decode('utf-8')
            except UnicodeDecodeError:
                _raise('UnicodeDecodeError')
        if not isinstance(data, str):
            raise Unmodelled(f'jsonpickle.decode({type(data).__name__})')
        try:
            doc = _json.loads(data)
        except ValueError:
            raise ExcRaised(Ref('ext:json.decoder.JSONDecodeError'))
        if not isinstance(doc, dict) or 'document' not in doc:
            raise Unmodelled('jsonpickle.decode of a document this registry did not encode')
        obj, enc_kw = self.docs[doc['document']]
        self.decoded.append((doc['document'], dict(kw), enc_kw))
        return self.snapshot(obj)

    def models(self):
        return {'ext:jsonpickle.encode': self.encode, 'ext:jsonpickle.decode': self.decode}
