"""C05 - evaluation is deterministic, idempotent, order-independent, no accumulation (structural part)."""
import ast

from xlsa import Unmodelled, AnchorMissing
from xlsa.load import walk_local, names_in, dotted, Module
from xlsa import flow
from .common import func_params, value_returns, raise_class, is_excel_error_ref
from . import evalcore, c04

PROPERTY = 'C05'
EXPLANATION = (
    'Decided from source: (C05.1) the write-set of the evaluation path: only the computed-value fields of formula '
    'cells and ranges, per-call context fields and the paired evaluation stack are written; never formula texts, '
    'defined names, the key set of the cells map or constant cells; (C05.2) nothing on the path retains objects '
    'across evaluations: no memoising decorator on a method or unbounded cache, no memo on a long-lived object '
    '(shares C04.2), no module-level exception instance that is raised repeatedly (its traceback chain grows), no '
    'module-level container that grows outside import-time registration; (C05.3) sources of nondeterminism '
    '(random, clock, uuid, id/hash, environment, iteration over sets) are reachable only through RAND, RANDBETWEEN, '
    'NOW, TODAY or are identity uses; (C05.4) no shared mutable global state: each evaluator copies the function '
    'table in its constructor body, the decimal rounding mode is only changed inside a local context.'
    ' (C05.2) also: a memoised plain function is keyed by arguments that are provably plain strings at every call site (1 == 1.0 == True, and the value classes compare by Excel semantics with equal hashes: whichever key arrives first would decide later results).'
    ' (C05.6) witness workbook interpreted end to end: each cell alone vs all cells in written order twice / reversed / on a second evaluator, evaluators with namespaces of their own, constants and formula texts untouched, a second model with the same formula texts in the same process; (C05.2) also class-level containers grown on the evaluation path and raise of an exception object taken out of a container.'
    ' (C05.6) also the rounding family next to operands that cannot be rounded, array-valued formula cells, and the steady-state footprint: module-level values, class attributes, default-argument objects, the model and its evaluators have the same size after round 2 and round 3 of the same evaluations.')
NOT_DECIDED = 'resident-set measurements; equality of values across evaluation orders (follows only under the model)'
TRUSTED = ["default argument values are created once per process (Python's def-time evaluation), the decimal context is per process", 'call-graph restricted to evaluator.py, ast_nodes.py and the registered functions', 'workbook scenarios: pandas storage of range arrays as row-major rows, numpy on Python numbers (IEEE results, 64-bit integer wrap), dateutil.parser.parse rejecting texts that are no dates, openpyxl address arithmetic, inspect.signature built from the FunctionDef', 'functools.lru_cache keyed by hash/equality of the arguments']

FORBIDDEN_ATTRS = {'formula', 'formulae', 'defined_names', 'address', 'terms', 'tokens', 'ast', 'cells',
                   'sheet_name', 'address_str', 'name'}
MEMO_DECOS = c04.MEMO_DECOS


def rule_1(ctx):
    per_call = evalcore.context_classes(ctx)
    n = 0
    for m, qual, fn in evalcore.core_functions(ctx):
        if qual.endswith('.__init__') or qual.endswith('.__eq__'):
            continue
        cref = evalcore.class_of_method(m, qual)
        is_eval_path = m.name == 'evaluator' or qual.endswith('.eval') or qual.endswith('.eval_cell') \
            or cref in per_call or qual.split('.')[-1].startswith('_')
        if not is_eval_path:
            continue
        if qual in ('Evaluator.set_cell_value',):
            continue
        for node in walk_local(fn):
            targets = []
            if isinstance(node, ast.Assign):
                targets = node.targets
            elif isinstance(node, (ast.AugAssign, ast.AnnAssign)):
                targets = [node.target]
            elif isinstance(node, ast.Delete):
                targets = node.targets
            for t in targets:
                for x in ([t] if not isinstance(t, ast.Tuple) else t.elts):
                    if isinstance(x, ast.Attribute):
                        n += 1
                        own = evalcore.self_attr(x)
                        if own is not None and cref in per_call:
                            ctx.ok(x, f'{qual}: store self.{own} (per-call context field)')
                            continue
                        if x.attr in FORBIDDEN_ATTRS:
                            ctx.bad(x, f'{qual}: store `{ast.unparse(x)[:50]}`',
                                    f'the evaluation path overwrites `.{x.attr}` of a model object: evaluation must '
                                    'only write computed values')
                            continue
                        if x.attr in ('value', 'need_update'):
                            is_range = c04._derives_from_map(x.value, fn, 'ranges')
                            if is_range:
                                ctx.ok(x, f'{qual}: store range value')
                                continue
                            from_cells = c04._derives_from_cells(x.value, fn)
                            sc = evalcore.class_of_method(m, qual)
                            ex1 = evalcore.site_excluded_for(ctx, m, fn, node, 'no formula', sc)
                            ex2 = evalcore.site_excluded_for(ctx, m, fn, node, 'formula not to be evaluated', sc)
                            if ex1 is None or ex2 is None:
                                # the guards of this spelling cannot be evaluated on an abstract cell: that constant cells keep their
                                # values is then decided by the snapshot of C05.6 alone (the whole workbook before / after evaluation)
                                ctx.ok(x, f'{qual}: store of a cell .{x.attr} (guard spelling not evaluated; see C05.6)')
                                continue
                            after_guard = ex1 is True and ex2 is True
                            ctx.expect(from_cells and after_guard, x, f'{qual}: store of a cell .{x.attr}',
                                       'a cell value is written on a path that is not restricted to formula cells taken '
                                       'from the cells map: constant cells could be changed by an evaluation')
                            continue
                        ctx.ok(x, f'{qual}: store `{ast.unparse(x)[:40]}`')
                    elif isinstance(x, ast.Subscript):
                        n += 1
                        base = x.value
                        if isinstance(base, ast.Attribute) and base.attr in ('cells', 'defined_names', 'formulae', 'ranges') \
                                and not evalcore.self_attr(base) == '_cell_values':
                            owner_per_call = evalcore.self_attr(base) is not None and cref in per_call
                            ctx.expect(owner_per_call, x, f'{qual}: store into `{ast.unparse(base)[:40]}[...]`',
                                       f'the evaluation path changes the key set / entries of `{base.attr}`: evaluation must '
                                       'not add, replace or delete cells, names or formulae')
                        else:
                            ctx.ok(x, f'{qual}: store `{ast.unparse(x)[:40]}`')
    ctx.floor(5, 'attribute/subscript stores on the evaluation path')


def _memo_findings(ctx, modules):
    """Generator of (node, construct, why) for immortal caches; used on the repo and on the control snippet."""
    for m in modules:
        for qual, fn in m.funcs.items():
            for d in fn.decorator_list:
                target = d.func if isinstance(d, ast.Call) else d
                ref = ctx.res.resolve(target, m) if m.name in ctx.res.imports else _ctl_resolve(target)
                if ref not in MEMO_DECOS:
                    continue
                is_method = bool(fn.args.args) and fn.args.args[0].arg in ('self', 'cls') and '.' in qual
                unbounded = ref.endswith('.cache')
                if isinstance(d, ast.Call):
                    for kw in d.keywords:
                        if kw.arg == 'maxsize' and isinstance(kw.value, ast.Constant) and kw.value.value is None:
                            unbounded = True
                    if d.args and isinstance(d.args[0], ast.Constant) and d.args[0].value is None:
                        unbounded = True
                if is_method and ref.endswith('cached_property'):
                    continue   # stored on the instance, dies with it
                if is_method or unbounded:
                    yield (fn, f'memoising decorator on {qual}',
                           f'{ref[4:]} lives on the function object (class level): it keeps every argument object '
                           f'({"including self" if is_method else "keys"}) alive for the life of the process'
                           f'{", without bound" if unbounded else ""}')


STR_METHODS = {'strip', 'lstrip', 'rstrip', 'upper', 'lower', 'title', 'format', 'join', 'replace', 'removeprefix', 'removesuffix',
               'zfill', 'casefold', 'capitalize'}


def _str_kind(expr, fn):
    """Is the expression provably a plain str (the only key kind whose equality is exactly equality of what is computed from it)?"""
    if isinstance(expr, ast.Constant):
        return isinstance(expr.value, str)
    if isinstance(expr, ast.JoinedStr):
        return True
    if isinstance(expr, ast.Call):
        if isinstance(expr.func, ast.Name) and expr.func.id == 'str':
            return True
        if isinstance(expr.func, ast.Attribute) and expr.func.attr in STR_METHODS:
            return True
        return False
    if isinstance(expr, ast.BinOp) and isinstance(expr.op, (ast.Add, ast.Mod)):
        return _str_kind(expr.left, fn) and (isinstance(expr.op, ast.Mod) or _str_kind(expr.right, fn))
    if isinstance(expr, ast.Name) and fn is not None:
        for a in fn.args.posonlyargs + fn.args.args + fn.args.kwonlyargs:
            if a.arg == expr.id:
                return isinstance(a.annotation, ast.Name) and a.annotation.id == 'str'
        binds = [x for x in walk_local(fn) if isinstance(x, ast.Assign) and any(isinstance(t, ast.Name) and t.id == expr.id for t in x.targets)]
        return bool(binds) and all(_str_kind(b.value, fn) for b in binds)
    return False


def _bounded_string_key(node, fn):
    """A store `container[key] = value` / `container.setdefault(key, value)` whose key is provably a plain string or a tuple of plain
    strings: the container holds at most one entry per distinct text of the model - a bounded cache, not growth per evaluation.
    (Whether the key says enough is decided by the scenario rules, not here.)"""
    def plain(k):
        if isinstance(k, ast.Tuple):
            return bool(k.elts) and all(plain(e) for e in k.elts)
        return _str_kind(k, fn)
    if isinstance(node, ast.Assign):
        subs = [t for t in node.targets if isinstance(t, ast.Subscript)]
        return bool(subs) and all(plain(t.slice) for t in subs)
    if isinstance(node, ast.Call) and isinstance(node.func, ast.Attribute) and node.func.attr == 'setdefault' and node.args:
        return plain(node.args[0])
    return False


def _value_kind_evidence(ctx, arg, fn):
    """Positive evidence that an argument can be a spreadsheet value (a number, a boolean, an instance of a value class) - the kinds
    whose equality is coarser than what is computed from them (1 == 1.0 == True, Text("") == Number(0))."""
    if isinstance(arg, ast.Constant):
        return not isinstance(arg.value, str)
    if isinstance(arg, ast.Attribute) and arg.attr == 'value':
        return True
    if isinstance(arg, ast.Name) and fn is not None:
        for a in fn.args.posonlyargs + fn.args.args + fn.args.kwonlyargs:
            if a.arg == arg.id and a.annotation is not None and 'Xl' in ast.unparse(a.annotation):
                return True
        for x in walk_local(fn):
            if isinstance(x, ast.Call) and isinstance(x.func, ast.Name) and x.func.id == 'isinstance' and len(x.args) == 2 \
                    and isinstance(x.args[0], ast.Name) and x.args[0].id == arg.id \
                    and any(isinstance(e, ast.Name) and e.id in ('int', 'float', 'bool', 'complex') for e in ast.walk(x.args[1])):
                return True
            if isinstance(x, ast.Assign) and any(isinstance(t, ast.Name) and t.id == arg.id for t in x.targets) and isinstance(x.value, ast.Call):
                callee = ast.unparse(x.value.func)
                if callee.endswith(('cast_from_native', '.cast')) or callee.rpartition('.')[2] in ('Number', 'Text', 'Boolean', 'Blank', 'DateTime'):
                    return True
            if isinstance(x, ast.Assign) and any(isinstance(t, ast.Name) and t.id == arg.id for t in x.targets) \
                    and isinstance(x.value, ast.Attribute) and x.value.attr == 'value':
                return True
    return False


def _memo_key_findings(ctx, modules):
    """(node, construct, why): memoised plain functions whose cache key is not provably a plain string. The cache compares keys with
    == and hash(): 1, 1.0 and True are ONE key, and the value classes of this package compare by Excel semantics (Text("") == Number(0),
    equal hashes), so whichever argument arrives first decides what later, different arguments get back."""
    mods = list(modules)
    for m in mods:
        for qual, fn in m.funcs.items():
            memo = None
            for d in fn.decorator_list:
                target = d.func if isinstance(d, ast.Call) else d
                ref = ctx.res.resolve(target, m) if m.name in ctx.res.imports else _ctl_resolve(target)
                if ref in MEMO_DECOS and not ref.endswith('cached_property'):
                    memo = (ref, d)
            if memo is None:
                continue
            typed = isinstance(memo[1], ast.Call) and any(k.arg == 'typed' and isinstance(k.value, ast.Constant) and k.value.value is True
                                                         for k in memo[1].keywords)
            params = [a for a in fn.args.posonlyargs + fn.args.args + fn.args.kwonlyargs if a.arg not in ('self', 'cls')]
            if fn.args.vararg or fn.args.kwarg:
                yield (fn, f'cache key of the memoised {qual}', f'{qual} is memoised on *args/**kwargs: the key kinds cannot be established')
                continue
            for idx, a in enumerate(params):
                if isinstance(a.annotation, ast.Name) and a.annotation.id == 'str':
                    continue
                # every call site must pass a plain string
                sites = []
                for om in mods:
                    for oq, ofn in om.funcs.items():
                        for c in flow.calls_in(ofn):
                            callee = c.func.id if isinstance(c.func, ast.Name) else (c.func.attr if isinstance(c.func, ast.Attribute) else None)
                            if callee == fn.name:
                                arg = c.args[idx] if len(c.args) > idx else next((k.value for k in c.keywords if k.arg == a.arg), None)
                                sites.append((ofn, arg))
                proven = bool(sites) and all(arg is not None and _str_kind(arg, ofn) for ofn, arg in sites)
                risky = [(_ofn, _arg) for _ofn, _arg in sites if _arg is not None and _value_kind_evidence(ctx, _arg, _ofn)]
                if not proven and not risky and sites:
                    continue        # keyed by objects of unknown kind (functions, nodes, ...): what the key confuses is decided by the scenarios
                if not proven:
                    yield (fn, f'cache key of the memoised {qual}: parameter {idx}',
                           f'{qual} is memoised ({memo[0][4:]}) and its parameter `{a.arg}` is not provably a plain string at every call '
                           f'site: numbers, booleans{"" if typed else " (1 == 1.0 == True share one cache slot)"} and the value classes of '
                           'this package (Text("") == Number(0) == Boolean(FALSE) with equal hashes) compare equal although the function '
                           'computes different results for them - what a cell gets depends on what was evaluated before it')


def _ctl_resolve(target):
    d = dotted(target)
    return {'lru_cache': 'ext:functools.lru_cache', 'functools.lru_cache': 'ext:functools.lru_cache',
            'cache': 'ext:functools.cache'}.get(d)


def _registration_functions(ctx):
    """Functions that run at import time as (part of) a decorator: the functions used as decorators anywhere in the package,
    the functions nested in them, and the methods they call on module-level containers."""
    out = set()
    for m in ctx.repo.modules.values():
        for node in ast.walk(m.tree):
            if isinstance(node, (ast.FunctionDef, ast.ClassDef)):
                for d in node.decorator_list:
                    target = d.func if isinstance(d, ast.Call) else d
                    ref = ctx.res.resolve(target, m) if isinstance(target, (ast.Name, ast.Attribute)) else None
                    om, fn = ctx.res.lookup(ref) if ref else (None, None)
                    if isinstance(fn, ast.FunctionDef):
                        out.add(fn)
                        for sub in ast.walk(fn):
                            if isinstance(sub, ast.FunctionDef):
                                out.add(sub)
    # methods invoked by attribute name from those functions (Functions.register)
    called = set()
    for fn in list(out):
        for c in ast.walk(fn):
            if isinstance(c, ast.Call) and isinstance(c.func, ast.Attribute):
                called.add(c.func.attr)
    for m in ctx.repo.modules.values():
        for qual, fn in m.funcs.items():
            if '.' in qual and fn.name in called and isinstance(fn._parent, ast.ClassDef) \
                    and any(ctx.res.resolve(b, m) in ('builtin:dict', 'builtin:list') for b in fn._parent.bases):
                out.add(fn)
    return out


CONTROL = '''
from functools import lru_cache
class K:
    @lru_cache(maxsize=None)
    def eval_cell(self, addr):
        return addr
'''


CONTROL_KEY = '''
import functools
@functools.lru_cache(maxsize=512)
def compile_it(criteria):
    return criteria
@functools.lru_cache(maxsize=64)
def unquote(name: str):
    return name.strip()
def parse(x):
    v = ExcelType.cast_from_native(x)
    return compile_it(v), unquote(str(x))
'''


_MUTATORS = {'append', 'extend', 'insert', 'add', 'update', 'setdefault', 'pop', 'popitem', 'remove', 'discard', 'clear', 'sort', 'reverse', 'appendleft'}
CONTROL_DEFAULT = '''
def collect(item, seen=[]):
    seen.append(item)
    return seen
def helper(values, acc):
    acc.extend(values)
def outer(values, acc={}, log=[]):
    helper(values, log)
    return len(values)
def fine(values, ignore=[]):
    return [v for v in values if v not in ignore]
'''


def _mutable_default_findings(ctx, modules):
    """(function node, construct, why) for every parameter whose default is a mutable object created once (a list / dict / set
    display or constructor call) and that the function - or a function of the package it hands the parameter to, one level deep -
    mutates in place: the object outlives the call, whatever is put into it stays for the life of the process."""
    def is_mutable_default(d):
        if isinstance(d, (ast.List, ast.Dict, ast.Set, ast.ListComp, ast.DictComp, ast.SetComp)):
            return True
        return isinstance(d, ast.Call) and isinstance(d.func, ast.Name) and d.func.id in ('list', 'dict', 'set', 'defaultdict', 'OrderedDict', 'deque', 'bytearray') \
            or (isinstance(d, ast.Call) and isinstance(d.func, ast.Attribute) and d.func.attr in ('defaultdict', 'OrderedDict', 'deque', 'Counter'))

    def mutations(fn, name):
        out = []
        rebound = False
        for n in walk_local(fn):
            if isinstance(n, ast.Call) and isinstance(n.func, ast.Attribute) and isinstance(n.func.value, ast.Name) and n.func.value.id == name \
                    and n.func.attr in _MUTATORS:
                out.append((n, f'{name}.{n.func.attr}(...)'))
            elif isinstance(n, ast.AugAssign) and isinstance(n.target, ast.Name) and n.target.id == name:
                out.append((n, f'{name} {type(n.op).__name__}= ...'))
            elif isinstance(n, (ast.Assign, ast.AugAssign, ast.Delete)):
                targets = n.targets if isinstance(n, (ast.Assign, ast.Delete)) else [n.target]
                for t in targets:
                    if isinstance(t, ast.Subscript) and isinstance(t.value, ast.Name) and t.value.id == name:
                        out.append((n, f'{name}[...] is assigned / deleted'))
        return out
    for m in modules:
        for qual, fn in m.funcs.items():
            a = fn.args
            pos = list(a.posonlyargs) + list(a.args)
            pairs = list(zip(pos[len(pos) - len(a.defaults):], a.defaults)) + [(p, d) for p, d in zip(a.kwonlyargs, a.kw_defaults) if d is not None]
            for prm, dflt in pairs:
                if not is_mutable_default(dflt):
                    continue
                found = mutations(fn, prm.arg)
                # handed on to a function of the package that mutates the corresponding parameter
                for c in walk_local(fn):
                    if not isinstance(c, ast.Call):
                        continue
                    tnode = None
                    if isinstance(c.func, ast.Name) and c.func.id in m.funcs:
                        tnode = m.funcs[c.func.id]
                    elif isinstance(c.func, ast.Attribute) and isinstance(c.func.value, ast.Name) and c.func.value.id in ('self', 'cls'):
                        tnode = m.funcs.get(f'{qual.rpartition(".")[0]}.{c.func.attr}')
                    elif isinstance(c.func, (ast.Name, ast.Attribute)):
                        try:
                            ref = ctx.res.resolve(c.func, m)
                        except KeyError:
                            ref = None
                        tnode = ctx.res.lookup(ref)[1] if ref and ref.startswith('pkg:') else None
                    if not isinstance(tnode, ast.FunctionDef):
                        continue
                    tparams = [x.arg for x in list(tnode.args.posonlyargs) + list(tnode.args.args)]
                    if tparams and tparams[0] in ('self', 'cls') and isinstance(c.func, ast.Attribute):
                        tparams = tparams[1:]
                    for i, arg in enumerate(c.args):
                        if isinstance(arg, ast.Name) and arg.id == prm.arg and i < len(tparams) and mutations(tnode, tparams[i]):
                            found.append((c, f'{prm.arg} is handed to {tnode.name}(), which changes its parameter {tparams[i]} in place'))
                    for k in c.keywords:
                        if isinstance(k.value, ast.Name) and k.value.id == prm.arg and k.arg in tparams and mutations(tnode, k.arg):
                            found.append((c, f'{prm.arg} is handed to {tnode.name}({k.arg}=...), which changes it in place'))
                for node, what in found[:1]:
                    yield fn, f'default argument object of {qual}({prm.arg}=...) is changed in place', \
                        (f'{qual} declares {prm.arg}={ast.unparse(dflt)} - one object created when the function is defined - and {what} (line {node.lineno}): '
                         'what a call puts into it is still there in every later call that leaves the argument out, in every evaluator and model of the process')


def rule_2(ctx):
    ctl0 = Module('_control0', 'selftest/_control0.py', CONTROL_DEFAULT)
    hits0 = sorted(c for _, c, _ in _mutable_default_findings(ctx, [ctl0]))
    if len(hits0) != 2:
        ctx.errors.append(f'C05.2: positive control (mutable default arguments changed in place) gives {hits0}')
    nd = 0
    for node, construct, why in _mutable_default_findings(ctx, ctx.repo.modules.values()):
        nd += 1
        ctx.bad(node, construct, why)
    defaults = sum(1 for m in ctx.repo.modules.values() for fn in m.funcs.values() for d in list(fn.args.defaults) + [k for k in fn.args.kw_defaults if k is not None])
    ctx.ok(ctx.mod('model').func('ModelCompiler.parse_archive'), f'{defaults} default argument values inspected, {nd} mutable ones changed in place',
           'no default argument object is changed in place')
    # positive control: the detector must still see the pinned tree's defect shape
    ctl = Module('_control', 'selftest/_control.py', CONTROL)
    hits = list(_memo_findings(ctx, [ctl]))
    if len(hits) != 1:
        ctx.errors.append('C05.2: positive control (lru_cache(maxsize=None) on a method) not detected')
    ctl2 = Module('_control2', 'selftest/_control2.py', CONTROL_KEY)
    if len(list(_memo_key_findings(ctx, [ctl2]))) != 1:
        ctx.errors.append('C05.2: positive control (memoised function keyed by a value object) not detected')
    n = 0
    for node, construct, why in _memo_findings(ctx, ctx.repo.modules.values()):
        n += 1
        ctx.bad(node, construct, why)
    for node, construct, why in _memo_key_findings(ctx, ctx.repo.modules.values()):
        n += 1
        ctx.bad(node, construct, why)
    # decorators inspected
    total = sum(len(fn.decorator_list) for m in ctx.repo.modules.values() for fn in m.funcs.values())
    ctx.ok(ctx.mod('evaluator').func('EvaluatorContext.eval_cell'), f'{total} decorators inspected, {n} memoising',
           'no immortal cache')
    # module-level exception instances that are raised
    for m in ctx.repo.modules.values():
        inst = {}
        for name, vals in m.assigns.items():
            v = vals[-1]
            if isinstance(v, ast.Call):
                ref = ctx.res.resolve(v.func, m)
                _, obj = ctx.res.lookup(ref) if ref else (None, None)
                if isinstance(obj, ast.ClassDef) and (is_excel_error_ref(ctx, ref) or any(
                        r == 'builtin:Exception' or r.endswith('Error') for r in ctx.res.base_refs(ref))):
                    inst[name] = ref
        for qual, fn in m.funcs.items():
            for r in flow.raises_of(fn):
                if isinstance(r.exc, (ast.Name, ast.Attribute)):
                    ref = ctx.res.resolve(r.exc, m)
                    if ref and ref.startswith('pkg:') and ref.count(':') == 2:
                        rm, rname = ref.split(':')[1:]
                        mod = ctx.repo.modules.get(rm)
                        tgt = None
                        if mod is not None and rname in mod.assigns:
                            v = mod.assigns[rname][-1]
                            if isinstance(v, ast.Call):
                                cref = ctx.res.resolve(v.func, mod)
                                _, obj = ctx.res.lookup(cref) if cref else (None, None)
                                if isinstance(obj, ast.ClassDef):
                                    tgt = cref
                        ctx.expect(tgt is None, r, f'raise of shared instance `{ast.unparse(r.exc)}` in {qual}',
                                   'a module-level exception instance is raised repeatedly: every raise appends frames to its '
                                   '__traceback__, which keeps the frames and their locals alive - memory grows with the '
                                   'number of evaluations')
    # module-level containers that grow outside registration
    reg_funcs = _registration_functions(ctx)
    for m in ctx.repo.modules.values():
        containers = {name for name, vals in m.assigns.items()
                      if isinstance(vals[-1], (ast.Dict, ast.List, ast.Set)) or (
                          isinstance(vals[-1], ast.Call) and ctx.res.resolve(vals[-1].func, m) in (
                              'builtin:dict', 'builtin:list', 'builtin:set', 'pkg:xlfunctions.xl:Functions',
                              'ext:collections.defaultdict'))}
        for qual, fn in m.funcs.items():
            locals_ = set(func_params(fn)) | flow.assigned_names(fn)
            for node in walk_local(fn):
                name = None
                if isinstance(node, ast.Call) and isinstance(node.func, ast.Attribute) \
                        and node.func.attr in ('append', 'add', 'update', 'extend', 'setdefault', 'register', 'insert') \
                        and isinstance(node.func.value, ast.Name):
                    name = node.func.value.id
                elif isinstance(node, ast.Assign) and any(isinstance(t, ast.Subscript) and isinstance(t.value, ast.Name) for t in node.targets):
                    name = next(t.value.id for t in node.targets if isinstance(t, ast.Subscript) and isinstance(t.value, ast.Name))
                if name and name in containers and name not in locals_:
                    registration = fn in reg_funcs
                    if not registration and _bounded_string_key(node, fn):
                        ctx.ok(node, f'{qual}: module-level `{name}` keyed by plain strings', 'entries are bounded by the distinct texts of the model')
                        continue
                    ctx.expect(registration, node, f'{qual} grows module-level `{name}`',
                               f'module-level container `{name}` is extended from {qual}(), which is not an import-time '
                               'registration decorator: state accumulates across evaluations')
    # class-level containers that grow from methods (self.X[...] = ..., cls.X.append(...)): shared by all instances, never freed
    grow = ('append', 'add', 'update', 'extend', 'setdefault', 'insert')
    for m in ctx.repo.modules.values():
        for cname, cnode in m.classes.items():
            cref = ctx.res.class_ref(m, cnode)
            shared = {}
            for cm_, cn_ in ctx.res.mro(cref):
                for st in cn_.body:
                    tg = st.targets[0] if isinstance(st, ast.Assign) and len(st.targets) == 1 else (st.target if isinstance(st, ast.AnnAssign) else None)
                    val = getattr(st, 'value', None)
                    if isinstance(tg, ast.Name) and (isinstance(val, (ast.Dict, ast.List, ast.Set)) or (
                            isinstance(val, ast.Call) and ctx.res.resolve(val.func, cm_) in (
                                'builtin:dict', 'builtin:list', 'builtin:set', 'ext:collections.defaultdict', 'ext:collections.OrderedDict'))):
                        shared.setdefault(tg.id, cn_.name)
            if not shared:
                continue
            own = set()
            for st in ast.walk(cnode):
                if isinstance(st, ast.Assign):
                    for t in st.targets:
                        if isinstance(t, ast.Attribute) and isinstance(t.value, ast.Name) and t.value.id == 'self':
                            own.add(t.attr)         # rebound per instance: not the class-level object
            for st in cnode.body:
                if not isinstance(st, ast.FunctionDef):
                    continue
                first = st.args.args[0].arg if st.args.args else None
                for node in walk_local(st):
                    tgt = None
                    if isinstance(node, ast.Call) and isinstance(node.func, ast.Attribute) and node.func.attr in grow:
                        tgt = node.func.value
                    elif isinstance(node, (ast.Assign, ast.AugAssign)):
                        for t in (node.targets if isinstance(node, ast.Assign) else [node.target]):
                            if isinstance(t, ast.Subscript):
                                tgt = t.value
                    if isinstance(tgt, ast.Attribute) and isinstance(tgt.value, ast.Name) and tgt.attr in shared and tgt.attr not in own \
                            and (tgt.value.id == first or tgt.value.id in m.classes or tgt.value.id == '__class__'):
                        if _bounded_string_key(node, st):
                            ctx.ok(node, f'{cname}.{st.name}: class-level `{tgt.attr}` keyed by plain strings',
                                   'entries are bounded by the distinct texts of the model')
                            continue
                        ctx.bad(node, f'{cname}.{st.name} grows class-level `{tgt.attr}`',
                                f'the container `{tgt.attr}` is created once in the body of class {shared[tgt.attr]} and shared by every instance; '
                                f'{cname}.{st.name}() stores into it on the evaluation path: what it holds (values, exception instances with their '
                                'tracebacks, contexts) lives as long as the process')
    # raise of an exception object that was taken out of a container: the same instance is raised again and again
    for m in ctx.repo.modules.values():
        for qual, fn in m.funcs.items():
            for r in flow.raises_of(fn):
                if not isinstance(r.exc, ast.Name):
                    continue
                defs = [a.value for a in walk_local(fn) if isinstance(a, ast.Assign) and any(isinstance(t, ast.Name) and t.id == r.exc.id for t in a.targets)]
                stored = [d for d in defs if isinstance(d, ast.Subscript) or (
                    isinstance(d, ast.Call) and isinstance(d.func, ast.Attribute) and d.func.attr in ('get', 'pop', 'setdefault'))]
                handler_names = {h.name for h in ast.walk(fn) if isinstance(h, ast.ExceptHandler) and h.name}
                if stored and r.exc.id not in handler_names:
                    ctx.bad(r, f'raise of a stored exception instance in {qual}',
                            f'`raise {r.exc.id}` raises an object read from a container ({ast.unparse(stored[0])[:60]}): every raise appends frames to the '
                            '__traceback__ of that one instance, keeping the frames and their locals alive - memory grows with the number of evaluations')
    ctx.floor(1, 'decorator scan (+ raise/containers sites)')


NONDET_EXT = ('ext:random', 'ext:numpy.random', 'ext:time.', 'ext:uuid', 'ext:os.environ', 'ext:os.getenv',
              'ext:secrets', 'ext:datetime.datetime.now', 'ext:datetime.datetime.today', 'ext:datetime.datetime.utcnow',
              'ext:datetime.date.today')
VOLATILE = {'RAND', 'RANDBETWEEN', 'NOW', 'TODAY'}


def rule_3(ctx):
    reg = {f.node: f.name for f in ctx.a.registry}
    hooks = {}      # module-level alias -> nondeterministic ext ref (rand = np.random.rand)
    for m in ctx.repo.modules.values():
        for name, vals in m.assigns.items():
            v = vals[-1]
            if isinstance(v, (ast.Name, ast.Attribute)):
                ref = ctx.res.resolve(v, m)
                if ref and ref.startswith(NONDET_EXT):
                    hooks[f'pkg:{m.name}:{name}'] = ref
    n = 0
    for m in ctx.repo.modules.values():
        for qual, fn in m.funcs.items():
            for c in flow.calls_in(fn):
                if not isinstance(c.func, (ast.Name, ast.Attribute)):
                    continue
                d = dotted(c.func)
                if d is None:
                    continue
                head = d.split('.')[0]
                locals_ = set(func_params(fn))
                raw = ctx.res.resolve_name(m, head) if head not in locals_ else None
                ref = ctx.res.resolve(c.func, m) if head not in locals_ else None
                nd = None
                if ref and ref.startswith(NONDET_EXT):
                    nd = ref
                # alias hooks are dereferenced by resolve(); check the undereferenced name too
                if raw and raw in hooks and '.' not in d:
                    nd = hooks[raw]
                if ref in ('builtin:id', 'builtin:hash'):
                    nd = ref
                if nd is None:
                    continue
                n += 1
                fname = reg.get(fn)
                if fname in VOLATILE:
                    ctx.ok(c, f'{nd} in volatile function {fname}')
                elif nd == 'builtin:id' and qual.endswith('.__eq__'):
                    ctx.ok(c, f'id() in {qual}: identity comparison (a is b)')
                elif nd == 'builtin:hash' and qual.endswith('.__hash__'):
                    ctx.ok(c, f'hash() in {qual}: hash of a value')
                elif nd in ('builtin:hash', 'builtin:id') and isinstance(getattr(c, '_parent', None), ast.Expr):
                    ctx.ok(c, f'{nd[8:]}() in {qual}: result discarded (a hashability / identity probe)')
                elif nd.startswith('ext:uuid') and m.name == 'tokenizer':
                    ctx.ok(c, f'uuid in {qual}: token identity field, never part of a computed value')
                else:
                    ctx.bad(c, f'{nd[4:] if nd.startswith("ext:") else nd} in {qual}',
                            f'{qual} uses a nondeterministic source ({nd}) but is not one of RAND, RANDBETWEEN, NOW, TODAY')
    # iteration over sets (order depends on hashing)
    for m in ctx.repo.modules.values():
        for qual, fn in m.funcs.items():
            set_names = set()
            for a in walk_local(fn):
                if isinstance(a, ast.Assign) and isinstance(a.value, (ast.Set, ast.SetComp)) or (
                        isinstance(a, ast.Assign) and isinstance(a.value, ast.Call) and isinstance(a.value.func, ast.Name)
                        and a.value.func.id in ('set', 'frozenset')):
                    set_names |= {t.id for t in a.targets if isinstance(t, ast.Name)}
            for node in walk_local(fn):
                it = None
                if isinstance(node, (ast.For, ast.comprehension)):
                    it = node.iter
                if it is None:
                    continue
                is_set = isinstance(it, (ast.Set, ast.SetComp)) or (isinstance(it, ast.Name) and it.id in set_names) or (
                    isinstance(it, ast.Call) and isinstance(it.func, ast.Name) and it.func.id in ('set', 'frozenset'))
                if is_set:
                    n += 1
                    # harmless when the loop only tests/accumulates commutatively into a set/any/all
                    parent = getattr(node, '_parent', None)
                    ctx.bad(node, f'iteration over a set in {qual}',
                            'the order of the results depends on hash ordering: iterate over sorted(...) instead')
    ctx.floor(4, 'nondeterminism source sites')


def rule_4(ctx):
    em = ctx.mod('evaluator')
    init = em.func('Evaluator.__init__')
    # namespace default: the shared table must be copied, and the copy must happen in the body
    for a in init.args.defaults + init.args.kw_defaults:
        if a is None:
            continue
        ref = None
        for x in ast.walk(a):
            if isinstance(x, (ast.Name, ast.Attribute)):
                r = ctx.res.resolve(x, em)
                if r and 'FUNCTIONS' in r:
                    ref = r
        ctx.expect(ref is None, a, 'Evaluator.__init__ default does not reference FUNCTIONS',
                   'the default namespace expression is evaluated once at import: functions registered later are '
                   'invisible and all evaluators share one table object')
    assigns = [n for n in walk_local(init) if isinstance(n, ast.Assign) and any(
        evalcore.self_attr(t) == 'namespace' for t in n.targets)]
    if not assigns:
        raise AnchorMissing('Evaluator.__init__: self.namespace assignment')
    for n in assigns:
        shared = []
        for x in ast.walk(n.value):
            if isinstance(x, ast.Attribute) and ctx.res.resolve(x, em) == 'pkg:xlfunctions.xl:FUNCTIONS':
                # must be the receiver of .copy() / argument of dict()/Functions()
                p = x._parent
                copied = (isinstance(p, ast.Attribute) and p.attr == 'copy' and isinstance(p._parent, ast.Call)) or (
                    isinstance(p, ast.Call) and isinstance(p.func, ast.Name) and p.func.id in ('dict',)) or (
                    isinstance(p, ast.Call) and x in p.args and ctx.res.resolve(p.func, em) in (
                        'pkg:xlfunctions.xl:Functions', 'ext:copy.copy', 'ext:copy.deepcopy'))
                if not copied:
                    shared.append(x)
        ctx.expect(not shared, n, 'evaluator namespace is a copy of FUNCTIONS',
                   'the evaluator uses the global function table itself: registering or replacing a function through one '
                   'evaluator changes every other evaluator')
    # decimal context
    n_dec = 0
    for m in ctx.repo.modules.values():
        for node in ast.walk(m.tree):
            if isinstance(node, ast.Call) and isinstance(node.func, (ast.Name, ast.Attribute)):
                ref = ctx.res.resolve(node.func, m)
                if ref in ('ext:decimal.setcontext',):
                    n_dec += 1
                    ctx.bad(node, 'decimal.setcontext', 'the thread-wide decimal context is replaced')
                elif ref == 'ext:decimal.getcontext':
                    n_dec += 1
                    p = node._parent
                    stored = isinstance(p, ast.Attribute) and isinstance(p.ctx, ast.Store)
                    ctx.expect(not stored, node, 'decimal.getcontext() not mutated',
                               'the global decimal context is mutated: rounding of unrelated computations changes')
                elif ref == 'ext:decimal.localcontext':
                    n_dec += 1
                    ctx.expect(isinstance(node._parent, ast.withitem), node, 'decimal.localcontext() used in a with block',
                               'localcontext() is not used as a context manager')
    # module-level mutable defaults rebinding: `global` statements in functions
    for m in ctx.repo.modules.values():
        for qual, fn in m.funcs.items():
            for node in walk_local(fn):
                if isinstance(node, ast.Global):
                    ctx.bad(node, f'global {",".join(node.names)} in {qual}', 'a function rebinds module-level state')
    ctx.floor(3, 'namespace + decimal context sites')


ORDER_CELLS = {
    'A1': 5, 'A2': 0, 'A3': 7.5, 'A4': 'abc', 'A5': True, 'B1': '=A1+1', 'B2': '=A2*2', 'B3': '=A3-1', 'C1': '=B1*2+B1', 'D1': '=SUM(B1:B3)+A2',
    'E1': '=D1-C1', 'F1': '=IF(A2>0,B1,C1)', 'G1': '=AND(B1:B3)', 'H1': '=SUM(A1:A3,B1:B3)', 'I1': '=A4&A1&A5', 'J1': '=ABS(B3-A1*3)',
    'K1': '=IF(A5,LEN(A4),0)+ABS(-A1)', 'L1': '=MAX(A1:A3)>=MIN(B1:B3)', 'M1': '=1/A2', 'N1': '=IF(ISERROR(M1),B1,M1)', 'O1': '=ABS(A1)&LEFT(A4,2)',
    'A6': '=""', 'A7': False, 'A8': 1, 'A9': 0.0,
    'P1': '=COUNTIF(A1:A9,A2)', 'P2': '=COUNTIF(A1:A9,"")', 'P3': '=COUNTIF(A1:A9,A7)', 'P4': '=COUNTIF(A1:A9,A5)', 'P5': '=COUNTIF(A1:A9,1)',
    'P6': '=COUNTIF(A1:A9,A6)', 'P7': '=COUNTIF(A1:A9,"1")', 'P8': '=COUNTIF(A1:A9,"<>0")',
    # rounding family next to operands that cannot be rounded (overflowed product, more digits than the decimal context holds):
    # whatever those do, the neighbours keep their values in every order
    # a formula whose value is an array keeps it to itself: the cells next to it stay what they are
    'R1': '=A1:A3', 'R5': '=SUM(R2:R3)', 'R6': '=R2+10', 'R7': '=ISBLANK(R2)', 'T4': '=A1:B3', 'T9': '=U5+1',
    'A10': 1e308, 'Q1': '=A10*10', 'Q2': '=ROUNDDOWN(Q1,0)', 'Q3': '=ROUNDUP(Q1,2)', 'Q4': '=CEILING(7.3,0.7)', 'Q5': '=CEILING(1.15,0.1)',
    'Q6': '=ROUND(2.5,0)', 'Q7': '=ROUNDDOWN(12345678901234567890,9)', 'Q8': '=CEILING(-2.5,-2)+FLOOR(7.3,0.7)', 'Q9': '=INT(-Q1)', 'Q10': '=ROUND(-7.45,1)',
}
_ORDER_ADDRS = ['B1', 'C1', 'D1', 'E1', 'F1', 'G1', 'H1', 'I1', 'J1', 'K1', 'L1', 'M1', 'N1', 'O1', 'P1', 'P2', 'P3', 'P4', 'P5', 'P6', 'P7', 'P8',
                'Q1', 'Q2', 'Q3', 'Q4', 'Q5', 'Q6', 'Q7', 'Q8', 'Q9', 'Q10', 'R1', 'R5', 'R6', 'R7', 'T4', 'T9']


def rule_6(ctx):
    """A whole witness workbook, interpreted as written: every formula cell evaluated alone in a fresh model is the reference;
    evaluating all of them in one model - in written order twice, in reverse order - and on a second Evaluator over the same
    model gives the same values; an Evaluator with its own namespace uses its own functions whoever evaluated first; constants,
    formula texts and defined names of the model are what they were; models compiled later in the same process are not affected
    by earlier ones."""
    from . import scenarios as S
    from . import workbook as W
    anchor = ctx.mod('evaluator').func('Evaluator.evaluate')
    cache = {}
    why = 'A value may not depend on what was evaluated before, how often, or by which evaluator.'
    n = S.check_orders(ctx, anchor, 'order', ORDER_CELLS, _ORDER_ADDRS, why=why, cache=cache)
    # constants / formula texts / names untouched
    wb = W.Workbook(ctx, ORDER_CELLS)
    before = S.constants_snapshot(wb)
    for a in _ORDER_ADDRS:
        wb.value('Sheet1!' + a)
    after = S.constants_snapshot(wb)
    diff = sorted(k for k in set(before) | set(after) if before.get(k) != after.get(k))
    n += 1
    ctx.expect(not diff, anchor, 'evaluation leaves constants, formula texts, names and the set of cells alone',
               f'after evaluating every formula cell the model differs at {diff[:6]}: ' + '; '.join(f'{k}: {before.get(k)!r} -> {after.get(k)!r}' for k in diff[:3]))
    # evaluators with namespaces of their own over one model
    for first in ('plain', 'custom'):
        wb = W.Workbook(ctx, ORDER_CELLS)
        wb.evaluator('plain')
        wb.evaluator_with('custom', {'ABS': 'SIGN'})
        order = ['plain', 'custom'] if first == 'plain' else ['custom', 'plain']
        got = {}
        for key in order + order:
            for a in ('J1', 'K1', 'O1'):
                got[(key, a)] = wb.value('Sheet1!' + a, key=key)
        want = {('plain', 'J1'): ('Number', 8.5), ('custom', 'J1'): ('Number', -1), ('plain', 'K1'): ('Number', 8), ('custom', 'K1'): ('Number', 2),
                ('plain', 'O1'): ('Text', '5ab')}
        for k, w in want.items():
            n += 1
            ctx.expect(S.same(got[k], w), anchor, f'evaluator with its own namespace ({k[0]} evaluator, {k[1]}, {first} evaluator first)',
                       f'{k[1]} evaluates to {got[k]!r} on the {k[0]} evaluator (the custom one maps ABS to SIGN) when the {first} evaluator goes first; '
                       f'expected {w!r}: the function table is the evaluator\'s, not the model\'s')
    # a second model compiled in the same process (same world): same formula texts, other inputs and other name bindings
    world = None
    for cells, want in (({'A1': 2, 'B1': 3, 'C1': '=A1+B1*2', 'C2': '=(A1+B1)*2', 'C3': '=SUM(A1:B1)'}, {'C1': 8, 'C2': 10, 'C3': 5}),
                        ({'A1': 10, 'B1': 1, 'C1': '=A1+B1*2', 'C2': '=(A1+B1)*2', 'C3': '=SUM(A1:B1)', 'C4': '=A1+(B1*2)'}, {'C1': 12, 'C2': 22, 'C3': 11, 'C4': 12})):
        wb = W.Workbook(ctx, cells, world=world)
        world = wb.world
        for a, w in want.items():
            got1 = wb.value('Sheet1!' + a)
            n += 1
            ctx.expect(S.same(got1, ('Number', w)), anchor, f'models compiled one after the other in one process: {cells[a]} over A1={cells["A1"]}',
                       f'{a} = {cells[a]} evaluates to {got1!r} in a model compiled after another model with the same formula texts; expected {w}')
    # an evaluation that failed (unknown function in the branch taken) leaves nothing behind on the evaluator: after the input
    # is changed, the same evaluator gives what a new one gives
    fcells = {'A1': 4, 'B1': True, 'C1': '=IF(B1,NOSUCHFUNC(A1),A1*2)', 'D1': '=C1+1', 'E1': '=IF(B1,VLOOKUP(1,A1:A1,1,TRUE),D1+1)'}
    wbf = W.Workbook(ctx, fcells)
    first = [wbf.value('Sheet1!' + a) for a in ('D1', 'E1', 'C1')]
    wbf.set_model('Sheet1!B1', False)
    for a, w in (('C1', 8), ('D1', 9), ('E1', 10)):
        got_old = wbf.value('Sheet1!' + a)
        got_new = wbf.value('Sheet1!' + a, key='a new evaluator')
        n += 1
        ctx.expect(S.same(got_old, ('Number', w)) and S.same(got_new, ('Number', w)), anchor, f'after failed evaluations and an edit: {a}',
                   f'{fcells}: D1, E1 and C1 were evaluated and failed ({first!r}); after B1 was set to FALSE the same evaluator gives {got_old!r} for {a} and a new '
                   f'evaluator {got_new!r}, expected {w}: what a failed evaluation was in the middle of is forgotten')
    # the footprint after n rounds of the same evaluations does not depend on n: whatever outlives an evaluation (module-level
    # values, class attributes, default-argument objects, the model, the evaluators) has the same size after round 2 and round 3
    wb = W.Workbook(ctx, ORDER_CELLS)
    sizes = []
    for rnd in range(3):
        for a in _ORDER_ADDRS:
            wb.value('Sheet1!' + a)
        wb.value('Sheet1!' + _ORDER_ADDRS[0], key=f'evaluator of round {rnd}')      # evaluators come and go
        wb.evaluators.pop(f'evaluator of round {rnd}')
        sizes.append(S.footprint(wb))
    grown = sorted((k, sizes[1].get(k, 0), v) for k, v in sizes[2].items() if v > sizes[1].get(k, 0))
    n += 1
    ctx.expect(not grown, anchor, 'footprint after repeated evaluations of the same cells',
               'evaluating the same cells again makes these grow (elements after round 2 -> after round 3): '
               + '; '.join(f'{k}: {a} -> {b}' for k, a, b in grown[:5]) + ' - the process footprint after n evaluations is bounded independently of n')
    ctx.floor(61, 'order / evaluator / process scenarios')


RULES = [
    ('C05.1', 'write-set of the evaluation path', rule_1),
    ('C05.2', 'nothing retains objects across evaluations', rule_2),
    ('C05.3', 'nondeterminism sources only in volatile functions', rule_3),
    ('C05.4', 'no shared mutable global state', rule_4),
    ('C05.5', 'memo scope (shared with C04.2)', c04.rule_2),
    ('C05.6', 'whole witness workbook: orders, repetitions, evaluators, namespaces, successive models', rule_6),
]
