"""Faithful witnesses: instances of the value/error classes and the call protocol of registered functions.

A registered function is what `@xl.register() @xl.validate_args def F(...)` stores: the wrapper built by validate_args around the
function. `call(ctx, 'F', args)` interprets exactly that - validate_args as written (error scan, _validate with TYPE_TO_CAST, the
typing constructs of the annotations), then the body of F - on witness arguments, by constant propagation. Only three things of
the standard library are modelled, because they are introspection of the very source we analyse: inspect.signature (built from the
FunctionDef), typing's subscripted aliases (Tuple[X], Union[...]) and NewType aliases (kept as symbolic references).
"""
import ast

from xlsa import Unmodelled, AnchorMissing
from xlsa.consteval import Ref
from xlsa.guards import Interp, Rec, PyModel, Opaque, World, ExcRaised

XLT = 'pkg:xlfunctions.func_xltypes:'
XLERR = 'pkg:xlfunctions.xlerrors:'


def num(v):
    return Rec(cls=XLT + 'Number', value=v)


def text(v):
    return Rec(cls=XLT + 'Text', value=v)


def boolean(v):
    return Rec(cls=XLT + 'Boolean', value=v)


def blank():
    return Rec(cls=XLT + 'Blank', value=None)


def error(ctx, short):
    """An error instance as the library builds it (code from the class)."""
    cref = XLERR + short
    cm, code = ctx.res.class_attr(cref, 'value')
    val = ctx.fold(code, cm) if code is not None else None
    return Rec(cls=cref, value=val, info='witness', args=('witness',))


def array(rows):
    """A range array: rows of value instances (what RangeNode.eval builds). `flat` / `values` are instance fields here, so the
    pandas machinery behind the real class is not needed for row-major access."""
    flat = [x for r in rows for x in r]
    return Rec(cls=XLT + 'Array', rows=[list(r) for r in rows], flat=flat, shape=(len(rows), len(rows[0]) if rows else 0), size=len(flat))


def norm(v):
    """Structural form of a result for comparison with an oracle."""
    if isinstance(v, Rec) and isinstance(v.f.get('cls'), str):
        short = v.f['cls'].rpartition(':')[2]
        if v.f['cls'].startswith(XLERR):
            return ('error', v.f.get('value'))
        if 'value' in v.f:
            return (short, v.f['value'])
        return (short,)
    if isinstance(v, Ref) and v.ref.startswith(XLERR):
        return ('error-class', v.ref.rpartition(':')[2])
    if isinstance(v, (list, tuple)):
        return tuple(norm(x) for x in v)
    return v


# ------------------------------------------------------------------------------------------------------------
# typing / inspect models
# ------------------------------------------------------------------------------------------------------------
from xlsa.guards import TypingAlias  # noqa: E402


_ORIGINS = {'Tuple': 'builtin:tuple', 'List': 'builtin:list', 'Sequence': 'builtin:list', 'Union': 'ext:typing.Union', 'Optional': 'ext:typing.Union'}


def eval_annotation(ctx, node, module):
    """Value of an annotation expression: symbolic refs for classes / NewType aliases, TypingAlias for subscripted typing forms."""
    if node is None:
        return Ref('ext:inspect.Parameter.empty')
    if isinstance(node, ast.Constant) and node.value is None:
        return None
    if isinstance(node, ast.Subscript):
        base = ctx.res.resolve(node.value, module) if isinstance(node.value, (ast.Name, ast.Attribute)) else None
        if base and base.startswith('ext:typing.') and base.rpartition('.')[2] in _ORIGINS:
            short = base.rpartition('.')[2]
            elts = node.slice.elts if isinstance(node.slice, ast.Tuple) else [node.slice]
            args = [eval_annotation(ctx, e, module) for e in elts if not (isinstance(e, ast.Constant) and e.value is Ellipsis)]
            if short == 'Optional':
                args.append(Ref('builtin:NoneType'))
            return TypingAlias(Ref(_ORIGINS[short]), args)
        raise Unmodelled(f'annotation {ast.unparse(node)}')
    if isinstance(node, (ast.Name, ast.Attribute)):
        ref = ctx.res.resolve(node, module)
        if ref is None:
            raise Unmodelled(f'annotation {ast.unparse(node)}')
        # a module-level alias of a typing construct (XlAnything = Union[...]) is followed; NewType aliases stay symbolic
        m, val = ctx.res.lookup(ref)
        if isinstance(val, ast.Subscript):
            return eval_annotation(ctx, val, m)
        return Ref(ref)
    raise Unmodelled(f'annotation {ast.unparse(node)}')


def registered(ctx, name):
    for f in ctx.a.registry:
        if f.name == name:
            return f
    raise AnchorMissing(f'registered function {name}')


def call(ctx, name, args, world=None, models=None, kwargs=None):
    """Interpret the call of the registered function `name` as the evaluator performs it: the object that the decorators of
    the function produce (validate_args wrapper, private decorators ...; the registration decorator returns it unchanged) applied
    to the arguments. Returns the Outcome."""
    f = registered(ctx, name)
    xm = ctx.mod('xlfunctions.xl')
    fref = Ref(f'pkg:{f.module.name}:{f.node.name}')
    env = {'__f': fref, '__args': tuple(args), '__kw': dict(kwargs or {})}
    it = Interp(ctx.a, xm, env, inline_pkg=True, world=world if world is not None else World(), call_models=dict(models or {}))
    return it.run(ast.parse('return __f(*__args, **__kw)').body)


# ------------------------------------------------------------------------------------------------------------
# numpy on Python floats: IEEE semantics (a domain error is nan, an overflow inf) - trusted model of the library
# ------------------------------------------------------------------------------------------------------------
def np_err(interp):
    return interp.world.__dict__.setdefault('np_err', {'divide': 'warn', 'over': 'warn', 'under': 'ignore', 'invalid': 'warn'})


def numpy_models():
    import math

    def fault(interp, kind):
        """numpy's floating point error handling (np.errstate / np.seterr): a process-wide setting per kind of fault; 'raise' turns the
        fault into FloatingPointError, everything else lets the IEEE result through."""
        if np_err(interp).get(kind) == 'raise':
            raise ExcRaised(Ref('builtin:FloatingPointError'))

    def unary(fn, domain_nan=True, name=''):
        def f(interp, x, *rest, **kw):
            if rest or kw or isinstance(x, bool) or not isinstance(x, (int, float)):
                raise Unmodelled('numpy function on a non-float argument')
            try:
                res = float(fn(x))
            except ValueError:
                res = float('-inf') if name in ('log', 'log10') and x == 0 else float('nan')
            except OverflowError:
                res = float('inf')
            if res != res and x == x:
                fault(interp, 'invalid')
            elif res in (float('inf'), float('-inf')) and x not in (float('inf'), float('-inf')):
                fault(interp, 'divide' if name in ('log', 'log10', 'arctanh') else 'over')
            elif name in ('exp', 'sinh', 'tanh', 'arcsinh', 'arctan', 'sin', 'tan', 'radians', 'degrees') and x != 0 and abs(res) < 2.2250738585072014e-308 \
                    and (name == 'exp' or abs(x) < 2.2250738585072014e-308):
                fault(interp, 'under')
            return res
        f.wants_interp = True
        return f
    table = {'cos': math.cos, 'sin': math.sin, 'tan': math.tan, 'arccos': math.acos, 'arcsin': math.asin, 'arctan': math.atan,
             'cosh': math.cosh, 'sinh': math.sinh, 'tanh': math.tanh, 'arccosh': math.acosh, 'arcsinh': math.asinh, 'arctanh': math.atanh,
             'degrees': math.degrees, 'radians': math.radians, 'exp': math.exp, 'sqrt': math.sqrt, 'log': math.log, 'log10': math.log10,
             'floor': math.floor, 'ceil': math.ceil, 'trunc': math.trunc, 'fabs': math.fabs,
             'sign': lambda x: (x > 0) - (x < 0)}
    out = {f'ext:numpy.{k}': unary(v, name=k) for k, v in table.items()}

    class ErrState(PyModel):
        def __init__(self, interp, kw):
            self.interp, self.kw, self.saved = interp, kw, None

        def __enter__(self):
            self.saved = seterr(self.interp, **self.kw)
            return self

        def __exit__(self, *exc):
            np_err(self.interp).update(self.saved)
            return False

    def seterr(interp, all=None, divide=None, over=None, under=None, invalid=None):
        cur = np_err(interp)
        old = dict(cur)
        for kind, val in (('divide', divide), ('over', over), ('under', under), ('invalid', invalid)):
            val = val if val is not None else all
            if val is not None:
                if val not in ('ignore', 'warn', 'raise', 'call', 'print', 'log'):
                    raise ExcRaised(Ref('builtin:ValueError'))
                cur[kind] = val
        return old
    seterr.wants_interp = True

    def errstate(interp, **kw):
        return ErrState(interp, kw)
    errstate.wants_interp = True

    def geterr(interp):
        return dict(np_err(interp))
    geterr.wants_interp = True
    out.update({'ext:numpy.seterr': seterr, 'ext:numpy.errstate': errstate, 'ext:numpy.geterr': geterr})

    def arctan2(a, b):
        if any(isinstance(v, bool) or not isinstance(v, (int, float)) for v in (a, b)):
            raise Unmodelled('numpy.arctan2 on non-float arguments')
        return math.atan2(a, b)
    out['ext:numpy.arctan2'] = arctan2

    def wrap64(v):
        return (v + 2 ** 63) % 2 ** 64 - 2 ** 63

    def power(interp, a, b):
        if isinstance(a, Rec) or isinstance(b, Rec):
            return interp._binop(ast.Pow(), a, b)      # object arrays: the class's own **
        if any(not isinstance(v, (int, float)) for v in (a, b)):
            raise Unmodelled('numpy.power on non-numbers')
        if all(isinstance(v, int) for v in (a, b)):     # bool counts as an integer type here too
            if any(abs(int(v)) >= 2 ** 63 for v in (a, b)):
                raise Unmodelled('numpy.power on integers beyond int64')
            if b < 0:
                raise ExcRaised(Ref('builtin:ValueError'))      # "Integers to negative integer powers are not allowed."
            return wrap64(pow(int(a), int(b), 2 ** 64))           # int64 arithmetic wraps silently (computed modulo 2^64)
        try:
            res = float(a) ** float(b)
        except OverflowError:
            return float('inf')
        except ZeroDivisionError:
            return float('inf')
        return float('nan') if isinstance(res, complex) else res
    power.wants_interp = True
    out['ext:numpy.power'] = power

    def np_sum(seq, *rest, **kw):
        if rest or kw:
            raise Unmodelled('numpy.sum with further arguments')
        items = list(seq)
        if any(isinstance(v, Rec) for v in items):
            raise Unmodelled('numpy.sum over objects')
        if any(not isinstance(v, (int, float)) for v in items):
            raise Unmodelled('numpy.sum over non-numbers')
        if all(isinstance(v, int) for v in items):
            if any(abs(int(v)) >= 2 ** 63 for v in items):
                return sum(items)           # object array: exact Python integers
            return wrap64(sum(int(v) for v in items))
        return float(sum(float(v) for v in items))
    out['ext:numpy.sum'] = np_sum

    def factorial2(n, exact=False, **kw):
        """scipy.special.factorial2: n!! (1 for n in {0, -1}, 0 below -1)"""
        if kw or isinstance(n, bool) or not isinstance(n, int):
            raise Unmodelled('scipy.special.factorial2 on a non-integer')
        if n < -1:
            return 0 if exact else 0.0
        res = 1
        while n > 1:
            res *= n
            n -= 2
        return res if exact else float(res)
    out['ext:scipy.special.factorial2'] = factorial2
    return out


# ------------------------------------------------------------------------------------------------------------
# dateutil.relativedelta: relative (years, months, days) and absolute (day=) parts, documented semantics
# ------------------------------------------------------------------------------------------------------------
class RelDelta(PyModel):
    def __init__(self, years=0, months=0, days=0, day=None, month=None, year=None, **other):
        if other:
            raise Unmodelled(f'relativedelta({sorted(other)})')
        self.years, self.months, self.days, self.day, self.month, self.year = years, months, days, day, month, year

    def __radd__(self, dt):
        import calendar
        import datetime as _dt
        if not isinstance(dt, _dt.date):
            raise Unmodelled('relativedelta added to a non-date')
        year = (self.year if self.year is not None else dt.year) + self.years
        month = (self.month if self.month is not None else dt.month)
        total = (year * 12 + (month - 1)) + int(self.months)
        year, month = divmod(total, 12)
        month += 1
        day = min(calendar.monthrange(year, month)[1], self.day if self.day is not None else dt.day)
        try:
            out = dt.replace(year=year, month=month, day=day)
        except ValueError:
            raise ExcRaised(Ref('builtin:ValueError'))
        return out + _dt.timedelta(days=self.days)

    __add__ = __radd__


def date_models():
    def relativedelta(*a, **k):
        if a:
            raise Unmodelled('relativedelta with positional arguments')
        conv = {}
        for kk, v in k.items():
            if isinstance(v, Rec) and isinstance(v.f.get('value'), (int, float)) and str(v.f.get('cls', '')).endswith(':Number'):
                v = v.f['value']        # dateutil reads numbers through int()/float(); the Number class supports both
            if not isinstance(v, (int, float)) and v is not None:
                raise Unmodelled('relativedelta with a symbolic component')
            conv[kk] = int(v) if isinstance(v, float) and float(v).is_integer() else v
        return RelDelta(**conv)
    return {'ext:dateutil.relativedelta.relativedelta': relativedelta}


# ------------------------------------------------------------------------------------------------------------
# openpyxl.utils.cell: pure address arithmetic, documented behaviour
# ------------------------------------------------------------------------------------------------------------
def openpyxl_models():
    import re as _re

    def col(c):
        n = 0
        for ch in c.upper():
            if not 'A' <= ch <= 'Z':
                raise ExcRaised(Ref('builtin:ValueError'))
            n = n * 26 + ord(ch) - 64
        if not 1 <= n <= 18278:
            raise ExcRaised(Ref('builtin:ValueError'))
        return n

    def range_boundaries(text):
        m = _re.fullmatch(r'\$?([A-Za-z]{1,3})\$?(\d+)(?::\$?([A-Za-z]{1,3})\$?(\d+))?', text)
        if not m:
            raise Unmodelled(f'range_boundaries model: {text!r}')
        c1, r1, c2, r2 = m.group(1), int(m.group(2)), m.group(3) or m.group(1), int(m.group(4) or m.group(2))
        return (col(c1), r1, col(c2), r2)

    def letter(n):
        if not isinstance(n, int) or not 1 <= n <= 18278:
            raise ExcRaised(Ref('builtin:ValueError'))
        out = ''
        while n:
            n, r = divmod(n - 1, 26)
            out = chr(65 + r) + out
        return out
    return {
        'ext:openpyxl.utils.cell.range_boundaries': range_boundaries,
        'ext:openpyxl.utils.cell.get_column_letter': letter,
        'ext:openpyxl.utils.cell.column_index_from_string': col,
    }


# ------------------------------------------------------------------------------------------------------------
# scipy.optimize.newton without a derivative: the secant iteration of the library (documented algorithm)
# ------------------------------------------------------------------------------------------------------------
def scipy_models():
    def newton(interp, func, x0=None, fprime=None, args=(), tol=1.48e-08, maxiter=50, **kw):
        if fprime is not None or kw or args:
            raise Unmodelled('scipy.optimize.newton with a derivative or further options')

        def num(v):
            if isinstance(v, Rec) and isinstance(v.f.get('value'), (int, float)):
                v = v.f['value']
            if isinstance(v, bool) or not isinstance(v, (int, float)):
                raise Unmodelled(f'scipy.optimize.newton on a non-number {v!r}')
            return float(v)

        def f(x):
            return num(interp.invoke(func, [x], {}))
        p0 = num(x0)
        eps = 1e-4
        p1 = p0 * (1 + eps) + (eps if p0 >= 0 else -eps)
        q0, q1 = f(p0), f(p1)
        if abs(q1) < abs(q0):
            p0, p1, q0, q1 = p1, p0, q1, q0
        for _ in range(int(num(maxiter))):
            if q1 == q0:
                if p1 != p0:
                    raise ExcRaised(Ref('builtin:RuntimeError'))       # "Tolerance of ... reached" (disp=True, the default)
                return (p1 + p0) / 2.0
            if abs(q1) > abs(q0):
                p = (-q0 / q1 * p1 + p0) / (1 - q0 / q1)
            else:
                p = (-q1 / q0 * p0 + p1) / (1 - q1 / q0)
            if abs(p - p1) <= tol:
                return p
            p0, q0 = p1, q1
            p1 = p
            q1 = f(p1)
        raise ExcRaised(Ref('builtin:RuntimeError'))
    newton.wants_interp = True
    return {'ext:scipy.optimize.newton': newton}


# ------------------------------------------------------------------------------------------------------------
# numpy_financial.pv / pmt: the documented closed forms (when = 'end' | 0 -> 0, 'begin' | 1 -> 1). At rate 0 the library still
# evaluates the general branch inside numpy.where (0/0): a warning under numpy's default error state, FloatingPointError when the
# process-wide state says 'raise' for invalid operations.
# ------------------------------------------------------------------------------------------------------------
def npf_models():
    def when_(w):
        return {'end': 0, 'begin': 1, 0: 0, 1: 1}[w]

    def zero_rate(interp):
        if np_err(interp).get('invalid') == 'raise':
            raise ExcRaised(Ref('builtin:FloatingPointError'))

    def pv(interp, rate, nper, pmt, fv=0, when='end'):
        if any(isinstance(x, bool) or not isinstance(x, (int, float)) for x in (rate, nper, pmt, fv)):
            raise Unmodelled('numpy_financial.pv on non-numbers')
        w = when_(when)
        if rate == 0:
            zero_rate(interp)
            return float(-(fv + pmt * nper))
        t = (1 + rate) ** nper
        return -(fv + pmt * (1 + rate * w) / rate * (t - 1)) / t
    pv.wants_interp = True

    def pmt(interp, rate, nper, pv, fv=0, when='end'):
        if any(isinstance(x, bool) or not isinstance(x, (int, float)) for x in (rate, nper, pv, fv)):
            raise Unmodelled('numpy_financial.pmt on non-numbers')
        w = when_(when)
        if rate == 0:
            zero_rate(interp)
            return float(-(fv + pv) / nper)
        t = (1 + rate) ** nper
        return -(fv + pv * t) / ((1 + rate * w) / rate * (t - 1))
    pmt.wants_interp = True
    def irr(values, **kw):
        """numpy_financial.irr: the rate at which the net present value of the flows (in the order given) is zero - here by bisection
        on (-1, 1e6) for flows with a root there, nan otherwise (the library's answer when it finds no real root)."""
        flows = [x.f['value'] if isinstance(x, Rec) and str(x.f.get('cls', '')).endswith(':Number') else x for x in values]     # numpy reads numbers through float()
        if kw or any(isinstance(x, bool) or not isinstance(x, (int, float)) for x in flows):
            raise Unmodelled('numpy_financial.irr on non-numbers')

        def npv(r):
            return sum(v / (1 + r) ** i for i, v in enumerate(flows))
        lo, hi = -0.999999, 1e6
        flo, fhi = npv(lo), npv(hi)
        if flo == 0:
            return lo
        if flo * fhi > 0:
            return float('nan')
        for _ in range(300):
            mid = (lo + hi) / 2
            fm = npv(mid)
            if fm == 0:
                return mid
            if flo * fm < 0:
                hi = mid
            else:
                lo, flo = mid, fm
        return (lo + hi) / 2
    return {'ext:numpy_financial.pv': pv, 'ext:numpy_financial.pmt': pmt, 'ext:numpy_financial.irr': irr}
