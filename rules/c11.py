"""C11 - a workbook file loads into a model with the same cells and formulas (structural part)."""
import ast

from xlsa import Unmodelled, AnchorMissing
from xlsa.load import walk_local, names_in, dotted
from xlsa import flow
from .common import func_params, value_returns, last_return

PROPERTY = 'C11'
EXPLANATION = (
    'Decided from source: (C11.1) every insertion into the maps returned by Reader.read_cells is dominated by the '
    '"sheet is ignored -> skip" test; (C11.2) the ignore_sheets parameter reaches the filter of read_defined_names and '
    'both readers receive the caller\'s ignore list; (C11.3) what a formula cell stores: address = sheet!coordinate, '
    'formula text -> XLFormula with the cell\'s sheet, cached value (cvalue) -> XLCell.value, otherwise value -> XLCell.value '
    'and no formula, both maps receive the formula; the openpyxl patch captures the cached value next to the formula; '
    '(C11.4) the target text of a defined name is normalised like cell keys ($ removed and sheet name unquoted) before it is '
    'looked up; (C11.5) parse_archive runs the build steps in dependency order; (C11.6) the address resolvers used for range '
    'targets of defined names unquote the sheet name.')
NOT_DECIDED = ('the SpreadsheetML storage forms, shared-formula expansion and the patched worksheet reader (openpyxl '
               'behaviour), equality of values')
TRUSTED = ['openpyxl cell attributes (.coordinate, .data_type, .value) and defined_names mapping']


def rule_1(ctx):
    rm = ctx.mod('reader')
    rc = rm.func('Reader.read_cells')
    p = func_params(rc)
    ign = p[1]
    rets = value_returns(rc)
    maps = set()
    for r in rets:
        maps |= names_in(r.value)
    stores = [a for a in walk_local(rc) if isinstance(a, ast.Assign) and any(
        isinstance(t, ast.Subscript) and isinstance(t.value, ast.Name) and t.value.id in maps for t in a.targets)]
    if not stores:
        raise AnchorMissing('read_cells: no stores into the returned maps')
    for a in stores:
        t = next(t for t in a.targets if isinstance(t, ast.Subscript))
        conds = flow.path_conditions(a)
        ok = False
        for c in conds:
            if c.kind == 'guard' and not c.polarity and isinstance(c.test, ast.Compare) and len(c.test.ops) == 1 \
                    and isinstance(c.test.ops[0], ast.In) and isinstance(c.test.comparators[0], ast.Name) \
                    and c.test.comparators[0].id == ign:
                ok = True
            if c.kind == 'if' and c.polarity and isinstance(c.test, ast.Compare) and isinstance(c.test.ops[0], ast.NotIn) \
                    and isinstance(c.test.comparators[0], ast.Name) and c.test.comparators[0].id == ign:
                ok = True
        ctx.expect(ok, a, f'insertion into `{t.value.id}` is skipped for ignored sheets',
                   f'cells of ignored sheets are inserted into `{t.value.id}`: ignored sheets must contribute no cells')
    # the tested name is the sheet whose cells are read
    loops = [n for n in walk_local(rc) if isinstance(n, ast.For) and 'sheetnames' in ast.unparse(n.iter)]
    ctx.expect(len(loops) == 1, rc, 'loop over all sheet names', 'read_cells does not iterate book.sheetnames')
    ctx.floor(3, 'map insertions')


def rule_2(ctx):
    rm = ctx.mod('reader')
    rd = rm.func('Reader.read_defined_names')
    p = func_params(rd)
    ign = p[1]
    deps = flow.Deps(rd)
    filt = set()
    for n in walk_local(rd):
        if isinstance(n, ast.comprehension):
            for c in n.ifs:
                filt |= names_in(c)
        elif isinstance(n, ast.If):
            filt |= names_in(n.test)
    ok = ign in deps.closure(filt)
    ctx.expect(ok, rd, f'read_defined_names({ign}) reaches the filter',
               f'parameter {ign} is never used by read_defined_names: a name bound to a range on an ignored sheet is kept and '
               'loading raises KeyError (its cells were not loaded)')
    # the filter compares the sheet of the target with the ignore list
    tests_membership = any(isinstance(c, ast.Compare) and isinstance(c.ops[0], (ast.NotIn,)) and ign in names_in(c.comparators[0])
                           for n in walk_local(rd) if isinstance(n, ast.comprehension) for cc in n.ifs for c in ast.walk(cc))
    ctx.expect(tests_membership, rd, 'names on ignored sheets are dropped (not in ignore list)',
               'the defined-name filter does not test "sheet not in ignore_sheets"')
    ctx.note('ignore_hidden is accepted but unused by both readers: outside the statement (allow-listed)')
    mm = ctx.mod('model')
    pa = mm.func('ModelCompiler.parse_archive')
    pp = func_params(pa)
    for attr in ('read_cells', 'read_defined_names'):
        calls = [c for c in flow.calls_in(pa) if isinstance(c.func, ast.Attribute) and c.func.attr == attr]
        ok = len(calls) == 1 and calls[0].args and isinstance(calls[0].args[0], ast.Name) and calls[0].args[0].id == pp[2]
        ctx.expect(ok, pa, f'parse_archive passes ignore_sheets to {attr}', f'{attr} is not called with the caller\'s ignore list')
    ra = mm.func('ModelCompiler.read_and_parse_archive')
    calls = [c for c in flow.calls_in(ra) if isinstance(c.func, ast.Attribute) and c.func.attr == 'parse_archive']
    ok = len(calls) == 1 and any(k.arg == 'ignore_sheets' and isinstance(k.value, ast.Name) and k.value.id == 'ignore_sheets'
                                 for k in calls[0].keywords) or (calls and len(calls[0].args) > 1)
    ctx.expect(ok, ra, 'read_and_parse_archive forwards ignore_sheets', 'ignore_sheets is not forwarded to parse_archive')
    ctx.floor(5, 'ignore list plumbing')


def rule_3(ctx):
    rm = ctx.mod('reader')
    rc = rm.func('Reader.read_cells')
    cons = [c for c in flow.calls_in(rc) if ctx.res.resolve(c.func, rm) == 'pkg:xltypes:XLCell']
    if len(cons) != 1:
        raise AnchorMissing(f'read_cells: {len(cons)} XLCell constructions')
    c = cons[0]
    kw = {k.arg: k.value for k in c.keywords}
    addr = c.args[0] if c.args else kw.get('address')
    value = c.args[1] if len(c.args) > 1 else kw.get('value')
    formula = c.args[2] if len(c.args) > 2 else kw.get('formula')
    # address = f'{sheet_name}!{cell.coordinate}'
    a_assign = [a for a in walk_local(rc) if isinstance(a, ast.Assign) and isinstance(addr, ast.Name)
                and any(isinstance(t, ast.Name) and t.id == addr.id for t in a.targets)]
    ok = len(a_assign) == 1 and isinstance(a_assign[0].value, ast.JoinedStr)
    if ok:
        parts = a_assign[0].value.values
        exprs = [ast.unparse(v.value) for v in parts if isinstance(v, ast.FormattedValue)]
        lits = ''.join(v.value for v in parts if isinstance(v, ast.Constant))
        ok = len(exprs) == 2 and exprs[1].endswith('.coordinate') and lits == '!' and 'sheet' in exprs[0]
    ctx.expect(ok, rc, 'cell address = sheet!coordinate', 'the address of a loaded cell is not "<sheet name>!<coordinate>"')
    def _is_f(t):
        if not (isinstance(t, ast.Compare) and len(t.ops) == 1 and isinstance(t.ops[0], ast.Eq)):
            return False
        a, b = t.left, t.comparators[0]
        return any('data_type' in ast.unparse(x) and isinstance(y, ast.Constant) and y.value == 'f' for x, y in ((a, b), (b, a)))
    fbranch = [n for n in walk_local(rc) if isinstance(n, ast.If) and _is_f(n.test)]
    if len(fbranch) != 1:
        raise AnchorMissing('read_cells: data_type == "f" branch')
    fb = fbranch[0]

    def last_assign(stmts, name):
        out = None
        for s in stmts:
            for a in ast.walk(s):
                if isinstance(a, ast.Assign) and any(isinstance(t, ast.Name) and t.id == name for t in a.targets):
                    out = a
        return out

    vname = value.id if isinstance(value, ast.Name) else None
    fname = formula.id if isinstance(formula, ast.Name) else None
    if not vname or not fname:
        raise Unmodelled('XLCell(value=, formula=) are not local names')
    v_f = last_assign(fb.body, vname)
    v_e = last_assign(fb.orelse, vname)
    f_f = last_assign(fb.body, fname)
    f_e = last_assign(fb.orelse, fname)
    ctx.expect(v_f is not None and ast.unparse(v_f.value).endswith('.cvalue'), fb, 'formula cell value = cached result',
               'a formula cell does not store the cached result (cvalue) as its value')
    ctx.expect(v_e is not None and ast.unparse(v_e.value).endswith('.value'), fb, 'constant cell value = cell value',
               'a constant cell does not store the cell value')
    ctx.expect(f_e is not None and isinstance(f_e.value, ast.Constant) and f_e.value.value is None, fb,
               'constant cell has no formula', 'a constant cell gets a formula object')
    ok = f_f is not None and isinstance(f_f.value, ast.Call) and ctx.res.resolve(f_f.value.func, rm) == 'pkg:xltypes:XLFormula'
    sheet_ok = ok and len(f_f.value.args) >= 2 and 'sheet' in ast.unparse(f_f.value.args[1])
    ctx.expect(ok and sheet_ok, fb, 'formula cell formula = XLFormula(text, sheet)',
               'the formula object is not built from the formula text and the sheet of the cell')
    if ok:
        deps = flow.Deps(rc)
        src = deps.closure(names_in(f_f.value.args[0]))
        ctx.expect(any(ast.unparse(a.value).endswith('.value') for a in walk_local(rc) if isinstance(a, ast.Assign)
                       and any(isinstance(t, ast.Name) and t.id in src | names_in(f_f.value.args[0]) for t in a.targets)), fb,
                   'formula text comes from cell.value', 'the formula text is not the stored cell value')
    both = [a for s in fb.body for a in ast.walk(s) if isinstance(a, ast.Assign) and any(
        isinstance(t, ast.Subscript) and isinstance(t.value, ast.Name) for t in a.targets)]
    ok = any(isinstance(a.value, ast.Name) and a.value.id == fname and ast.unparse(a.targets[0].slice) == ast.unparse(addr) for a in both)
    ctx.expect(ok, fb, 'formulae map receives the formula under the cell address', 'formulae[addr] is not set to the cell\'s formula')
    # patch: cached value captured
    pm = ctx.mod('patch')
    pc = pm.func('WorkSheetParser.parse_cell')
    ok = any(isinstance(a, ast.Assign) and isinstance(a.targets[0], ast.Subscript) and isinstance(a.targets[0].slice, ast.Constant)
             and a.targets[0].slice.value == 'cvalue' for a in walk_local(pc))
    ctx.expect(ok, pc, 'patched parser records cvalue', 'the patched cell parser no longer records the cached value')
    # must-define: every formula cell gets the key that bind_cells reads for every formula cell
    stores = [a for a in walk_local(pc) if isinstance(a, ast.Assign) and isinstance(a.targets[0], ast.Subscript)
              and isinstance(a.targets[0].slice, ast.Constant) and a.targets[0].slice.value == 'cvalue']
    for a in stores:
        conds = [c for c in flow.path_conditions(a, check_kills=False) if c.kind in ('if', 'guard', 'while')]
        def conjuncts(t):
            if isinstance(t, ast.BoolOp) and isinstance(t.op, ast.And):
                out = []
                for v in t.values:
                    out += conjuncts(v)
                return out
            return [t]

        def is_f_test(t):
            if not (isinstance(t, ast.Compare) and len(t.ops) == 1 and isinstance(t.ops[0], ast.Eq)):
                return False
            a_, b_ = t.left, t.comparators[0]
            return any('data_type' in ast.unparse(x) and isinstance(y, ast.Constant) and y.value == 'f' for x, y in ((a_, b_), (b_, a_)))
        only_f = all(c.polarity and all(is_f_test(x) for x in conjuncts(c.test)) for c in conds)
        ctx.expect(only_f and len(conds) <= 1, a, "cell['cvalue'] is set for every formula cell",
                   f"cell['cvalue'] is only set under `{' and '.join(ast.unparse(c.test)[:40] for c in conds)}` while bind_cells reads it "
                   "for every formula cell: a formula stored without a cached value (<c><f>..</f></c>) raises KeyError on load")
    bc = pm.func('WorksheetReader.bind_cells')
    ok = any(isinstance(a, ast.Assign) and isinstance(a.targets[0], ast.Attribute) and a.targets[0].attr == 'cvalue'
             and isinstance(a.value, ast.Subscript) and isinstance(a.value.slice, ast.Constant) and a.value.slice.value == 'cvalue'
             for a in walk_local(bc))
    ctx.expect(ok, bc, 'bound cell carries cvalue', 'bind_cells does not copy the cached value onto the cell')
    reads = [a for a in walk_local(bc) if isinstance(a, ast.Assign) and isinstance(a.value, ast.Subscript)
             and isinstance(a.value.slice, ast.Constant) and a.value.slice.value == 'cvalue']
    for a in reads:
        conds = [c for c in flow.path_conditions(a, check_kills=False) if c.kind in ('if', 'guard')]
        ctx.expect(len(conds) == 1 and "'f'" in ast.unparse(conds[0].test), a, "cell['cvalue'] is read for formula cells only",
                   "bind_cells reads cell['cvalue'] outside the formula-cell branch")
    rd = rm.func('Reader.read')
    ok = any(isinstance(w, ast.With) and 'openpyxl_WorksheetReader_patch' in ast.unparse(w.items[0].context_expr)
             and any('load_workbook' in ast.unparse(s) for s in w.body) for w in walk_local(rd))
    ctx.expect(ok, rd, 'workbook loaded under the cached-value patch', 'load_workbook is not called inside the WorksheetReader patch')
    ctx.floor(10, 'formula/constant cell dataflow')


def rule_4(ctx):
    mm = ctx.mod('model')
    bd = mm.func('ModelCompiler.build_defined_names')
    # the key looked up in model.cells
    lookups = [n for n in walk_local(bd) if isinstance(n, ast.Compare) and isinstance(n.ops[0], (ast.In, ast.NotIn))
               and 'cells' in ast.unparse(n.comparators[0])]
    if not lookups:
        raise AnchorMissing('build_defined_names: membership test on model.cells')
    key = lookups[0].left
    if not isinstance(key, ast.Name):
        raise Unmodelled('cells key is not a local name')
    assigns = [a for a in walk_local(bd) if isinstance(a, ast.Assign) and any(
        isinstance(t, ast.Name) and t.id == key.id for t in a.targets)]
    txt = ' '.join(ast.unparse(a.value) for a in assigns)
    dollar = any(isinstance(c, ast.Call) and isinstance(c.func, ast.Attribute) and c.func.attr == 'replace' and c.args
                 and isinstance(c.args[0], ast.Constant) and c.args[0].value == '$' for a in assigns for c in ast.walk(a.value)) \
        or 'strip_absolute' in txt
    unquote = any(isinstance(c, ast.Call) and ((isinstance(c.func, ast.Attribute) and c.func.attr in ('resolve_sheet', 'resolve_address', 'resolve_ranges'))
                                                or (isinstance(c.func, ast.Attribute) and c.func.attr in ('strip', 'replace') and c.args
                                                    and isinstance(c.args[0], ast.Constant) and "'" in str(c.args[0].value)))
                  for a in assigns for c in ast.walk(a.value))
    ctx.expect(dollar, bd, 'defined-name target: $ removed', 'the target of a defined name keeps its $ markers when it is looked up')
    ctx.expect(unquote, bd, 'defined-name target: sheet name unquoted',
               'the target of a defined name keeps the quotes around its sheet name (\'Other Sheet\'!$A$1), while cell keys use '
               'the bare sheet name: a name bound to a cell of a sheet whose name needs quotes is dropped with a warning')
    ctx.floor(2, 'normalisation steps of name targets')


def rule_5(ctx):
    mm = ctx.mod('model')
    pa = mm.func('ModelCompiler.parse_archive')
    order = []
    for c in sorted(flow.calls_in(pa), key=flow.pos):
        if isinstance(c.func, ast.Attribute) and c.func.attr in ('read_cells', 'read_defined_names', 'build_defined_names',
                                                                 'link_cells_to_defined_names', 'build_ranges'):
            order.append(c.func.attr)
    want = ['read_cells', 'read_defined_names', 'build_defined_names', 'link_cells_to_defined_names', 'build_ranges']
    ctx.expect(order == want, pa, 'parse_archive build order', f'build steps run as {order}, expected {want}')
    tgt = [a for a in walk_local(pa) if isinstance(a, ast.Assign) and any('read_cells' in ast.unparse(a.value) for _ in [0])]
    ok = bool(tgt) and isinstance(tgt[0].targets[0], ast.Tuple) and \
        [ast.unparse(e).split('.')[-1] for e in tgt[0].targets[0].elts] == ['cells', 'formulae', 'ranges']
    ctx.expect(ok, pa, 'read_cells result unpacked into cells, formulae, ranges', 'the maps returned by read_cells are bound to the wrong attributes')
    rm = ctx.mod('reader')
    rc = rm.func('Reader.read_cells')
    r = last_return(rc)
    ok = False
    if r is not None and isinstance(r.value, (ast.List, ast.Tuple)) and len(r.value.elts) == 3 \
            and all(isinstance(e, ast.Name) for e in r.value.elts):
        # role of each returned map: what is stored into it
        roles = []
        for e in r.value.elts:
            stored = [a for a in walk_local(rc) if isinstance(a, ast.Assign) and any(
                isinstance(t, ast.Subscript) and isinstance(t.value, ast.Name) and t.value.id == e.id for t in a.targets)]
            if any(isinstance(a.value, ast.Call) and ctx.res.resolve(a.value.func, rm) == 'pkg:xltypes:XLCell' for a in stored):
                roles.append('cells')
            elif stored:
                roles.append('formulae')
            else:
                roles.append('ranges')
        ok = roles == ['cells', 'formulae', 'ranges']
    ctx.expect(ok, rc, 'read_cells returns [cells, formulae, ranges]', 'read_cells returns its maps in another order')
    rp = mm.func('ModelCompiler.read_and_parse_archive')
    ok = any(isinstance(n, ast.If) and 'build_code' in ast.unparse(n.test) and 'build_code()' in ast.unparse(n) for n in walk_local(rp))
    ctx.expect(ok, rp, 'formulas are compiled after loading', 'read_and_parse_archive does not build the formula ASTs')
    ctx.floor(4, 'build order facts')


def rule_6(ctx):
    from . import c03
    c03.rule_7(ctx)


RULES = [
    ('C11.1', 'ignored sheets contribute no cells', rule_1),
    ('C11.2', 'defined names honour ignore_sheets', rule_2),
    ('C11.3', 'what a formula cell stores', rule_3),
    ('C11.4', 'defined-name targets are normalised like cell keys', rule_4),
    ('C11.5', 'build order of parse_archive', rule_5),
    ('C11.6', 'range targets of defined names are unquoted by the address resolvers (shared with C03.7)', rule_6),
]
